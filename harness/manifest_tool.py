"""python3-vt harness/manifest_tool.py add <file.json>   : add/replace a check entry (and engine listing), drop it from not_applicable
   python3-vt harness/manifest_tool.py validate"""
import json, sys
P = "/verif/MANIFEST.json"
def load(): return json.load(open(P))
def save(m):
    json.dump(m, open(P, "w"), indent=1)
    validate()
def validate():
    import jsonschema
    jsonschema.validate(load(), json.load(open("/root/.vp/MANIFEST.schema.json")))
    m = load()
    ids = [c["property_id"] for c in m["checks"]] + [n["property_id"] for n in m.get("not_applicable", [])]
    assert sorted(ids) == sorted(set(ids)), "duplicate ids"
    print("manifest valid;", len(m["checks"]), "checks;", len(m.get("not_applicable", [])), "not applicable")
def add(entry):
    m = load()
    pid = entry["property_id"]
    entry.setdefault("quick_cmd", f"./check {pid} --tier quick")
    entry.setdefault("thorough_cmd", f"./check {pid} --tier thorough")
    entry.setdefault("evidence_file", f"/verif/evidence/{pid}.json")
    entry.setdefault("replay_cmd_template", f"./check {pid} --replay {{path}}")
    entry.setdefault("engine", "coq-allfed")
    m["checks"] = [c for c in m["checks"] if c["property_id"] != pid] + [entry]
    m["checks"].sort(key=lambda c: c["property_id"])
    m["not_applicable"] = [n for n in m.get("not_applicable", []) if n["property_id"] != pid]
    sp = m["engines"][0]["serves_properties"]
    if pid not in sp:
        sp.append(pid); sp.sort()
    save(m)
if __name__ == "__main__":
    if sys.argv[1] == "validate": validate()
    else: add(json.load(open(sys.argv[2])))
