"""Evidence writer (schema: /root/.vp/EVIDENCE.schema.json)."""
import json
import os
import time

VERIF = "/verif"

BASE_TRUST = [
    "Coq 8.16.1 kernel + vm_compute (no native_compute); full .vo build",
    "Python numbers read as exact rationals (Q): float rounding / NaN / overflow are not modelled; "
    "the correspondence check bounds the observed float-vs-exact gap by its tolerance",
    "harness: case generators, float->Q encoding (Uint63 triples decoded by Base/Dec.v, self-tested in every case file), "
    "canonicalisation and tolerance of the comparison",
    "/venv Python 3.12, numpy, pandas, PuLP/CBC as installed",
]


def write_evidence(ctx):
    obligations = len(ctx.obligations)
    discharged = sum(1 for _, ok, _ in ctx.obligations if ok)
    cov = {
        "evaluations": int(ctx.evaluations),
        "distinct_nontrivial": len(ctx.nontrivial),
        "rule": ctx.rule,
        "samples": ctx.samples if ctx.samples else [{"note": "no sample recorded"}],
        "obligations": obligations,
        "discharged": discharged,
        "checker_cmd": ctx.checker_cmd or "n/a",
        "trusted_base": BASE_TRUST + ctx.trusted,
        "traces_validated_against_impl": int(ctx.traces),
        "theorems": [{"name": n, "closed_under_global_context": ok and not ax, "axioms": ax}
                     for n, ok, ax in ctx.obligations],
        "proof_ok": ctx.proof_ok,
        "tie_ok": ctx.tie_ok,
        "no_longer_checks": ctx.broken,
        "known_findings_reproduced": [f["key"] for f in ctx.known_seen],
        "explanation": ctx.notes.get("explanation", ""),
    }
    if discharged == 0:
        # keep the file valid for the schema's fallback branch: a proof-level claim with nothing discharged
        cov["obligations_total"] = cov.pop("obligations")
        cov["discharged_total"] = cov.pop("discharged")
    cov.update(ctx.extra_cov)
    for k, v in ctx.notes.items():
        if k not in cov:
            cov[k] = v
    ev = {
        "property_id": ctx.pid,
        "tier": ctx.tier,
        "seed": int(ctx.seed),
        "level": ctx.level,
        "coverage": cov,
        "assumptions": ctx.assumptions,
        "wall_s": round(time.time() - ctx.t0, 2),
        "violations": len(ctx.violations),
    }
    os.makedirs(os.path.join(VERIF, "evidence"), exist_ok=True)
    path = os.path.join(VERIF, "evidence", f"{ctx.pid}.json")
    if os.environ.get("VERIF_REPO", "/repo") != "/repo":
        # a run against a scratch copy (mutation testing) never overwrites the evidence of the real tree
        path = os.path.join(ctx.work, "evidence_scratch_repo.json")
    with open(path, "w") as f:
        json.dump(ev, f, indent=1, default=str)
    try:
        import jsonschema
        schema = json.load(open("/root/.vp/EVIDENCE.schema.json"))
        jsonschema.validate(json.load(open(path)), schema)
    except ImportError:
        pass
    except Exception as e:  # never let evidence validation crash a check
        print("WARNING: evidence file does not validate:", str(e)[:500])
    return path
