"""Run checks against a seeded change without touching /repo:
   python3-vt harness/seedrun.py <patch.diff> C01 [C02 ...] [--tier quick]
copies /repo to /tmp/mut_<pid>, applies the patch there, runs ./check <id> with VERIF_REPO pointing at the copy,
prints exit code + VIOLATION lines per check, removes the copy and regenerates coq/Gen from /repo."""
import os
import shutil
import subprocess
import sys


def main():
    args = [a for a in sys.argv[1:] if not a.startswith("--")]
    tier = "quick"
    if "--tier" in sys.argv:
        tier = sys.argv[sys.argv.index("--tier") + 1]
        args = [a for a in args if a != tier]
    patch, ids = os.path.abspath(args[0]), args[1:]
    dst = f"/tmp/mut_{os.getpid()}"
    shutil.rmtree(dst, ignore_errors=True)
    subprocess.run(["cp", "-r", "/repo", dst], check=True)
    try:
        p = subprocess.run(["git", "-C", dst, "apply", patch], capture_output=True, text=True)
        if p.returncode != 0:
            print("PATCH DOES NOT APPLY:", p.stderr)
            return 2
        env = dict(os.environ, VERIF_REPO=dst)
        res = {}
        for pid in ids:
            q = subprocess.run(["./check", pid, "--tier", tier], cwd="/verif", env=env, capture_output=True, text=True)
            lines = [l for l in q.stdout.splitlines() if l.startswith("VIOLATION") or l.startswith("  (") or "done: exit" in l]
            print(f"== {pid}: exit {q.returncode}")
            print("\n".join(lines[:8]))
            res[pid] = q.returncode
        return 0
    finally:
        shutil.rmtree(dst, ignore_errors=True)
        # checks that run translators leave coq/Gen regenerated from the scratch copy: restore it from /repo
        if set(ids) - {"C01", "C04", "C05", "C06", "C07", "C09", "C11", "C12", "C14", "C18"}:
            subprocess.run(["./check", "--setup"], cwd="/verif", capture_output=True, text=True)


if __name__ == "__main__":
    sys.exit(main())
