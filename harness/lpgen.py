"""Generators of synthetic optimiser inputs (lp_in-like dicts, see Model/LP.v) from a seeded rng.
Values are dyadic (multiples of 1/64) so that sums/comparisons are exact in floats."""
import copy

from lpcase import SERIES


def dy(rng, lo, hi):
    """dyadic value in [lo, hi]"""
    return rng.randint(int(lo * 64), int(hi * 64)) / 64.0


def gen_spec(rng, ty=None, solvable=False, nmax=26):
    ty = ty or rng.choice(["to_humans", "to_humans", "to_animals"])
    r = rng.random()
    if r < 0.15:
        n = rng.choice([1, 2])
    elif r < 0.75:
        n = rng.randint(3, 13)
    else:
        n = rng.randint(min(14, nmax), nmax)
    flags = {k: rng.random() < 0.6 for k in ("add_sw", "add_cr", "add_sf", "add_meat", "add_scp", "add_cs")}
    if rng.random() < 0.1:
        flags = {k: False for k in flags}
    if solvable and not any(flags.values()):
        flags["add_cr"] = True
    pop = rng.choice([dy(rng, 1e3, 9e6), dy(rng, 1.1e7, 1e9), 1e7, 9999999.0])
    kpp = rng.choice([63000.0, 54750.0, dy(rng, 3e4, 9e4)])
    need = pop * kpp / 1e9 if rng.random() < 0.7 else dy(rng, 1, 5000)
    waste = lambda: rng.choice([0.0, 0.0, 12.5, 25.0, 50.0, dy(rng, 0, 60)])
    ser = lambda lo, hi, pz=0.15: [0.0 if rng.random() < pz else dy(rng, lo, hi) for _ in range(n)]
    d = {"NM": n, "ty": ty, "store_years": rng.random() < 0.55, "relocated": rng.random() < 0.3,
         "harvest_delay": rng.choice([0, 1, 2, 7, 9]),
         "pop": pop, "kcals_monthly_pp": kpp, "need": need,
         "w_sf": waste(), "w_cr": waste(), "w_meat": waste(), "w_scp": waste(), "w_cs": waste(), "w_sw": waste(),
         "sf0": rng.choice([0.0, dy(rng, 0, 4000)]), "sw_kcals": rng.choice([0.25, 0.5, dy(rng, 0.1, 2)]),
         "sw_min_density": 400.0, "sw_max_density": rng.choice([800.0, 4000.0]), "sw_harvest_loss": rng.choice([0.0, 15.0, 20.0]),
         }
    d.update(flags)
    for tag in ("sw", "scp", "cs"):
        for u in ("h", "f", "b"):
            d[f"cap_{tag}_{u}"] = rng.choice([0.0, 10.0, 30.0, 50.0, 100.0, dy(rng, 0, 100)])
    d["crops_prod"] = ser(0, 900)
    d["milk"] = ser(0, 60, 0.4)
    d["greenhouse"] = ser(0, 80, 0.5)
    d["fish"] = ser(0, 30, 0.3)
    d["scp_prod"] = sorted(ser(0, 200, 0.3))
    d["cs_prod"] = sorted(ser(0, 200, 0.3))
    d["growth"] = [dy(rng, 0, 400) for _ in range(n)]
    ia = rng.choice([0.0, dy(rng, 0, 2)])
    built = sorted(dy(rng, ia, ia + 50) for _ in range(n))
    if n:
        built[0] = max(built[0], ia)
    d["built_area"] = built
    d["sw_init_area"] = ia
    d["sw_init"] = min(dy(rng, 0, 400), d["sw_max_density"] * built[0]) if n else 0.0
    mm = ser(0, 120, 0.3)
    d["meat_monthly"] = mm
    run, acc = [], 0.0
    for x in mm:
        acc += x
        run.append(acc)
    d["meat_running"] = run
    d["meat_total"] = acc
    if rng.random() < 0.15 and not solvable:   # inconsistent meat inputs are still an LP to build
        d["meat_total"] = dy(rng, 0, 500)
    zero = [0.0] * n
    if ty == "to_humans":
        if solvable:
            small = rng.random() < 0.5
            d["feed_charge"] = zero if small else [min(dy(rng, 0, 30), x / 4) for x in d["crops_prod"]]
            d["biofuel_charge"] = zero if small else [min(dy(rng, 0, 10), x / 8) for x in d["crops_prod"]]
            if not d["add_cr"]:
                d["feed_charge"] = zero
                d["biofuel_charge"] = zero
        else:
            d["feed_charge"] = ser(0, 50, 0.4)
            d["biofuel_charge"] = ser(0, 20, 0.4)
        d["max_feed"] = zero
        d["max_biofuel"] = zero
        for tag in ("cr", "sf", "meat", "scp", "cs", "sw"):
            d["pin_" + tag] = zero
    else:
        d["feed_charge"] = zero if rng.random() < 0.7 else ser(0, 50, 0.4)
        d["biofuel_charge"] = zero if rng.random() < 0.7 else ser(0, 20, 0.4)
        d["max_feed"] = ser(0, 300, 0.2)
        d["max_biofuel"] = ser(0, 100, 0.2)
        for tag in ("cr", "sf", "meat", "scp", "cs", "sw"):
            d["pin_" + tag] = zero if (solvable or rng.random() < 0.3) else ser(0, 40, 0.3)
    return d


def perturb(spec, rng):
    """a copy with one series element or scalar changed (used to widen the tie's input distribution)"""
    d = copy.deepcopy(spec)
    k = rng.choice(SERIES)
    if d[k]:
        j = rng.randrange(len(d[k]))
        d[k][j] = dy(rng, 0, 500)
    return d


def gen_targeted(rng, k):
    """solvable instances aimed at structurally special branches of the LP builder (cycled by k)"""
    t = k % 9
    if t == 0:      # first-year-only stock regime, horizon past month 12, feed/biofuel charged in every month
        d = gen_spec(rng, ty="to_humans", solvable=True, nmax=16)
        n = rng.randint(15, 20)
        d = _resize(d, n, rng)
        d.update(store_years=False, add_sf=True, add_cr=True, sf0=dy(rng, 200, 2000))
        d["crops_prod"] = [dy(rng, 100, 600) for _ in range(n)]
        d["feed_charge"] = [dy(rng, 5, 25) for _ in range(n)]
        d["biofuel_charge"] = [dy(rng, 1, 10) for _ in range(n)]
    elif t == 1:    # same regime in the feed-maximising round with ceilings after month 12
        d = gen_spec(rng, ty="to_animals", solvable=True, nmax=16)
        n = rng.randint(15, 20)
        d = _resize(d, n, rng)
        d.update(store_years=False, add_sf=True, add_cr=True, sf0=dy(rng, 200, 2000))
        d["crops_prod"] = [dy(rng, 100, 600) for _ in range(n)]
        d["max_feed"] = sorted((dy(rng, 50, 400) for _ in range(n)), reverse=True)
        d["max_biofuel"] = sorted((dy(rng, 10, 100) for _ in range(n)), reverse=True)
    elif t == 2:    # meat with storage, slaughter late in the horizon, nonzero retail waste
        d = gen_spec(rng, ty="to_humans", solvable=True, nmax=12)
        n = d["NM"]
        d.update(store_years=True, add_meat=True, w_meat=rng.choice([12.5, 25.0, 50.0]))
        mm = [0.0] * n
        for j in range(n // 2, n):
            mm[j] = dy(rng, 20, 200)
        _set_meat(d, mm)
    elif t == 3:    # meat without storage, nonzero retail waste, meat is a large share of the food
        d = gen_spec(rng, ty="to_humans", solvable=True, nmax=12)
        n = d["NM"]
        d.update(store_years=False, add_meat=True, w_meat=rng.choice([12.5, 25.0, 50.0]), add_cr=True)
        _set_meat(d, [dy(rng, 50, 300) for _ in range(n)])
        d["crops_prod"] = [dy(rng, 1, 20) for _ in range(n)]
        d["feed_charge"] = [0.0] * n
        d["biofuel_charge"] = [0.0] * n
    elif t == 4:    # SCP / cellulosic sugar with binding output and nonzero waste, human caps wide open
        d = gen_spec(rng, ty="to_humans", solvable=True, nmax=12)
        n = d["NM"]
        d.update(add_scp=True, add_cs=True, w_scp=rng.choice([12.5, 25.0]), w_cs=rng.choice([12.5, 25.0, 50.0]),
                 cap_scp_h=100.0, cap_cs_h=100.0)
        d["scp_prod"] = [dy(rng, 5, 60) for _ in range(n)]
        d["cs_prod"] = [dy(rng, 5, 60) for _ in range(n)]
        d["need"] = max(d["need"], 2000.0)
    elif t == 5:    # feed round with resilient foods able to go to feed/biofuel and 100 % caps, zero charges
        d = gen_spec(rng, ty="to_animals", solvable=True, nmax=12)
        n = d["NM"]
        d.update(add_scp=True, add_cs=True, cap_scp_f=100.0, cap_scp_b=100.0, cap_cs_f=100.0, cap_cs_b=100.0)
        d["scp_prod"] = [dy(rng, 5, 60) for _ in range(n)]
        d["cs_prod"] = [dy(rng, 5, 60) for _ in range(n)]
        d["max_feed"] = [dy(rng, 100, 400)] * n
        d["max_biofuel"] = [dy(rng, 50, 100)] * n
    elif t == 6:    # small population (pin tolerance switch) with charges, both optimisation types
        d = gen_spec(rng, ty=rng.choice(["to_humans", "to_animals"]), solvable=True, nmax=12)
        d["pop"] = dy(rng, 1e5, 9e6)
        d["need"] = d["pop"] * d["kcals_monthly_pp"] / 1e9
        n = d["NM"]
        d.update(add_cr=True)
        d["crops_prod"] = [dy(rng, 0.5, 3) * d["need"] for _ in range(n)]
        if d["ty"] == "to_humans":
            d["feed_charge"] = [x / 8 for x in d["crops_prod"]]
            d["biofuel_charge"] = [x / 16 for x in d["crops_prod"]]
    elif t == 8:    # human round with charges, SCP / cellulosic sugar in surplus, binding feed / biofuel share caps
        d = gen_spec(rng, ty="to_humans", solvable=True, nmax=12)
        n = d["NM"]
        d.update(add_scp=True, add_cs=True, add_cr=True, add_sw=False, cap_scp_f=rng.choice([10.0, 30.0]), cap_scp_b=rng.choice([10.0, 30.0]),
                 cap_cs_f=rng.choice([10.0, 30.0]), cap_cs_b=rng.choice([10.0, 30.0]), cap_scp_h=rng.choice([5.0, 10.0]),
                 cap_cs_h=rng.choice([5.0, 10.0]), w_scp=0.0, w_cs=0.0)
        d["need"] = max(d["need"], 500.0)
        d["crops_prod"] = [dy(rng, 200, 600) for _ in range(n)]
        d["scp_prod"] = [dy(rng, 100, 300) for _ in range(n)]
        d["cs_prod"] = [dy(rng, 100, 300) for _ in range(n)]
        d["feed_charge"] = [dy(rng, 40, 120) for _ in range(n)]
        d["biofuel_charge"] = [dy(rng, 10, 40) for _ in range(n)]
    else:           # seaweed with growth, harvest needed, moderate caps
        d = gen_spec(rng, ty="to_humans", solvable=True, nmax=10)
        n = d["NM"]
        d.update(add_sw=True, sw_kcals=0.5, sw_init=dy(rng, 1, 50), sw_init_area=1.0, sw_max_density=4000.0,
                 sw_min_density=400.0, sw_harvest_loss=15.0, cap_sw_h=rng.choice([10.0, 30.0, 100.0]), w_sw=rng.choice([0.0, 25.0]))
        d["built_area"] = sorted(dy(rng, 1, 30) for _ in range(n))
        d["growth"] = [dy(rng, 0, 150) for _ in range(n)]
    return d


def _set_meat(d, mm):
    d["meat_monthly"] = mm
    run, acc = [], 0.0
    for x in mm:
        acc += x
        run.append(acc)
    d["meat_running"] = run
    d["meat_total"] = acc


def _resize(d, n, rng):
    """rebuild every series of d for horizon n (values redrawn)"""
    old = d["NM"]
    d["NM"] = n
    for k in SERIES:
        v = list(d[k])
        if not v:
            v = [0.0]
        while len(v) < n:
            v.append(v[rng.randrange(len(v))])
        d[k] = v[:n]
    d["built_area"] = sorted(d["built_area"])
    d["scp_prod"] = sorted(d["scp_prod"])
    d["cs_prod"] = sorted(d["cs_prod"])
    _set_meat(d, d["meat_monthly"])
    if d["built_area"]:
        d["sw_init"] = min(d["sw_init"], d["sw_max_density"] * d["built_area"][0])
        d["built_area"][0] = max(d["built_area"][0], d["sw_init_area"])
        d["built_area"] = sorted(d["built_area"])
    return d
