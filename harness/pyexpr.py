"""Shared pieces of the fail-closed Python-ast -> Coq translators."""
import ast
from fractions import Fraction


class TranslatorRejected(Exception):
    def __init__(self, path, lineno, reason):
        super().__init__(f"{path}:{lineno}: {reason}")
        self.path, self.lineno, self.reason = path, lineno, reason


def qlit(v):
    """exact Coq Q literal of a Python int/float literal (read as the decimal it denotes)"""
    if isinstance(v, bool):
        raise ValueError("bool literal")
    if isinstance(v, int):
        fr = Fraction(v)
    else:
        fr = Fraction(repr(v))
    if fr.denominator == 1:
        return f"({fr.numerator})" if fr.numerator < 0 else f"{fr.numerator}"
    return f"({fr.numerator} # {fr.denominator})"


def qlit_fraction(fr):
    fr = Fraction(fr)
    if fr.denominator == 1:
        return f"({fr.numerator})" if fr.numerator < 0 else f"{fr.numerator}"
    return f"({fr.numerator} # {fr.denominator})"


def coq_string(s):
    return '"' + s.replace('"', '""') + '"'


def expr_to_coq(node, resolve, path):
    """arithmetic over names/attributes -> Coq Q expression (string).
    resolve(node) -> coq text for Name / Attribute nodes, or None to reject."""
    if isinstance(node, ast.Constant) and isinstance(node.value, (int, float)) and not isinstance(node.value, bool):
        return qlit(node.value)
    if isinstance(node, ast.BinOp):
        ops = {ast.Add: "+", ast.Sub: "-", ast.Mult: "*", ast.Div: "/"}
        for k, sym in ops.items():
            if isinstance(node.op, k):
                return f"({expr_to_coq(node.left, resolve, path)} {sym} {expr_to_coq(node.right, resolve, path)})"
        raise TranslatorRejected(path, node.lineno, f"operator {type(node.op).__name__}")
    if isinstance(node, ast.UnaryOp) and isinstance(node.op, ast.USub):
        return f"(- {expr_to_coq(node.operand, resolve, path)})"
    if isinstance(node, (ast.Name, ast.Attribute)):
        r = resolve(node)
        if r is None:
            raise TranslatorRejected(path, node.lineno, f"unknown name {ast.unparse(node)}")
        return r
    raise TranslatorRejected(path, getattr(node, "lineno", 0), f"expression shape {type(node).__name__}: {ast.unparse(node)[:60]}")


def find_class(tree, name, path):
    for n in tree.body:
        if isinstance(n, ast.ClassDef) and n.name == name:
            return n
    raise TranslatorRejected(path, 0, f"class {name} not found")


def find_method(cls, name, path):
    for n in cls.body:
        if isinstance(n, ast.FunctionDef) and n.name == name:
            return n
    raise TranslatorRejected(path, cls.lineno, f"method {name} not found")


def strip_doc(body):
    if body and isinstance(body[0], ast.Expr) and isinstance(body[0].value, ast.Constant) and isinstance(body[0].value.value, str):
        return body[1:]
    return body


def write_if_changed(path, text):
    try:
        with open(path) as f:
            if f.read() == text:
                return False
    except FileNotFoundError:
        pass
    with open(path, "w") as f:
        f.write(text)
    return True
