"""Translator: data/no_food_trade/computer_readable_combined.csv (+ the expected country list of
src/utilities/import_utilities.py) -> coq/Gen/CountryTable.v and shards coq/Gen/CountryTable<k>.v (fail-closed).

Generic, reused by C15, C16, C17.  What is emitted:

  Gen/CountryTable<k>.v   Definition rows_<k> : list (string * string * list (option (Z * Z)))
                          one entry per CSV row, in file order:  (iso3, country, cells)
                          cells = the remaining columns in header order; a numeric cell whose text denotes the
                          decimal  m * 10^e  is  Some (m, e)  (EXACT: the text is read with decimal.Decimal, never
                          through float); an empty / nan / unparsable cell is None (= "missing").
  Gen/CountryTable.v      columns        : list string   header without the first two columns (iso3, country)
                          raw_rows       : rows_0 ++ rows_1 ++ ...
                          n_columns, n_rows : nat  (as counted by the translator; re-proved in Props/C17.v)
                          expected_codes : list string   ImportUtilities.country_codes (= eu_27_p_uk_codes +
                                           iso3_no_EU_GBR_TWN + ["TWN"], read by AST) with the replacement
                                           "SWZ" -> "SWT" that import_food_data.py applies (its presence there is checked).

Decoding (Z*Z) -> Q and named column access live in Model/Tables.v (`cellq`, `getq`), not here, so that the
generated files contain nothing but literals of primitive types (fast to parse: ~35 000 pairs in a few seconds;
`n#d` literals would take minutes).
"""
import ast
import csv
import hashlib
import os
import sys
from decimal import Decimal, InvalidOperation

sys.path.insert(0, os.path.dirname(__file__))
from pyexpr import TranslatorRejected, coq_string, write_if_changed

CSV = "data/no_food_trade/computer_readable_combined.csv"
UTIL = "src/utilities/import_utilities.py"
MERGE = "src/import_scripts_no_food_trade/import_food_data.py"
NSHARDS = 10  # ~16 rows (~42 kB, ~2 s of coqc) each; compiled in parallel
MISSING = {"", "nan", "NaN", "NAN", "None", "null", "NA", "N/A", "#N/A", "inf", "-inf", "Infinity", "-Infinity"}


def cell(text):
    t = text.strip()
    if t in MISSING:
        return "None"
    try:
        d = Decimal(t)
    except InvalidOperation:
        return "None"
    if not d.is_finite():
        return "None"
    sign, digits, exp = d.as_tuple()
    m = int("".join(map(str, digits)))
    while m != 0 and m % 10 == 0:
        m //= 10
        exp += 1
    if m == 0:
        exp = 0
    if sign:
        m = -m
    ms = f"({m})" if m < 0 else f"{m}"
    es = f"({exp})" if exp < 0 else f"{exp}"
    return f"Some ({ms}, {es})"


def str_list_literal(node, path):
    if not (isinstance(node, ast.List) and all(isinstance(e, ast.Constant) and isinstance(e.value, str) for e in node.elts)):
        raise TranslatorRejected(path, getattr(node, "lineno", 0), "expected a list literal of strings")
    return [e.value for e in node.elts]


def expected_codes(repo):
    """ImportUtilities.country_codes evaluated symbolically: only list literals, names and + are accepted."""
    path = os.path.join(repo, UTIL)
    tree = ast.parse(open(path).read())
    cls = None
    for n in tree.body:
        if isinstance(n, ast.ClassDef) and n.name == "ImportUtilities":
            cls = n
    if cls is None:
        raise TranslatorRejected(UTIL, 0, "class ImportUtilities not found")
    env = {}

    def ev(node):
        if isinstance(node, ast.List):
            return str_list_literal(node, UTIL)
        if isinstance(node, ast.Name):
            if node.id not in env:
                raise TranslatorRejected(UTIL, node.lineno, f"unknown name {node.id}")
            return env[node.id]
        if isinstance(node, ast.BinOp) and isinstance(node.op, ast.Add):
            return ev(node.left) + ev(node.right)
        raise TranslatorRejected(UTIL, getattr(node, "lineno", 0), "expression shape in a country list")

    for st in cls.body:
        if isinstance(st, ast.Assign) and len(st.targets) == 1 and isinstance(st.targets[0], ast.Name):
            name = st.targets[0].id
            if name in ("iso3_no_EU_GBR_TWN", "eu_27_p_uk_codes", "countries_with_EU_no_TWN", "country_codes"):
                env[name] = ev(st.value)
    if "country_codes" not in env:
        raise TranslatorRejected(UTIL, cls.lineno, "country_codes not defined")
    # the SWZ -> SWT replacement of the merge script
    mpath = os.path.join(repo, MERGE)
    mtree = ast.parse(open(mpath).read())
    found = False
    for n in ast.walk(mtree):
        if (isinstance(n, ast.Call) and isinstance(n.func, ast.Attribute) and n.func.attr == "replace" and len(n.args) == 2
                and all(isinstance(a, ast.Constant) for a in n.args) and [a.value for a in n.args] == ["SWZ", "SWT"]):
            found = True
    if not found:
        raise TranslatorRejected(MERGE, 0, 'the replacement expected_country_codes[i].replace("SWZ", "SWT") was not found')
    return [c.replace("SWZ", "SWT") for c in env["country_codes"]]


def main(repo, gendir):
    path = os.path.join(repo, CSV)
    with open(path, newline="") as f:
        rows = list(csv.reader(f))
    if not rows:
        raise TranslatorRejected(CSV, 0, "empty file")
    header = rows[0]
    if header[:2] != ["iso3", "country"]:
        raise TranslatorRejected(CSV, 1, f"first two columns are {header[:2]}, expected iso3, country")
    if len(set(header)) != len(header):
        raise TranslatorRejected(CSV, 1, "duplicate column name")
    body = rows[1:]
    entries = []
    missing = 0
    for i, r in enumerate(body):
        if len(r) != len(header):
            raise TranslatorRejected(CSV, i + 2, f"row has {len(r)} fields, header has {len(header)}")
        cells = [cell(c) for c in r[2:]]
        missing += cells.count("None")
        entries.append(f"  ({coq_string(r[0])}, {coq_string(r[1])},\n   [" + "; ".join(cells) + "])")
    # shard: a FIXED number of files (they are listed in coq/_CoqProject), rows spread evenly
    n = len(entries)
    shards = [entries[k * n // NSHARDS:(k + 1) * n // NSHARDS] for k in range(NSHARDS)]
    hdr = "(* GENERATED by harness/gen_country_table.py from %s -- do not edit *)\n" % CSV
    files = []
    digests = []
    for k, sh in enumerate(shards):
        body_txt = ";\n".join(sh)
        dg = hashlib.sha256(body_txt.encode()).hexdigest()[:32]
        digests.append(dg)
        txt = (hdr + "From Coq Require Import ZArith List String.\nImport ListNotations.\nOpen Scope Z_scope.\n"
               "Open Scope string_scope.\n\n"
               f"Definition rows_{k} : list (string * string * list (option (Z * Z))) :=\n[\n" + body_txt + "\n].\n\n"
               "(* digest of the literal above; Gen/CountryTable.v refuses to compile against a stale compiled shard *)\n"
               f"Definition digest_{k} : string := \"{dg}\".\n")
        fn = f"CountryTable{k}.v"
        write_if_changed(os.path.join(gendir, fn), txt)
        files.append(fn)
    exp = expected_codes(repo)
    main_txt = (hdr + "From Coq Require Import ZArith List String.\n"
                + "".join(f"From Allfed Require Import Gen.CountryTable{k}.\n" for k in range(len(shards)))
                + "Import ListNotations.\nOpen Scope string_scope.\n\n"
                "(* header of the CSV without its first two columns (iso3, country) *)\n"
                "Definition columns : list string :=\n  [" + ";\n   ".join(coq_string(c) for c in header[2:]) + "].\n\n"
                "Definition raw_rows : list (string * string * list (option (Z * Z))) :=\n  "
                + " ++ ".join(f"rows_{k}" for k in range(len(shards))) + ".\n\n"
                f"Definition n_rows : nat := {len(body)}.\nDefinition n_columns : nat := {len(header) - 2}.\n\n"
                "(* freshness guard: every compiled shard is the one this file was generated with *)\n"
                "Example shards_fresh : ["
                + "; ".join(f"digest_{k}" for k in range(len(shards))) + "] =\n  ["
                + "; ".join(coq_string(d) for d in digests) + "] := eq_refl.\n\n"
                "(* ImportUtilities.country_codes with SWZ -> SWT (import_food_data.py) *)\n"
                "Definition expected_codes : list string :=\n  [" + "; ".join(coq_string(c) for c in exp) + "].\n")
    write_if_changed(os.path.join(gendir, "CountryTable.v"), main_txt)
    return {"rows": len(body), "columns": len(header), "numeric_columns": len(header) - 2, "missing_cells": missing,
            "shards": len(shards), "files": files + ["CountryTable.v"], "expected_codes": len(exp),
            "max_shard_bytes": max(len(";\n".join(s)) for s in shards), "digests": digests}


def heal(gendir):
    """force a rebuild of every shard (used when Gen/CountryTable.v does not compile: a compiled shard is stale)"""
    for k in range(NSHARDS):
        for ext in (".vo", ".vos", ".vok", ".glob"):
            try:
                os.remove(os.path.join(gendir, f"CountryTable{k}{ext}"))
            except FileNotFoundError:
                pass
    for ext in (".vo", ".vos", ".vok", ".glob"):
        try:
            os.remove(os.path.join(gendir, "CountryTable" + ext))
        except FileNotFoundError:
            pass


if __name__ == "__main__":
    print(main(sys.argv[1] if len(sys.argv) > 1 else "/repo", sys.argv[2] if len(sys.argv) > 2 else "/verif/coq/Gen"))


def ensure_built(ctx):
    """call after ctx.regen(["gen_country_table"]): builds Gen/CountryTable.vo; when the freshness guard (or anything in
    Gen/) fails, removes the compiled shards and builds once more.  Returns True when Gen/CountryTable.vo is usable."""
    import lib
    ok, bad, out = ctx.build(["Gen/CountryTable.vo"])
    if ok:
        return True
    ctx.log("Gen/CountryTable does not build (stale shard?) - rebuilding all shards")
    heal(os.path.join(lib.COQ, "Gen"))
    ok, bad, out = ctx.build(["Gen/CountryTable.vo"])
    if not ok:
        ctx.tie_ok = False
        ctx.broken.append(f"generated country table does not compile: {bad}: {out[-300:]}")
    return ok
