"""C13 - scenario options mean what they say and are applied exactly once.
proof: Props/C13.v over Gen/Setters.v (regenerated from scenarios.py / run_scenario.py / animal_populations.py);
tie: translator + differential of Model/Options.dispatch / run_history / head_column against the real
     ScenarioRunner.set_depending_on_option, direct Scenarios setter calls and animal_populations.main;
audit: the clauses of the property evaluated directly on the implementation (harness/impl/c13_audit.py)."""
import json
import os
from concurrent.futures import ThreadPoolExecutor

from lib import fq, fql, cstr, clist

IMPORTS = "From Allfed Require Import Base.StrUtil Gen.Setters Model.Options."
TOL = "(1#1000000000000)"

BASE_G = [("scale", "global"), ("NMONTHS", 120), ("stored_food", "baseline"), ("ratio_stocks_untouched", "zero"),
          ("shutoff", "continued"), ("waste", "baseline_globally"), ("nutrition", "catastrophe"),
          ("intake_constraints", "enabled"), ("seasonality", "baseline_globally"), ("grasses", "global_nuclear_winter"),
          ("fish", "nuclear_winter"), ("crop_disruption", "global_nuclear_winter"), ("protein", "not_required"),
          ("fat", "not_required"), ("cull", "do_eat_culled"), ("scenario", "all_resilient_foods"),
          ("meat_strategy", "reduce_breeding")]
BASE_C = [("scale", "country"), ("NMONTHS", 120), ("stored_food", "baseline"), ("ratio_stocks_untouched", "zero"),
          ("shutoff", "long_delayed_shutoff"), ("waste", "baseline_in_country"), ("nutrition", "catastrophe"),
          ("intake_constraints", "enabled"), ("seasonality", "country"), ("grasses", "country_nuclear_winter"),
          ("fish", "nuclear_winter"), ("crop_disruption", "country_nuclear_winter"), ("protein", "not_required"),
          ("fat", "not_required"), ("cull", "do_eat_culled"), ("scenario", "all_resilient_foods"),
          ("meat_strategy", "reduce_breeding")]
BASE_C2 = [("scale", "country"), ("NMONTHS", 72), ("stored_food", "zero"), ("ratio_stocks_untouched", "baseline"),
           ("shutoff", "continued"), ("waste", "tripled_prices_in_country"), ("nutrition", "baseline"),
           ("intake_constraints", "disabled_for_humans"), ("seasonality", "country"), ("grasses", "baseline"),
           ("fish", "baseline"), ("crop_disruption", "zero"), ("protein", "not_required"),
           ("fat", "not_required"), ("cull", "dont_eat_culled"), ("scenario", "seaweed"),
           ("meat_strategy", "feed_only_ruminants")]
SPECIAL_ROWS = ["SLV", "ALB", "ECU", "SWT", "USA", "IND"]
KIND = {"AssertRejected": "AssertRejected", "ValueRejected": "ValueRejected", "TypeRejected": "TypeRejected", "Exit": "ExitK"}
CODES = {1: "model accepts, implementation rejects", 2: "model rejects, implementation accepts", 3: "rejection kinds differ",
         4: "constants differ", 5: "time constants differ", 6: "flags differ", 7: "description differs",
         8: "IS_GLOBAL_ANALYSIS differs", 9: "dictionary at rejection differs"}
# documentation mismatches the design records as observations (not defects): see DESIGN.md C13
HEAD_CODES = {1: "derived column differs", 2: "only one side treats the key as a head-count override",
              3: "override reached the table although the model says the row labels differ"}
README_ONLY = {("ratio_stocks_untouched", "no_stored_food_between_years")}


# ------------------------------------------------------------------ Coq encoders
def cval(e):
    if "n" in e:
        return f"(VNum {fq(e['n'])})"
    if "b" in e:
        return f"(VBool {'true' if e['b'] else 'false'})"
    if "s" in e:
        return f"(VStr {cstr(e['s'])})"
    if "l" in e:
        return f"(VList {fql(e['l'])})"
    if "d" in e:
        return "VDict"
    return "VNone"


def cdict(pairs):
    return clist([f"({cstr(k)}, {cval(v)})" for k, v in pairs])


def cdict_i(pairs, K):
    return clist([K.pair(k, v) for k, v in pairs])


class Interner:
    """per-file tables: key strings (referred to by index) and (key, value) pairs (referred to by name); repeated
    entries of the observed dictionaries are then parsed once per file instead of once per case"""

    def __init__(self):
        self.keys, self.pairs = {}, {}

    def __call__(self, key):
        if key not in self.keys:
            self.keys[key] = len(self.keys)
        return f"{self.keys[key]}%nat"

    def pair(self, k, v):
        t = f"({self(k)}, {cval(v)})"
        if t not in self.pairs:
            self.pairs[t] = f"p{len(self.pairs)}"
        return self.pairs[t]

    def defs(self):
        out = ["Definition ks : list string := " + clist([cstr(k) for k in self.keys]) + "."]
        out += [f"Definition {n} : nat * value := {t}." for t, n in self.pairs.items()]
        return "\n".join(out)


def float_parses(s):
    try:
        float(s)
        return True
    except ValueError:
        return False


def copt(v):
    if v is None:
        return "ONone"
    if isinstance(v, bool):
        raise ValueError("bool option value")
    if isinstance(v, (int, float)):
        return f"(ONum {fq(v)})"
    if v.isascii() and v.isdigit():
        return f"(OStrNum {cstr(v)} {fq(int(v))})"
    if float_parses(v):
        raise ValueError(f"string {v!r} parses as a float; not expressible")
    return f"(OStr {cstr(v)})"


def copts(pairs):
    return clist([f"({cstr(k)}, {copt(v)})" for k, v in pairs])


def cpyval(v):
    if isinstance(v, bool):
        return f"(VBool {'true' if v else 'false'})"
    if v is None:
        return "VNone"
    if isinstance(v, (int, float)):
        return f"(VNum {fq(v)})"
    return f"(VStr {cstr(v)})"


def ccalls(calls):
    out = []
    for c in calls:
        if c[0] == "set":
            out.append(f"HSet {cstr(c[1])}")
        else:
            out.append(f"HConst {cstr(c[1])} {cpyval(c[2])}")
    return clist(out)


def cobs(r, K, with_dict=False):
    """K: key string -> index (Coq nat literal) in the per-file key table `ks`"""
    if r["ok"]:
        g = "None" if r["is_global"] is None else f"(Some {'true' if r['is_global'] else 'false'})"
        return (f"(obs_of ks (ObsOkI {cdict_i(r['consts'], K)} {cdict_i(r['tconsts'], K)} {clist([K(f) for f in r['flags']])} "
                f"{g} {cstr(r['desc'])}))")
    k = KIND.get(r["kind"])
    kk = f"(Some {k})" if k else "None"
    d = f"(Some {cdict_i(r['consts'], K)})" if with_dict else "None"
    return f"(obs_of ks (ObsRejI {kk} {d}))"


def rowname(rid):
    return "None" if rid is None else "(Some row_" + "".join(ch if ch.isalnum() else "_" for ch in rid) + ")"


def rowdef(rid, cols):
    nm = "row_" + "".join(ch if ch.isalnum() else "_" for ch in rid)
    return f"Definition {nm} : dict := {cdict(cols)}."


# ------------------------------------------------------------------ case generation
def with_val(base, k, v):
    out = [(a, (v if a == k else b)) for a, b in base]
    if k not in [a for a, _ in base]:
        out.append((k, v))
    return out


def without(base, k):
    return [(a, b) for a, b in base if a != k]


def dyadic(rng, lo, hi):
    return lo + (hi - lo) * rng.randint(0, 64) / 64


def gen_dispatch(ctx, info, all_iso):
    rng = ctx.rng
    acc = info["accepted"]
    fams = list(acc)
    species = info["species_head_columns"]
    rows = list(SPECIAL_ROWS)
    others = [c for c in all_iso if c not in rows]
    rng.shuffle(others)
    rows += others[: (4 if ctx.quick else 18)]
    cases = []

    def add(kind, opts, row, **kw):
        cases.append(dict(kind=kind, opts=[[k, v] for k, v in opts], row=row, **kw))

    # 1. every family x value, on the global base and on country bases
    for fam in fams:
        for v in acc[fam]:
            add("value", with_val(BASE_G, fam, v), None, fam=fam, val=v)
            for rid in rows[: (3 if ctx.quick else len(rows))]:
                add("value", with_val(BASE_C, fam, v), rid, fam=fam, val=v)
            add("value", with_val(BASE_C2, fam, v), rng.choice(rows), fam=fam, val=v)
    # 2. all rows through the country-dependent setters
    for rid in (rows if ctx.quick else all_iso):
        add("row", BASE_C, rid)
        if not ctx.quick:
            add("row", BASE_C2, rid)
    # 3. missing keys
    for base, row in ((BASE_G, None), (BASE_C, "USA")):
        for k, _ in base:
            add("missing", without(base, k), row, fam=k)
        add("missing", [], row, fam="<all>")
    # 4. unknown values
    allvals = sorted({v for f in fams for v in acc[f]})
    for fam in fams:
        bad = [acc[fam][0] + "x", acc[fam][0].upper(), "", None, 3, 2.5, " " + acc[fam][-1], "baseline_climate"]
        bad += [rng.choice([v for v in allvals if v not in acc[fam]])]
        if fam == "ratio_stocks_untouched":
            bad.append("no_stored_food_between_years")  # the README's spelling
        for v in bad:
            add("unknown", with_val(BASE_G, fam, v), None, fam=fam, val=v)
            if ctx.quick and rng.random() < 0.5:
                continue
            add("unknown", with_val(BASE_C, fam, v), rng.choice(rows), fam=fam, val=v)
    for v in ["120", None, "abc", 2.5, -3, 0, 48]:
        add("nmonths", with_val(BASE_G, "NMONTHS", v), None, fam="NMONTHS", val=v)
        add("nmonths", with_val(BASE_C, "NMONTHS", v), "USA", fam="NMONTHS", val=v)
    # 5. numeric overrides
    ovs = [("MINIMUM_PERCENT_FED_BEFORE_NONHUMAN_CONSUMPTION_ALLOWED", 0, 100), ("RATIO_STOCKS_UNTOUCHED", 0, 1),
           ("CROP_PRODUCTION_MULTIPLIER", 0, 10), ("GRASSES_PRODUCTION_MULTIPLIER", 0, 10)]
    for base, row in ((BASE_G, None), (BASE_C, "USA"), (BASE_C2, rng.choice(rows)), (with_val(BASE_C, "crop_disruption", "all_crops_die_instantly"), "IND")):
        for k, lo, hi in ovs:
            for v in [lo, hi, dyadic(rng, lo, hi), hi + 1 / 64, lo - 1 / 64, "abc", None, "7", 0.3]:
                add("override", base + [(k, v)], row, fam=k, val=v)
        for sp in species:
            v = rng.choice([rng.randint(0, 10 ** 9), rng.randint(0, 1 << 20) + rng.randint(0, 63) / 64, -rng.randint(1, 5000) / 64])
            add("override", base + [(sp, v)], row, fam="head", val=v)
        add("override", base + [("chicken_head", "many")], row, fam="head", val="many")
        add("override", base + [("pig_head", None)], row, fam="head", val=None)
        add("override", base + [("pig_head", "250")], row, fam="head", val="250")
        add("override", base + [("x_headroom", 12)], row, fam="head", val=12)       # substring match of "_head"
        add("override", base + [("kg_meat_per_large_animal", dyadic(rng, 100, 400))], row, fam="kg", val=0)
        add("override", base + [("my_kg_meat_per_large_animal_x", 1.5)], row, fam="kg", val=0)
        add("override", base + [("kg_meat_per_large_animal", "heavy")], row, fam="kg", val="heavy")
        # several overrides at once, in both orders
        combo = [(k, dyadic(rng, lo, hi)) for k, lo, hi in ovs] + [(rng.choice(species), rng.randint(1, 10 ** 6)),
                                                                   ("kg_meat_per_large_animal", 211.5)]
        add("override", base + combo, row, fam="combo", val=0)
        add("override", list(reversed(combo)) + base, row, fam="combo", val=0)
    # 6. scenarios the runner is known to patch (alter_scenario_if_known_to_fail), and near misses
    for f in info["failing"]:
        code = f["code"]
        if code not in all_iso:
            continue
        for rep in range(2 if ctx.quick else 6):
            o = list(BASE_C)
            for k, vals in f["conds"]:
                good = [x for x in vals if x in acc.get(k, [])]
                if good:
                    o = with_val(o, k, rng.choice(good))
            add("alter", o, code, fam=code)
            add("alter", o, "USA", fam=code)
            k, vals = rng.choice(f["conds"])
            o2 = with_val(o, k, rng.choice([x for x in acc[k] if x not in vals] or [vals[0]]))
            add("alter", o2, code, fam=code)
    # 7. perturbed country rows
    perts = [("initial_seaweed_fraction", 0.0), ("initial_seaweed_fraction", 1.5), ("new_area_fraction", -0.25),
             ("max_area_fraction", 2.0), ("initial_built_fraction", 1.0), ("percent_of_global_capex", 1.25),
             ("percent_of_global_production", -0.5), ("seasonality_m3", 0.75), ("seasonality_m7", -0.125),
             ("seasonality_m1", 1.5), ("population", 12345678.0), ("distribution_loss_meat", 0.125),
             ("retail_waste_baseline", 0.375), ("crop_reduction_year10", -0.5), ("grasses_reduction_year1", -0.25)]
    n = 0
    for col, v in perts:
        base = rng.choice(rows)
        n += 1
        add("rowpert", BASE_C if n % 2 else BASE_C2, {"base": base, "set": {col: v}, "id": f"{base}_p{n}"})
    for col in ["iso3", "population", "seasonality_m12", "stocks_kcals_dec", "kg_meat_per_pig", "grasses_reduction_year10",
                "crop_reduction_year10", "retail_waste_baseline", "seaweed_growth_per_day_5"]:
        base = rng.choice(rows)
        n += 1
        add("rowpert", BASE_C, {"base": base, "del": [col], "id": f"{base}_d{n}"})
    # global scale with a country row supplied / country scale without
    add("scale", BASE_G, "USA")
    add("scale", BASE_C, None)
    # 8. random valid-looking configurations
    for _ in range(40 if ctx.quick else 1200):
        glob = rng.random() < 0.35
        o = [("scale", "global" if glob else "country"), ("NMONTHS", rng.choice([48, 60, 72, 84, 96, 108, 120]))]
        for fam in fams:
            if fam == "scale":
                continue
            vals = [v for v in acc[fam] if v != "required"]
            if rng.random() < 0.8:
                vals = [v for v in vals if ("globally" in v or "global_" in v) == glob or not any(t in v for t in ("globally", "global_", "country", "in_country"))] or vals
            o.append((fam, rng.choice(vals)))
        rng.shuffle(o)
        if rng.random() < 0.3:
            k, lo, hi = rng.choice(ovs)
            o.append((k, dyadic(rng, lo, hi)))
        if rng.random() < 0.3:
            o.append((rng.choice(species), rng.randint(0, 10 ** 8)))
        add("random", o, None if glob else rng.choice(all_iso if not ctx.quick else rows))
    return cases


def gen_history(ctx, info):
    rng = ctx.rng
    S = info["setters"]
    names = list(S)
    fam_of = {n: (S[n]["guards"][0] if S[n]["guards"] else None) for n in names}
    cases = []

    def prefix(a, b):
        need_g = [S[x]["needs_global"] for x in (a, b)]
        if True in need_g:
            glob = True
        elif False in need_g or S[a]["uses_row"] or S[b]["uses_row"]:
            glob = False
        else:
            glob = rng.random() < 0.5
        row = None if glob else rng.choice(SPECIAL_ROWS)
        calls = [["set", "init_global_food_system_properties"]] if glob else [["set", "init_country_food_system_properties"]]
        calls += [["const", "NMONTHS", rng.choice([48, 120])], ["const", "STORE_FOOD_BETWEEN_YEARS", True]]
        return calls, row

    # every ordered pair of setters of the same family
    for a in names:
        for b in names:
            same = fam_of[a] == fam_of[b]
            if not same and (ctx.quick or a.startswith("init_") or b.startswith("init_")):
                continue
            if a.startswith("init_") or b.startswith("init_"):
                for row in (None, "USA"):
                    cases.append({"kind": "pair", "calls": [["set", a], ["set", b]], "row": row, "a": a, "b": b, "same": same})
                continue
            calls, row = prefix(a, b)
            cases.append({"kind": "pair" if same else "cross", "calls": calls + [["set", a], ["set", b]], "row": row, "a": a, "b": b,
                          "same": same})
    # a sample of cross-family pairs in the quick tier
    if ctx.quick:
        for _ in range(60):
            a, b = rng.choice(names), rng.choice(names)
            if a.startswith("init_") or b.startswith("init_") or fam_of[a] == fam_of[b]:
                continue
            calls, row = prefix(a, b)
            cases.append({"kind": "cross", "calls": calls + [["set", a], ["set", b]], "row": row, "a": a, "b": b, "same": False})
    # every setter on a fresh loader with an empty dictionary
    for a in names:
        cases.append({"kind": "fresh", "calls": [["set", a]], "row": rng.choice([None, "USA"]), "a": a, "b": None, "same": False})
    # random histories
    for _ in range(40 if ctx.quick else 800):
        glob = rng.random() < 0.5
        calls = [["set", "init_global_food_system_properties" if glob else "init_country_food_system_properties"],
                 ["const", "NMONTHS", 96]]
        for _ in range(rng.randint(2, 9)):
            calls.append(["set", rng.choice(names)])
        cases.append({"kind": "random", "calls": calls, "row": None if glob else rng.choice(SPECIAL_ROWS), "a": None, "b": None, "same": False})
    return cases


def gen_head(ctx, info, all_iso):
    rng = ctx.rng
    items = []
    codes = ["USA", "SWT", "SWZ", "WOR"] + [rng.choice(all_iso) for _ in range(2 if ctx.quick else 10)]
    for sp in info["species_head_columns"]:
        for code in (codes if not ctx.quick else codes[:2] + [rng.choice(codes[2:])]):
            items.append({"key": sp + "_start", "code": code})
    for key in ["chicken_head", "pig_head_start_extra", "start_head_start", "t_head_start", "chicken_HEAD_start", "_head_start"]:
        items.append({"key": key, "code": "USA"})
    return items


# ------------------------------------------------------------------ evaluation in Coq
def eval_cases(ctx, name, terms_by_row, rowdefs):
    """terms_by_row: list of (row id or None, term, meta).  Returns list of (code, meta) in the same order."""
    order = sorted(range(len(terms_by_row)), key=lambda i: (terms_by_row[i][0] or ""))
    chunks, cur, cur_rows = [], [], set()
    for i in order:
        rid = terms_by_row[i][0]
        if len(cur) >= 90 and rid not in cur_rows:
            chunks.append((cur, cur_rows))
            cur, cur_rows = [], set()
        cur.append(i)
        if rid is not None:
            cur_rows.add(rid)
    if cur:
        chunks.append((cur, cur_rows))

    def one(args):
        ci, (idxs, rids) = args
        K = Interner()
        built = [terms_by_row[i][1](K) if callable(terms_by_row[i][1]) else terms_by_row[i][1] for i in idxs]
        defs = "\n".join(rowdef(r, rowdefs[r]) for r in sorted(rids))
        defs += "\n" + K.defs()
        codes = ctx.coq_codes(f"{name}_{ci}", IMPORTS, built, per_file=10 ** 6, defs=defs, timeout=1500)
        return list(zip(idxs, codes))
    out = [None] * len(terms_by_row)
    with ThreadPoolExecutor(max_workers=16) as ex:
        for pairs in ex.map(one, enumerate(chunks)):
            for i, c in pairs:
                out[i] = c
    return out


def run(ctx):
    ctx.level = "proof"
    ctx.notes["explanation"] = ("proved over the regenerated tables for all inputs: exactly-once (pairs and histories), check_all_set "
                                "after every accepted dispatch, rejection of missing keys and unknown values, acceptance of every "
                                "dispatched literal on a witness configuration, documented literal tables, head-count key derivation. "
                                "The override frame is proved for every accepted dictionary and row from lookup/update lemmas over the "
                                "generated override blocks (each <species>_head, kg_meat_per_large_animal, the two bounded "
                                "constants, both multipliers incl. out-of-range rejection; multiplier theorems assume years 1..10 "
                                "are numbers, shown satisfiable), and single-constant overrides commute; "
                                "the head-count override reaches the row "
                                "create_animal_objects reads for every country code (c13_head_reach, re-proved from the statement "
                                "order in animal_populations.main; the audit re-tests every species x code); caller-dictionary immutability is "
                                "checked on the implementation only (the model is functional).")
    ctx.rule = ("case = (option dictionary, country row or none) for the dispatch, or (sequence of direct setter calls, row) for "
                "histories, or (constants key, country code) for the head-count override; families x values, same-family ordered "
                "pairs, required keys and species are enumerated exhaustively, rows / numeric values / random configurations are drawn "
                "from the seed; non-trivial = the call sequence was accepted and produced a dictionary, or was rejected for the reason "
                "the case was built to provoke; distinct = hash of the canonical case")
    ctx.trusted += ["translator harness/gen_setters.py (AST shapes of Scenarios methods, set_depending_on_option, "
                    "alter_scenario_if_known_to_fail, the head-count block of animal_populations.main)",
                    "modelled, not verified: Python dict semantics (flattened to dotted keys), float()/int() of option values "
                    "(numbers, digit strings, non-numeric strings, None only), pandas row lookup, numpy linspace (exact rational interpolation)"]
    ctx.assumptions += ["option values are strings, numbers or None; NMONTHS, when a number, is an integer",
                        "theorems hold for the code read as exact rational arithmetic"]
    ok = ctx.regen(["gen_setters"])
    info = ctx.notes.get("translators", {}).get("gen_setters") if ok else None
    if info is not None:
        # keep the evidence small
        ctx.notes["translators"]["gen_setters"] = {"setters": len(info["setters"]), "families": {k: len(v) for k, v in info["accepted"].items()},
                                                   "required": info["required"], "check_flags": info["check_flags"],
                                                   "unguarded_public_helpers": info["helpers"], "head": info["head"],
                                                   "species": len(info["species_head_columns"]), "countries": len(info["iso3"])}
    ctx.check_props()
    audit(ctx, info)
    if info is None:
        return
    bok, bad, out = ctx.build(["Model/Options.vo"])
    if not bok:
        ctx.tie_ok = False
        ctx.broken.append(f"model does not compile against the regenerated tables: {bad}")
        return
    correspondence(ctx, info)


def correspondence(ctx, info):
    all_iso = info["iso3"]
    dcases = gen_dispatch(ctx, info, all_iso)
    hcases = gen_history(ctx, info)
    heads = gen_head(ctx, info, all_iso)
    # alter_scenario_if_known_to_fail: full product of the families its criteria mention, for every country of its table
    # plus countries that are not in it
    alter_fams = ["scenario", "shutoff", "meat_strategy", "cull", "ratio_stocks_untouched", "crop_disruption"]
    alter_fams += sorted({k for f in info["failing"] for k, _ in f["conds"]} - set(alter_fams))
    alter_fams = [f for f in alter_fams if f in info["accepted"]]
    table_c = sorted({f["code"] for f in info["failing"]})
    extra_c = [c for c in ["USA", "IND"] + ([] if ctx.quick else ctx.rng.sample(all_iso, 12)) if c not in table_c]
    alter_spec = {"fams": [[f, info["accepted"][f]] for f in alter_fams],
                  "rest": [[k, v] for k, v in BASE_C if k not in alter_fams], "countries": table_c + ["WOR"] + extra_c}
    res = ctx.run_impl("c13_impl", {"dispatch": [{"opts": c["opts"], "row": c["row"]} for c in dcases],
                                    "history": [{"calls": c["calls"], "row": c["row"]} for c in hcases], "head": heads,
                                    "alter": alter_spec})
    rows = res["rows"]
    terms = []
    dist = {}
    for c, r in zip(dcases, res["dispatch"]):
        try:
            head = f"check_dispatch {TOL} {copts(c['opts'])} {rowname(r['row'])} "
        except ValueError as e:
            ctx.log("skipped inexpressible case:", e)
            continue
        terms.append((r["row"], (lambda K, head=head, r=r: head + cobs(r, K)), ("dispatch", c, r)))
        key = c["kind"] + ("/accepted" if r["ok"] else "/" + r["kind"])
        dist[key] = dist.get(key, 0) + 1
        ctx.count(("d", c["opts"], c["row"] if isinstance(c["row"], (str, type(None))) else c["row"]["id"]),
                  nontrivial=r["ok"] or c["kind"] in ("missing", "unknown", "nmonths", "override", "rowpert", "scale", "value"))
        if not r["caller_unmodified"]:
            ctx.violation("C13:caller-dict-modified@run_scenario.set_depending_on_option",
                          "set_depending_on_option modified the caller's option dictionary",
                          {"kind": "counterexample", "stream": "dispatch", "case": c})
        if r["ok"] and not r["all_set"]:
            ctx.violation("C13:accepted-but-not-all-set@run_scenario.set_depending_on_option",
                          "dispatch accepted the options but check_all_set fails afterwards",
                          {"kind": "counterexample", "stream": "dispatch", "case": c})
    for c, r in zip(hcases, res["history"]):
        with_dict = (not r["ok"] and c["same"] and r["kind"] == "AssertRejected" and r["fail_index"] == len(c["calls"]) - 1
                     and not c["b"].startswith("init_"))
        head = f"check_history {TOL} {ccalls(c['calls'])} {rowname(r['row'])} "
        terms.append((r["row"], (lambda K, head=head, r=r, wd=with_dict: head + cobs(r, K, wd)), ("history", c, r)))
        key = "hist:" + c["kind"] + ("/accepted" if r["ok"] else "/" + r["kind"])
        dist[key] = dist.get(key, 0) + 1
        ctx.count(("h", c["calls"], c["row"]), nontrivial=r["ok"] or c["same"])
    for h, r in zip(heads, res["head"]):
        if "err" in r:
            obs = None
            ctx.log("head probe error:", r)
        cols = r.get("columns_changed", [])
        obs = f"(Some {cstr(cols[0])})" if len(cols) == 1 else "(@None string)"
        reach = f"(String.eqb (head_write_label {cstr(h['code'])}) (head_read_label {cstr(h['code'])}))"
        terms.append((None, f"(if {reach} then check_head {cstr(h['key'])} {obs} else match {obs} with None => 0%nat | Some _ => 3%nat end)",
                      ("head", h, r)))
        ctx.count(("head", h["key"], h["code"]), nontrivial=len(cols) == 1)
    # alter: one Coq term per country, the whole product enumerated inside Coq
    al = res["alter"]
    fams_t = clist([f"({cstr(f)}, {clist([cstr(v) for v in vs])})" for f, vs in alter_spec["fams"]])
    rest_t = copts(alter_spec["rest"])
    table_t = clist([cstr(t) for t in al["table"]])
    ncomb = 1
    for _, vs in alter_spec["fams"]:
        ncomb *= len(vs)
    for iso in alter_spec["countries"]:
        exp = "[" + "; ".join(str(x) for x in al["outcomes"][iso]) + "]%nat"
        terms.append((None, f"check_alter {fams_t} {rest_t} {cstr(iso)} {table_t} {exp}", ("alter", {"iso3": iso, "families": alter_fams}, {})))
        ctx.count(("alter", iso), nontrivial=any(al["outcomes"][iso]), n=ncomb)
    codes = eval_cases(ctx, "c13", terms, rows)
    nbad = 0
    for code, (_, _, (stream, c, r)) in zip(codes, terms):
        if code != 0 and stream == "alter":
            # decode the first disagreeing combination
            import itertools
            combos = list(itertools.product(*[vs for _, vs in alter_spec["fams"]]))
            combo = dict(zip(alter_fams, combos[code - 1])) if 0 < code <= len(combos) else {}
            impl_out = al["table"][al["outcomes"][c["iso3"]][code - 1]] if combo else "?"
            nbad += 1
            ctx.tie_ok = False
            ctx.broken.append("correspondence alter_scenario_if_known_to_fail")
            ctx.violation("C13:tie:alter", f"model and implementation disagree on alter_scenario_if_known_to_fail for {c['iso3']} with {combo}: "
                          f"implementation returns '{impl_out}'", {"kind": "tie-broken", "stream": "alter", "iso3": c["iso3"], "combination": combo,
                                                                  "implementation": impl_out})
            continue
        if code != 0:
            nbad += 1
            if nbad <= 4:
                what = (HEAD_CODES if stream == "head" else CODES).get(code, str(code))
                ctx.tie_ok = False
                ctx.broken.append(f"correspondence {stream}: {what}")
                small = {k: v for k, v in r.items() if k not in ("consts", "tconsts")}
                ctx.violation(f"C13:tie:{stream}:{what}", f"model and implementation disagree ({what}) on {json.dumps(c)[:300]}",
                              {"kind": "tie-broken", "stream": stream, "case": c, "observed": small})
    ctx.notes["correspondence"] = {"dispatch_cases": len(dcases), "history_cases": len(hcases), "head_cases": len(heads),
                                   "alter_countries": alter_spec["countries"], "alter_combinations_per_country": ncomb,
                                   "alter_outcomes": al["table"],
                                   "disagreements": nbad, "distribution": dict(sorted(dist.items()))}
    acc = [t for t in terms if t[2][0] == "dispatch" and t[2][2]["ok"]]
    if acc:
        c, r = acc[0][2][1], acc[0][2][2]
        ctx.sample({"options": c["opts"], "row": c["row"], "accepted": True, "n_constants": len(r["consts"]), "flags": r["flags"]})
    rej = [t for t in terms if t[2][0] == "dispatch" and not t[2][2]["ok"]]
    if rej:
        c, r = rej[0][2][1], rej[0][2][2]
        ctx.sample({"options": c["opts"], "row": c["row"], "rejected": r["kind"], "message": r.get("msg")})
    hp = [t for t in terms if t[2][0] == "history" and t[2][1]["same"]]
    if hp:
        c, r = hp[0][2][1], hp[0][2][2]
        ctx.sample({"calls": c["calls"], "row": c["row"], "result": r.get("kind", "accepted"), "fail_index": r.get("fail_index")})
    ctx.traces += len(terms)


# ------------------------------------------------------------------ direct audit
def audit(ctx, info):
    rng = ctx.rng
    payload = {"tier": ctx.tier, "seed": rng.randint(0, 1 << 30), "bases": {"G": BASE_G, "C": BASE_C, "C2": BASE_C2},
               "special_rows": SPECIAL_ROWS, "recorded_rewrites": load_recorded_rewrites()}
    res = ctx.run_impl("c13_audit", payload)
    if os.environ.get("C13_RECORD_REWRITES") == "1" and res.get("found_rewrites") is not None and ctx.tier == "thorough":
        # generated ONCE from the unchanged tree (thorough tier = every country); committed; never written otherwise
        os.makedirs(os.path.dirname(REWRITES), exist_ok=True)
        json.dump({"_comment": "option combinations for which alter_scenario_if_known_to_fail replaces an option (the maintainers' "
                               "documented exceptions), recorded from the unchanged tree; any other rewriting combination is reported",
                   "rewrites": res["found_rewrites"]}, open(REWRITES, "w"), indent=0)
    ctx.notes["audit"] = res["counts"]
    ctx.notes["observations"] = res["observations"]
    ctx.count(n=sum(res["counts"].values()))
    for i in range(res["distinct"]):
        ctx.nontrivial.add(f"audit{i}")
    seen = set()
    for f in res["failures"]:
        if f["key"] in seen:
            continue
        seen.add(f["key"])
        ctx.violation(f["key"], f["what"], {"kind": "counterexample", **f})
    if res["failures"]:
        ctx.log("audit failures:", len(res["failures"]), sorted(seen))


REWRITES = "/verif/corpus/C13/known_rewrites.json"


def load_recorded_rewrites():
    try:
        return json.load(open(REWRITES))["rewrites"]
    except (OSError, ValueError, KeyError):
        return None


def replay(rep):
    import lib
    ctx = lib.Ctx("C13", "quick", rep.get("seed", 0))
    res = ctx.run_impl("c13_audit", {"replay": rep, "bases": {"G": BASE_G, "C": BASE_C, "C2": BASE_C2}, "special_rows": SPECIAL_ROWS,
                                     "recorded_rewrites": load_recorded_rewrites()})
    print(json.dumps({k: res[k] for k in ("failures", "replayed")}, indent=1)[:4000])
    return 1 if res["failures"] else 0
