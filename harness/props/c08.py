"""C08 - supply series follow the calendar, disruption schedule and delays.
proof: Props/C08.v over Model/Series.v; tie: every food_system supply class called directly on generated constants
dictionaries + Parameters.compute_parameters_first_round on real country rows, compared with the model inside Coq;
audit: the clauses of the property (length, finite, non-negative, closed forms with exact fractions, monotone capped
ramps, homogeneity) evaluated on the implementation alone (harness/impl/c08_audit.py).
Known finding candidate: methane SCP start-up delay applied twice (pinned by tests/test_methane_scp.py)."""
import csv
import json
import os
import lib
from lib import fq, fql, cbool, cnat
from props import c09

TOL = c09.TOL
IMPORTS = c09.IMPORTS
SCP_KEY = "C08:scp-delay-applied-twice@methane_scp.calculate_monthly_scp_caloric_production"
MONTHS = ["JAN", "FEB", "MAR", "APR", "MAY", "JUN", "JUL", "AUG", "SEP", "OCT", "NOV", "DEC"]

COUNTRY_OPTS = {
    "seasonality": ["country", "no_seasonality"],
    "grasses": ["baseline", "country_nuclear_winter", "all_crops_die_instantly"],
    "crop_disruption": ["zero", "country_nuclear_winter", "all_crops_die_instantly"],
    "scenario": ["all_resilient_foods", "all_resilient_foods_and_more_area", "no_resilient_foods", "seaweed", "methane_scp",
                 "cellulosic_sugar", "relocated_crops", "greenhouse", "industrial_foods"],
    "fish": ["zero", "nuclear_winter", "baseline"],
    "waste": ["zero", "tripled_prices_in_country", "doubled_prices_in_country", "baseline_in_country"],
    "nutrition": ["baseline", "catastrophe"],
    "stored_food": ["zero", "baseline"],
    "ratio_stocks_untouched": ["zero", "no_stored_between_years", "baseline", "baseline_no_stored_between_years"],
    "shutoff": ["immediate", "one_month_delayed_shutoff", "short_delayed_shutoff", "long_delayed_shutoff", "continued",
                "continued_after_10_percent_fed", "long_delayed_shutoff_after_10_percent_fed"],
    "cull": ["do_eat_culled", "dont_eat_culled"],
    "meat_strategy": ["reduce_breeding", "baseline_breeding", "feed_only_ruminants"],
}
GLOBAL_OVERRIDES = {
    "seasonality": ["baseline_globally", "nuclear_winter_globally", "no_seasonality"],
    "grasses": ["baseline", "global_nuclear_winter"],
    "crop_disruption": ["zero", "global_nuclear_winter"],
    "waste": ["zero", "tripled_prices_globally", "doubled_prices_globally", "baseline_globally"],
}


# ------------------------------------------------------------------ generators

def dy(rng, lo, hi, den=64):
    return rng.randint(int(lo * den), int(hi * den)) / den


def mag(rng, lo, hi, pzero=0.05):
    return 0.0 if rng.random() < pzero else 10 ** rng.uniform(lo, hi)


def gen_synthetic(rng):
    N = rng.choice([24, 36, 48, 60, 72, 84, 96, 108, 120]) if rng.random() < 0.92 else rng.choice([30, 50, 100])
    small = lambda: rng.choice([0, 1, 2, 3, 6, 12, rng.randint(0, N)])
    c = {
        "NMONTHS": N, "POP": float(rng.choice([1e4, 2.1e6, 4.5e7, 3.3e8, 1.4e9])), "GLOBAL_POP": 7.723713182e9,
        "ADD_FISH": rng.random() < 0.9, "FISH_DRY_CALORIC_ANNUAL": mag(rng, -2, 8), "FISH_FAT_TONS_ANNUAL": mag(rng, 0, 6),
        "FISH_PROTEIN_TONS_ANNUAL": mag(rng, 0, 6),
        "WASTE_DISTRIBUTION": {k: rng.choice([0.0, dy(rng, 0, 99), rng.uniform(0, 50)])
                               for k in ("SEAFOOD", "SUGAR", "CROPS", "MEAT", "MILK", "SEAWEED")},
        "WASTE_RETAIL": rng.choice([0.0, dy(rng, 0, 60)]),
        "FEED_KCALS": mag(rng, -1, 8), "FEED_FAT": mag(rng, 0, 6), "FEED_PROTEIN": mag(rng, 0, 6),
        "BIOFUEL_KCALS": mag(rng, -1, 8), "BIOFUEL_FAT": mag(rng, 0, 6), "BIOFUEL_PROTEIN": mag(rng, 0, 6),
        "DELAY": {"FEED_SHUTOFF_MONTHS": rng.choice([0, 1, 2, 3, 12, N, rng.randint(0, N)]),
                  "BIOFUEL_SHUTOFF_MONTHS": rng.choice([0, 1, 2, 6, N, rng.randint(0, N)]),
                  "INDUSTRIAL_FOODS_MONTHS": small(), "SEAWEED_MONTHS": small()},
        "HUMAN_INEDIBLE_FEED_BASELINE_MONTHLY": mag(rng, -3, 3),
        "ADD_MILK": True, "ADD_MEAT": True, "TONS_MILK_ANNUAL": 1e6, "TONS_CHICKEN_AND_PORK_ANNUAL": 1e5, "TONS_BEEF_ANNUAL": 1e5,
        "INITIAL_MILK_CATTLE": 1e5, "INIT_SMALL_ANIMALS": 1e6, "INIT_MEDIUM_ANIMALS": 1e5,
        "INIT_LARGE_ANIMALS_WITH_MILK_COWS": 3e5,
        "INDUSTRIAL_FOODS_SLOPE_MULTIPLIER": rng.choice([1, 1, dy(rng, 0, 3), 0]),
        "ADD_METHANE_SCP": rng.random() < 0.85, "SCP_GLOBAL_PRODUCTION_FRACTION": dy(rng, 0, 1, 1024),
        "ADD_CELLULOSIC_SUGAR": rng.random() < 0.85, "CS_GLOBAL_PRODUCTION_FRACTION": dy(rng, 0, 1, 1024),
        "ADD_SEAWEED": rng.random() < 0.8, "SEAWEED_MAX_AREA_FRACTION": rng.choice([dy(rng, 0, 1, 1024), 10 ** rng.uniform(-5, 0), 0.0]),
        "SEAWEED_NEW_AREA_FRACTION": rng.choice([dy(rng, 0, 1, 1024), 10 ** rng.uniform(-4, 0)]),
        "INITIAL_SEAWEED_FRACTION": dy(rng, 0, 1, 1024), "MAX_SEAWEED_AS_PERCENT_KCALS_HUMANS": 10,
        "MAX_SEAWEED_AS_PERCENT_KCALS_FEED": 10, "MAX_SEAWEED_AS_PERCENT_KCALS_BIOFUEL": 10,
        "SEAWEED_GROWTH_PER_DAY": {str(k): rng.choice([dy(rng, 0, 15), rng.uniform(0, 12)]) for k in range(1, N + 1)},
        "ADD_STORED_FOOD": True,
        "END_OF_MONTH_STOCKS": {m: mag(rng, -1, 7, 0.02) for m in MONTHS},
    }
    for y in range(1, 11):
        c["RATIO_GRASSES_YEAR%d" % y] = rng.choice([1.0, 0.0, dy(rng, 0, 2)])
    pct = rng.choice([100.0, dy(rng, 0, 100)])
    c["PERCENT_STORED_FOOD_TO_USE"] = pct
    # strictly below pct/100 (or equal only at pct = 100, where 100/100 is exact): the code asserts pct/100 >= ratio
    c["RATIO_STOCKS_UNTOUCHED"] = rng.choice([0.0, (1.0 if pct == 100.0 else min(63 / 64, dy(rng, 0, 1))) * pct / 100])
    r = rng.random()
    if r < 0.3:
        fish = [100.0] * N
    elif r < 0.4:
        fish = [0.0] * N
    else:
        fish = [dy(rng, 0, 100) for _ in range(rng.choice([N, N + 12, 192]))]
    return {"kind": "synthetic", "consts": c, "time_consts": {"FISH_PERCENT_MONTHLY": fish},
            "nutrition": {"KCALS_DAILY": rng.choice([2100, 2100, 1800, 2500]), "FAT_DAILY": 47, "PROTEIN_DAILY": 51},
            "start": rng.choice([5, 5, rng.randint(1, 12)])}


def countries():
    with open(os.path.join(lib.REPO, "data", "no_food_trade", "computer_readable_combined.csv")) as f:
        return [row["iso3"] for row in csv.DictReader(f)]


TINY_AREA = ["DJI", "BHR", "BRB", "BRN", "MLT", "KWT"]     # crop area fraction below 1e-5
GREENHOUSE_SCENARIOS = ["all_resilient_foods", "all_resilient_foods_and_more_area", "greenhouse"]


def gen_real(rng, iso3, overrides=False, greenhouse=False):
    opt = {k: rng.choice(v) for k, v in COUNTRY_OPTS.items()}
    opt["scale"] = "country"
    if iso3 == "WOR":
        opt["scale"] = "global"
        for k, v in GLOBAL_OVERRIDES.items():
            opt[k] = rng.choice(v)
    if iso3 in c09.SPECIAL:      # the four countries with a fixed harvest-before-May share: keep crops switched on
        opt["crop_disruption"] = rng.choice(["zero", "country_nuclear_winter"])
    opt.update({"intake_constraints": "enabled", "fat": "not_required", "protein": "not_required",
                "NMONTHS": rng.choice([48, 60, 72, 84, 96, 108, 120, 120, 120])})
    if greenhouse:        # greenhouses on, crops on
        opt["scenario"] = rng.choice(GREENHOUSE_SCENARIOS)
        if opt["crop_disruption"] == "all_crops_die_instantly":
            opt["crop_disruption"] = "country_nuclear_winter" if iso3 != "WOR" else "global_nuclear_winter"
    if overrides or rng.random() < 0.15:
        # numeric overrides of the option layer (applied by set_depending_on_option to all ten yearly ratios)
        opt["CROP_PRODUCTION_MULTIPLIER"] = rng.choice([0.5, 0.9, 1.3])
        opt["GRASSES_PRODUCTION_MULTIPLIER"] = rng.choice([0.5, 1.3, 2.0])
    if overrides:         # the last year block (months 104-119) must be simulated, with crops and grass alive
        opt["NMONTHS"] = 120
        if iso3 != "WOR":
            opt["crop_disruption"] = rng.choice(["zero", "country_nuclear_winter"])
            opt["grasses"] = rng.choice(["baseline", "country_nuclear_winter"])
            opt["seasonality"] = "country"
    return {"kind": "real", "iso3": iso3, "options": opt}


# ------------------------------------------------------------------ Coq terms

def series_terms(i, o):
    """list of (name, Coq term : nat) for one result"""
    N = cnat(i["N"])
    t = []
    if "fish" in o:
        f = i["fish"]
        t.append(("fish", f"series_code {TOL} (fish_series {cbool(f['add'])} {N} {fq(f['annual'])} {fq(f['wd'])} {fq(f['wr'])} "
                          f"{fql(f['pct'])}) {fql(o['fish'])}"))
        for nu in ("fat", "protein"):
            if "fish_" + nu in o:
                t.append(("fish_" + nu, f"series_code {TOL} (fish_nutrient_series {cbool(f['add'])} {N} {fq(f[nu + '_annual'])} "
                                        f"{fq(f['wd'])} {fq(f['wr'])} {fql(f['pct'])}) {fql(o['fish_' + nu])}"))
    for nm in ("feed", "biofuel"):
        if nm in o:
            d = i[nm]
            t.append((nm, f"series_code {TOL} (demand_series {N} {cnat(d['dur'])} {fq(d['per_year'])}) {fql(o[nm])}"))
            for nu in ("fat", "protein"):
                if f"{nm}_{nu}" in o:
                    t.append((f"{nm}_{nu}", f"series_code {TOL} (demand_nutrient_series {N} {cnat(d['dur'])} {fq(d[nu])}) "
                                            f"{fql(o[nm + '_' + nu])}"))
    # SCP / CS fat and protein: the model maps the OBSERVED kcal series (already tied above) through the conversion
    for nu, conv in (("fat", "scp_fat_conversion"), ("protein", "scp_protein_conversion")):
        if "scp_" + nu in o and "scp" in o:
            t.append(("scp_" + nu, f"series_code {TOL} (scp_nutrient {conv} {fql(o['scp'])}) {fql(o['scp_' + nu])}"))
        if "cs_" + nu in o and "cs" in o:
            t.append(("cs_" + nu, f"series_code {TOL} (cs_nutrient {fql(o['cs'])}) {fql(o['cs_' + nu])}"))
    if "grass" in o:
        g = i["grass"]
        t.append(("grass", f"series_code {TOL} (grass_series {N} {fq(g['baseline'])} {fql(g['ratios'])}) {fql(o['grass'])}"))
    for nm, fn in (("scp", "scp_series"), ("scp_spec", "scp_series_spec"), ("cs", "cs_series")):
        key = "scp" if nm == "scp_spec" else nm
        if key in o:
            s = i[key]
            t.append((nm, f"series_code {TOL} ({fn} {cbool(s['add'])} {N} {cnat(s['delay'])} {fq(s['slope'])} "
                          f"(global_monthly_needs {fq(s['global_pop'])} {fq(s['kcals_monthly'])}) {fq(s['fraction'])} {fq(s['wd'])}) "
                          f"{fql(o[key])}"))
    if "built_area" in o:
        w = i["seaweed"]
        t.append(("built_area", f"series_code {TOL} (seaweed_built_area {cbool(w['add'])} {N} {cnat(w['delay'])} {fq(w['new_frac'])} "
                                f"{fq(w['max_frac'])}) {fql(o['built_area'])}"))
    if "growth" in o:
        # exact 30th powers of 53-bit floats are ~1600-bit rationals: compare a spread of ten months (the map is pointwise)
        daily, obs = i["seaweed"]["daily"], o["growth"]
        n = min(i["N"], len(daily))     # proved length of the model series (seaweed_growth_length)
        idx = sorted(set([0, 1, n - 1] + [(k * 37 + 5) % n for k in range(7)])) if n and len(obs) == n else []
        t.append(("growth", f"if Nat.eqb {cnat(len(obs))} (Nat.min {N} {cnat(len(daily))}) then series_code {TOL} "
                            f"(map growth_factor {fql([daily[k] for k in idx])}) {fql([obs[k] for k in idx])} else 2%nat"))
    if "stored" in o:
        s = i["stored"]
        if s["add"]:
            args = f"{fql(s['stocks'])} {cnat(i['start'])} {fq(s['ratio'])} {fq(s['pct'])}"
            t.append(("stored", f"if stored_ok {args} then scalar_code {TOL} (stored_initial {args} {fq(s['wd'])}) {fq(o['stored'][0])} "
                                f"else 3%nat"))
    return t


# ------------------------------------------------------------------ run

def run(ctx):
    ctx.level = "proof"
    ctx.rule = ("case = one constants dictionary (synthetic: every supply class called directly; real: a country row x "
                "scenario options through Parameters.compute_parameters_first_round) and one series of it; non-trivial = "
                "the series has a non-zero month; distinct = hash of (series name, extracted inputs)")
    ctx.trusted += ["hand model coq/Model/Series.v tied by correspondence only (no translator)",
                    "harness/impl/c08_impl.py extract_inputs (plain dictionary reads) and the capture of MeatAndDairy / "
                    "Greenhouses instances created inside compute_parameters_first_round",
                    "x ** e of crop relocation is a Section variable with order hypotheses (see C09)",
                    "numpy elementwise arithmetic, np.linspace, np.append, list repetition are modelled, not verified",
                    "kcals only: fat and protein series are scalar multiples of the kcal series and are not compared"]
    ctx.assumptions += ["supported horizon: NMONTHS a multiple of 12 with 24 <= NMONTHS <= 120 (grass blocks), >= 42 with "
                        "greenhouses; shut-off durations <= NMONTHS; fish table at least NMONTHS long",
                        "non-negative baselines, ratios, seasonality; wastes in [0,100]; stored-food asserts hold"]
    ctx.notes["explanation"] = (
        "All clauses are proved of the model and tied to the code, except 'shifted by the configured start-up delay' for "
        "methane SCP: the code prepends the delay list twice (pinned by tests/test_methane_scp.py); the theorem that is "
        "proved says 2 x delay (c08_scp_two_delays), the property's reading is refuted (c08_scp_delay_refuted) and the "
        "audit reports it under key " + SCP_KEY + ". The correspondence accepts either reading of the SCP delay, so a "
        "repair of that defect does not break the tie.")
    ctx.check_props()
    bok, bad, out = ctx.build(["Model/SeriesCheck.vo"])
    if not bok:
        ctx.tie_ok = False
        ctx.broken.append(f"Model/SeriesCheck does not compile: {bad}")
        cases = []
    else:
        cases = correspondence(ctx)
    audit(ctx)


def make_cases(ctx):
    rng = ctx.rng
    nsyn, nreal = (60, 10) if ctx.quick else (1500, 500)
    cases = [gen_synthetic(rng) for _ in range(nsyn)]
    isos = countries()
    pool = ["WOR", "ARG", "USA", "LSO", "ZAF", "JPN", "PRK", "KOR", "IND", "SLV"]
    if ctx.quick:
        chosen = ["WOR", "ZAF", "JPN", "PRK", "KOR"] + rng.sample(pool[1:] + isos, nreal - 5)
    else:
        chosen = (isos + ["WOR"] * 6) * 3
        chosen = chosen[:nreal]
    cases += [gen_real(rng, iso) for iso in chosen]
    # very small crop areas with greenhouses on (the greenhouse series must not vanish), and rows with overrides
    tiny = rng.sample(TINY_AREA, 2) if ctx.quick else TINY_AREA * 3
    cases += [gen_real(rng, iso, greenhouse=True) for iso in tiny]
    cases += [gen_real(rng, iso, overrides=True) for iso in (["ARG"] if ctx.quick else rng.sample(isos, 40))]
    # greenhouses WITHOUT relocation (scenario 'greenhouse'), crops alive
    for iso in (["ARG"] if ctx.quick else ["ARG", "USA"] + rng.sample(isos, 20)):
        c = gen_real(rng, iso, greenhouse=True)
        c["options"]["scenario"] = "greenhouse"
        cases.append(c)
    return cases


def correspondence(ctx):
    cases = make_cases(ctx)
    res = ctx.run_impl("c08_impl", {"cases": cases})["results"]
    terms, meta = [], []
    dist = {"synthetic": 0, "real": 0, "real_rejected": 0, "series": {}}
    scp_codes = {}
    for ci, (case, r) in enumerate(zip(cases, res)):
        dist[case["kind"]] += 1
        if r["inputs"] is None:
            dist["real_rejected"] += 1
            ctx.tie_ok = False
            ctx.broken.append(f"real run rejected: {case.get('iso3')} {r['errs']}")
            ctx.violation("C08:real-run-rejected", f"{case.get('iso3')} {case['options']}: {r['errs']}",
                          {"kind": "counterexample", "runner": "c08_impl", "case": case, "errs": r["errs"]})
            continue
        for nm, err in r["errs"].items():
            ctx.tie_ok = False
            ctx.broken.append(f"{nm}: implementation rejected generated constants: {err}")
            ctx.violation("C08:tie:rejected-" + nm, f"{nm} raised {err} on admissible generated constants",
                          {"kind": "tie-broken", "runner": "c08_impl", "case": case, "series": nm})
        for nm, term in series_terms(r["inputs"], r["obs"]):
            terms.append(term)
            meta.append((ci, nm))
            key = "scp" if nm == "scp_spec" else nm
            if nm != "scp_spec":
                dist["series"][nm] = dist["series"].get(nm, 0) + 1
                src = r["inputs"].get(key.split("_")[0] if key.split("_")[-1] in ("fat", "protein") else key, r["inputs"]["seaweed"])
                ctx.count((nm, json.dumps(src, sort_keys=True), r["inputs"]["N"]), nontrivial=any(v != 0 for v in r["obs"][key]))
        if r.get("crops"):
            terms.append(c09.crop_term(r["crops"]))
            meta.append((ci, "crops"))
            dist["series"]["crops"] = dist["series"].get("crops", 0) + 1
            ctx.count(("crops", c09.case_key(r["crops"]["inputs"])), nontrivial=c09.nontrivial(r["crops"]))
    codes = ctx.coq_codes("c08", IMPORTS, terms, per_file=40 if ctx.quick else 200)
    bycase = {}
    for code, (ci, nm) in zip(codes, meta):
        bycase.setdefault(ci, {})[nm] = code
    nbad = 0
    repaired = 0
    for ci, d in bycase.items():
        case, r = cases[ci], res[ci]
        for nm, code in d.items():
            if nm == "scp_spec" or code == 0:
                continue
            if nm == "scp" and d.get("scp_spec") == 0:
                repaired += 1     # agrees with the single-delay reading: the defect was repaired
                continue
            nbad += 1
            if nbad <= 3:
                what = c09.CODE_NAMES.get(code, str(code)) if nm == "crops" else {1: "values differ", 2: "length differs",
                                                                                   3: "model rejects"}.get(code, str(code))
                ctx.tie_ok = False
                ctx.broken.append(f"correspondence {nm} vs Model/Series: {what}")
                ctx.violation(f"C08:tie:{nm}:{what}", f"model and implementation disagree on {nm} ({what})",
                              {"kind": "tie-broken", "runner": "c08_impl", "case": case, "series": nm,
                               "inputs": r["inputs"].get(nm), "observed": r["obs"].get(nm)})
    ctx.notes["correspondence"] = {"cases": len(cases), "series_compared": len(terms), "disagreements": nbad,
                                   "scp_cases_agreeing_only_with_single_delay": repaired, "distribution": dist}
    for case, r in list(zip(cases, res))[-2:]:
        if r["inputs"]:
            ctx.sample({"kind": case["kind"], "iso3": case.get("iso3"), "options": case.get("options"),
                        "scp_inputs": r["inputs"]["scp"], "scp_first_months": r["obs"].get("scp", [])[:20]})
    ctx.traces += len(terms)
    return cases


def audit(ctx):
    rng = ctx.rng
    nsyn, nreal = (40, 8) if ctx.quick else (800, 330)
    cases = [gen_synthetic(rng) for _ in range(nsyn)]
    isos = countries()
    chosen = ["WOR"] + rng.sample(sorted(c09.SPECIAL), 2) + rng.sample(isos, nreal - 3) if ctx.quick else (isos + ["WOR"] * 2) * 2
    cases += [gen_real(rng, iso) for iso in chosen[:nreal]]
    over = ["ARG", rng.choice(isos)] if ctx.quick else ["ARG", "USA", "IND"] + rng.sample(isos, 60)
    cases += [gen_real(rng, iso, overrides=True) for iso in over]
    cases += [gen_real(rng, iso, greenhouse=True) for iso in (rng.sample(TINY_AREA, 2) if ctx.quick else TINY_AREA * 2)]
    g = gen_real(rng, rng.choice(["ARG", "USA", "IND"]), greenhouse=True)
    g["options"]["scenario"] = "greenhouse"
    cases.append(g)
    # one run_model_no_trade-style sequence sharing one option dict (ALB / SLV are rewritten by alter_scenario_if_known_to_fail)
    cases.append({"kind": "sequence", "isos": ["ALB", "ARG"], "preset": "argentina_net_nuclear_resilient"})
    if not ctx.quick:
        cases.append({"kind": "sequence", "isos": ["SLV", "USA", "ECU", "IND"], "preset": "argentina_net_nuclear_resilient"})
    # what each round's optimiser receives (three-round runs)
    cases.append({"kind": "handoff", "iso3": "ARG", "preset": "argentina_net_nuclear_resilient"})
    for _ in range(1 if ctx.quick else 20):
        cases.append({"kind": "handoff", "iso3": rng.choice(isos),
                      "options": dict(c09.REAL_BASE, title="verif", scenario=rng.choice(["all_resilient_foods", "seaweed", "industrial_foods"]),
                                      shutoff=rng.choice(["long_delayed_shutoff", "continued", "short_delayed_shutoff"]))})
    res = ctx.run_impl("c08_audit", {"cases": cases})
    ctx.notes["audit"] = {k: v for k, v in res.items() if k != "failures"}
    ctx.count(n=res["checks"])
    for k in range(res["distinct"]):
        ctx.nontrivial.add(f"audit{k}")
    seen = set()
    for f in res["failures"]:
        if f["kind"] in seen:
            continue
        seen.add(f["kind"])
        key = SCP_KEY if f["kind"] == "scp-delay-applied-twice" else "C08:" + f["kind"]
        ctx.violation(key, f["what"], {"kind": "counterexample", "runner": "c08_audit", **f})
    if res["failures"]:
        ctx.log("audit failure kinds:", res["failure_kinds"])


def replay(rep):
    ctx = lib.Ctx("C08", "quick", rep.get("seed", 0))
    if rep.get("runner") == "c08_audit":
        res = ctx.run_impl("c08_audit", {"cases": [rep["case"]]})
        bad = [f for f in res["failures"] if f["kind"] == rep.get("kind_of_failure", f["kind"])]
        for f in bad[:5]:
            print("reproduced:", f["kind"], "-", f["what"])
        return 1 if bad else 0
    if rep.get("runner") == "c08_impl":
        ctx.build(["Model/SeriesCheck.vo"])
        r = ctx.run_impl("c08_impl", {"cases": [rep["case"]]})["results"][0]
        if r["inputs"] is None or r["errs"]:
            print("reproduced: implementation rejected:", r["errs"])
            return 1
        terms = series_terms(r["inputs"], r["obs"])
        if r.get("crops"):
            terms.append(("crops", c09.crop_term(r["crops"])))
        codes = ctx.coq_codes("c08_replay", IMPORTS, [t for _, t in terms])
        d = {nm: c for (nm, _), c in zip(terms, codes)}
        print("model vs implementation codes:", d)
        bad = [nm for nm, c in d.items() if c != 0 and nm != "scp_spec" and not (nm == "scp" and d.get("scp_spec") == 0)]
        return 1 if bad else 0
    print("nothing to replay:", rep.get("what"))
    return 0
