"""C04 - headline, monthly breakdown and saved tables agree.
proof: Props/C04.v (Model/Report.v = Extractor + Interpreter chain over Q, Model/LP.v rows Kcals_Fed_Month / second stage);
tie:   translator gen_units (multipliers) + correspondence of Extractor.extract_results / Interpreter.interpret_results
       with Model/Report.report on generated arrays (real LpVariable objects) and on captured rounds of real runs;
audit: the property itself evaluated on every captured round (harness/impl/c04_audit.py): headline vs min of the per-food
       sum, headline vs first-solve objective, per-food series vs converted allocation, CSV on disk vs object, crop split."""
import json
from lib import fq, fql, clist, cnat

NEAR_ZERO_KEY = "C04:optimum-within-solver-tolerance@Optimizer.run_optimizations_on_constraints"
IMPORTS = "From Allfed Require Import Gen.UnitTables Model.Units Model.LP Model.Report Model.ReportCheck."
ERR = {None: 0, "AssertRejected": 1, "TypeRejected": 2, "ValueRejected": 3}
VAR_KEYS = ["stored_food_to_humans", "seaweed_to_humans", "methane_scp_to_humans", "cellulosic_sugar_to_humans",
            "meat_eaten", "crops_food_to_humans", "crops_food_feed", "crops_food_biofuel"]
SERIES = ["fish", "greenhouse", "milk", "crops_prod"]
NAMES = {1: "extractor series (billion people fed)", 2: "percent series", 3: "monthly sum", 4: "headline",
         5: "rounded stored series", 6: "kcals-equivalent column", 7: "model rejects, implementation accepts",
         8: "model accepts, implementation rejects", 9: "both reject, different class"}

BASE = {
    "title": "verif", "scale": "country", "seasonality": "country", "grasses": "country_nuclear_winter",
    "crop_disruption": "country_nuclear_winter", "scenario": "no_resilient_foods", "fish": "nuclear_winter",
    "waste": "baseline_in_country", "nutrition": "catastrophe", "intake_constraints": "enabled",
    "stored_food": "baseline", "ratio_stocks_untouched": "zero", "shutoff": "long_delayed_shutoff",
    "cull": "do_eat_culled", "fat": "not_required", "protein": "not_required",
    "meat_strategy": "reduce_breeding", "NMONTHS": 120,
}
GLOBAL = {"scale": "global", "seasonality": "nuclear_winter_globally", "grasses": "global_nuclear_winter",
          "crop_disruption": "global_nuclear_winter", "waste": "baseline_globally"}
BASELINE = {"grasses": "baseline", "crop_disruption": "zero", "fish": "baseline", "nutrition": "baseline",
            "ratio_stocks_untouched": "baseline", "shutoff": "continued", "meat_strategy": "baseline_breeding"}
# small countries the validator special-cases (EST, LUX, CYP, GUY, SWT), tiny populations, big ones
COUNTRIES = ["USA", "IND", "ARG", "DJI", "EST", "LUX", "CYP", "GUY", "SWT", "CHN", "BRA", "NGA", "ISL", "LSO", "JPN",
             "DEU", "AUS", "EGY", "IDN", "RUS", "NZL", "MLT", "BHS", "FJI", "KWT", "MNG", "PAK", "ZAF", "GBR", "FRA"]


def opt(**kw):
    d = dict(BASE)
    d.update(kw)
    return d


def fixed_runs():
    """always in the sample: every food (seaweed / SCP / cellulosic sugar), the no-storage regime, a tiny country,
    short horizon, baseline year, a validator-special-cased country, the world"""
    return [
        ("IND", opt(scenario="all_resilient_foods")),
        ("DJI", opt(ratio_stocks_untouched="no_stored_between_years", NMONTHS=48)),
        ("ARG", opt(scenario="industrial_foods", shutoff="continued")),
        ("EST", opt(**BASELINE)),
        # months without harvest while stored crops go to feed: the 'eaten immediately' column was negative here
        # (rounds 2 and 3) before the clamp fix in Extractor.extract_outdoor_crops_results
        ("ARG", opt(**BASELINE)),
        ("WOR", opt(scenario="seaweed", **GLOBAL)),
        ("USA", opt(cull="dont_eat_culled", stored_food="zero", NMONTHS=72)),
        # near-zero optimum (0.0003 percent fed): the relative bound meets CBC's absolute row tolerance here
        ("MNG", opt(fish="zero", intake_constraints="disabled_for_humans", stored_food="zero",
                    ratio_stocks_untouched="baseline_no_stored_between_years", meat_strategy="baseline_breeding", NMONTHS=84)),
    ]


def fixed_chains():
    """runs executed one after the other in ONE process under the SAME title and results directory, as
    run_model_no_trade does for every country of a simulation: the table on disk must be the last result"""
    return [
        [("ARG", opt()), ("ARG", opt(waste="zero"))],
        [("LUX", opt(**BASELINE)), ("LUX", opt(**BASELINE)), ("CYP", opt(**BASELINE, NMONTHS=60))],
    ]


def random_run(rng, all_codes):
    iso = rng.choice([c for c in COUNTRIES if c in all_codes] if rng.random() < 0.5 else all_codes)
    kw = {}
    if rng.random() < 0.35:
        kw.update(BASELINE)
    kw["scenario"] = rng.choice(["no_resilient_foods", "all_resilient_foods", "seaweed", "methane_scp", "cellulosic_sugar",
                                 "industrial_foods", "relocated_crops", "greenhouse", "no_resilient_foods"])
    kw["NMONTHS"] = rng.choice([48, 60, 72, 84, 96, 108, 120, 120, 120])
    kw["shutoff"] = rng.choice(["immediate", "short_delayed_shutoff", "long_delayed_shutoff", "continued"])
    kw["waste"] = rng.choice(["zero", "baseline_in_country", "doubled_prices_in_country", "tripled_prices_in_country"])
    kw["ratio_stocks_untouched"] = rng.choice(["zero", "baseline", "no_stored_between_years",
                                                "baseline_no_stored_between_years"])
    kw["stored_food"] = rng.choice(["baseline", "baseline", "zero"])
    kw["cull"] = rng.choice(["do_eat_culled", "do_eat_culled", "dont_eat_culled"])
    kw["intake_constraints"] = rng.choice(["enabled", "disabled_for_humans"])
    kw["meat_strategy"] = rng.choice(["reduce_breeding", "baseline_breeding", "feed_only_ruminants"])
    kw["fish"] = rng.choice(["nuclear_winter", "baseline", "zero"])
    if rng.random() < 0.06:
        iso = "WOR"
        kw.update(GLOBAL)
        if kw["waste"].endswith("in_country"):
            kw["waste"] = "baseline_globally"
    return iso, opt(**kw)


def run(ctx):
    ctx.level = "proof"
    ctx.rule = ("generated case = (NMONTHS, nutrition settings, KCALS_MONTHLY, SEAWEED_KCALS, eight variable lists each either "
                "unmodelled ints or solved LpVariables, four given series) pushed through the real Extractor.extract_results + "
                "Interpreter.interpret_results and compared inside Coq with Model/Report.report (11 extractor series, 7 percent "
                "series, monthly sum, headline, 5 rounded series, 10 CSV columns; rejections by class); non-trivial = accepted, "
                ">= 3 foods contribute and the crop split has months of both branches (or the case is rejected on purpose). "
                "captured round = one optimiser round of a real (country|world, option) run; audited directly with the bounds: "
                "headline == min_m sum of per-food percent (1e-9 rel); per-food percent == 100*ratio*varValue/BILLION_KCALS_NEEDED "
                "and kcals-equivalent == ratio*varValue*1e9/(30*POP) (1e-9 rel); rounds 1/3: headline in "
                "[pfm*(1-1e-4), pfm*(1+1e-6)] with pfm the first-solve objective, and == min consumed_kcals variable (1e-6); "
                "round 2: 2/3 feed + 1/3 biofuel >= pfm*(1-1e-4); CSV cells == returned arrays exactly (float parse), header and "
                "row count; immediate + new stored == eaten (1e-9 of the series scale) in billions fed and in the saved columns, "
                "new stored >= 0, eaten immediately >= 0 (extractor series, percent, returned column and csv column); stored series within half a unit of the last kept decimal; hand-off link: "
                "in_units_bil_kcals...(feed_sum_kcals_equivalent / biofuels_sum_kcals_equivalent)[m] == sum of the captured feed / "
                "biofuel variables (stored + crops + seaweed*SEAWEED_KCALS + cell sugar + SCP; 1e-9 of the series scale) and, in "
                "rounds 1/3, == the round's charge (1e-6).  non-trivial round = >= 4 foods "
                "contribute; distinct = hash of (country, option, round)")
    ctx.trusted += ["translator harness/gen_units.py (unit multipliers)",
                    "hand model coq/Model/Report.v of extract_results.py / interpret_results.py (kcals), tied by correspondence",
                    "coq/Model/LP.v rows Kcals_Fed_Month, objective and second stage (tied by the LP correspondence of C01/C02)",
                    "float rounding not modelled (observed deviation reported); np.round read as round-half-even",
                    "CSV equality is a file-system observation, audited on every generated case and captured round, not modelled"]
    ctx.assumptions += ["positive nutrition settings and population; KCALS_MONTHLY / BILLION_KCALS_NEEDED handed to the optimiser are "
                        "the ones of Food.conversions (checked on every captured round)",
                        "fat / protein tracking off (the shipped code exits when they are required)",
                        "c04_within_tolerance / c04_headline_le_optimum: v is the true optimum of the first solve (hypothesis first_optimum; that CBC returns it is the subject of C02; the audit checks headline <= objective*(1+1e-6) on every captured round)"]
    ok = ctx.regen(["gen_units"])
    ctx.check_props()
    bok, bad, out = ctx.build(["Model/ReportCheck.vo"])
    if not bok:
        ctx.tie_ok = False
        ctx.broken.append(f"Model/ReportCheck.v does not compile: {bad}")
    real_runs(ctx, coq=bok and ok)
    if bok and ok:
        generated(ctx)


# ------------------------------------------------------------------ Coq encoding

def coq_varlist(vals, n_unmodelled):
    if vals is None:
        return f"(NotModelled {cnat(n_unmodelled)})"
    return f"(Vars {fql(vals)})"


def coq_case(n, km, settings, swk, vars_, series, obs, err, len_unmodelled=None):
    s = settings
    conv = (f"{{| kcals_daily := {fq(s['kcals_daily'])}; fat_daily := {fq(s['fat_daily'])}; "
            f"protein_daily := {fq(s['protein_daily'])}; population := {fq(s['population'])} |}}")
    lu = n if len_unmodelled is None else len_unmodelled
    vs = clist([coq_varlist(vars_[k], lu) for k in VAR_KEYS])
    ts = clist([fql(series[k]) for k in SERIES])
    if obs is None:
        o = "None"
    else:
        o = (f"(Some (mk_obs {clist([fql(x) for x in obs['e']])} {clist([fql(x) for x in obs['p']])} {fql(obs['sum'])} "
             f"{fq(obs['head'])} {clist([fql(x) for x in obs['q']])} {clist([fql(x) for x in obs['k']])}))")
    return f"check_report (1#1000000000) (mk_in {cnat(n)} {fq(km)} {conv} {fq(swk)} {vs} {ts}) {o} {cnat(err)}"


def coq_fb_case(d):
    s = d["settings"]
    conv = (f"{{| kcals_daily := {fq(s['kcals_daily'])}; fat_daily := {fq(s['fat_daily'])}; "
            f"protein_daily := {fq(s['protein_daily'])}; population := {fq(s['population'])} |}}")
    a, v, n = d["aux"], d["vars"], d["n"]
    order = [a["stored_food_feed"], v["crops_food_feed"], a["seaweed_feed"], a["cellulosic_sugar_feed"], a["methane_scp_feed"],
             a["stored_food_biofuel"], v["crops_food_biofuel"], a["seaweed_biofuel"], a["cellulosic_sugar_biofuel"],
             a["methane_scp_biofuel"]]
    vs = clist([coq_varlist(x, n) for x in order])
    fb = d["fb"]
    return (f"check_fb (1#1000000000) (mk_fb {cnat(n)} {fq(d['km'])} {conv} {fq(d['sw_kcals'])} {vs}) "
            f"{clist([fql(x) for x in fb['per']])} {fql(fb['feed_ke'])} {fql(fb['bio_ke'])} {fql(fb['feed_back'])} {fql(fb['bio_back'])}")


FB_NAMES = {1: "per-food feed/biofuel kcals-equivalent series", 2: "feed_sum_kcals_equivalent", 3: "biofuels_sum_kcals_equivalent",
            4: "feed sum converted back", 5: "biofuel sum converted back"}


def explain(code):
    return f"{NAMES.get(code // 100, code)} #{code % 100}" if code >= 100 else str(code)


# ------------------------------------------------------------------ generated arrays

def dy(rng, hi=1 << 18):
    return float(rng.randint(0, hi)) / 64


def gen_series(rng, n, kind):
    if kind == "zero":
        return [0.0] * n
    if kind == "dyadic":
        return [dy(rng) if rng.random() < 0.85 else 0.0 for _ in range(n)]
    return [rng.uniform(0, 5000) for _ in range(n)]


def gen_case(rng, mal=None):
    n = rng.choice([1, 2, 3, 5, 8, 12])
    if mal == "length" and n < 2:
        n = 3
    kd = float(rng.choice([2100, 2100, 1800, 2500, 1000]))
    s = {"kcals_daily": kd, "fat_daily": 47.0, "protein_daily": 51.0,
         "population": float(rng.choice([3.2e5, 9.9e5, 4.5e7, 3.3e8, 1.4e9, 7.8e9]))}
    km = kd * 30 if rng.random() < 0.8 else float(rng.choice([50000, 65536, 75000]))
    swk = rng.choice([0.25, 0.5, 0.21875, 0.2, 0.13])
    kinds = ["dyadic", "dyadic", "float", "zero"]
    vars_ = {}
    add_cr = rng.random() < 0.85
    for k in VAR_KEYS:
        if k.startswith("crops_food"):
            modelled = add_cr
        else:
            modelled = rng.random() < 0.75
        vars_[k] = gen_series(rng, n, rng.choice(kinds)) if modelled else None
    series = {k: gen_series(rng, n, rng.choice(kinds)) for k in SERIES}
    if not add_cr:
        series["crops_prod"] = [0.0] * n
    # the feed / biofuel of crops are small next to production so that both split branches occur
    if add_cr:
        sc = rng.choice([0.0, 1.0, 1.0, 64.0])
        vars_["crops_food_feed"] = [x * sc / 64 for x in vars_["crops_food_feed"]]
        vars_["crops_food_biofuel"] = [x * sc / 64 for x in vars_["crops_food_biofuel"]]
        eaten = vars_["crops_food_to_humans"]
        for m in range(n):
            r = rng.random()
            if r < 0.2:      # exact tie produced == eaten when nothing goes to feed / biofuel
                series["crops_prod"][m] = eaten[m]
            elif r < 0.4:
                series["crops_prod"][m] = eaten[m] + dy(rng, 1 << 10)
            elif r < 0.6:
                series["crops_prod"][m] = max(0.0, eaten[m] - dy(rng, 1 << 10))
    case = {"n": n, "settings": s, "km": km, "sw_kcals": swk, "vars": vars_, "series": series, "mal": mal}
    if mal == "negative":
        k = rng.choice([k for k in VAR_KEYS[:6] if vars_[k] is not None] or ["x"])
        if k != "x":
            m = rng.randrange(n)
            vars_[k][m] = -rng.choice([1e-12, 1.3e-3, 0.37, 4.0]) * s["population"] / 1e9 * km / 100
    elif mal == "crops_unmodelled":
        for k in VAR_KEYS[5:]:
            vars_[k] = None
        series["crops_prod"] = gen_series(rng, n, "dyadic")
        series["crops_prod"][0] += 1.0
    elif mal == "length":
        case["len_unmodelled"] = n + 2
        vars_[VAR_KEYS[0]] = None
        if vars_[VAR_KEYS[4]] is None:
            vars_[VAR_KEYS[4]] = gen_series(rng, n, "dyadic")
    # feed / biofuel lists of the other foods follow the food's own flag (not modelled here; interpreter adds them up)
    full = dict(vars_)
    for a, b in (("stored_food", "stored_food_to_humans"), ("seaweed", "seaweed_to_humans"),
                 ("methane_scp", "methane_scp_to_humans"), ("cellulosic_sugar", "cellulosic_sugar_to_humans")):
        for use in ("feed", "biofuel"):
            full[f"{a}_{use}"] = None if vars_[b] is None else gen_series(rng, n, "dyadic")
    case["vars_full"] = full
    return case


def generated(ctx):
    rng = ctx.rng
    nvalid = 60 if ctx.quick else 1500
    nmal = 24 if ctx.quick else 300
    cases = [gen_case(rng) for _ in range(nvalid)]
    cases += [gen_case(rng, rng.choice(["negative", "negative", "crops_unmodelled"])) for _ in range(nmal)]
    payload = {"cases": [{"n": c["n"], "settings": c["settings"], "km": c["km"], "sw_kcals": c["sw_kcals"],
                          "vars": c["vars_full"], "series": c["series"],
                          **({"len_unmodelled": c["len_unmodelled"]} if "len_unmodelled" in c else {})} for c in cases]}
    res = ctx.run_impl("c04_impl", payload)["results"]
    terms, meta = [], []
    dist = {"accepted": 0, "AssertRejected": 0, "TypeRejected": 0, "ValueRejected": 0, "other": 0, "both_branches": 0}
    for c, r in zip(cases, res):
        err = r["err"]
        if err not in ERR:
            dist["other"] += 1
            ctx.tie_ok = False
            ctx.broken.append(f"generated case raised {err}: {r.get('err_text')}")
            ctx.violation("C04:tie:unexpected-exception@Extractor.extract_results",
                          f"unexpected exception class {err}: {r.get('err_text')}", {"kind": "tie-broken", "case": slim_case(c)})
            continue
        dist["accepted" if err is None else err] += 1
        terms.append(coq_case(c["n"], c["km"], c["settings"], c["sw_kcals"], c["vars"], c["series"], r["obs"], ERR[err],
                              c.get("len_unmodelled")))
        meta.append((c, r))
        nz = True
        if r["obs"] is not None:
            o = r["obs"]
            ns = o["e"][10]
            both = any(x > 0 for x in ns) and any(x == 0 for x in ns)
            dist["both_branches"] += both
            nfoods = sum(1 for s_ in o["e"][:9] if max(s_, default=0) > 0)
            nz = nfoods >= 3 and (both or c["n"] == 1)
            for w in r["csv_failures"][:2]:
                ctx.violation("C04:csv@Interpreter.interpret_results", w,
                              {"kind": "counterexample", "generated": slim_case(c), "what": w})
            # direct: eaten immediately is never negative when the crops eaten are not
            cr_vals = c["vars"]["crops_food_to_humans"]
            if (cr_vals is None or min(cr_vals) >= 0) and any(x < 0 for x in o["e"][9] + o["k"][7]):
                mneg = next(m for m, x in enumerate(o["e"][9]) if x < 0)
                ctx.violation("C04:crop-split-negative@Extractor.extract_outdoor_crops_results",
                              f"generated case: immediate_outdoor_crops {o['e'][9][mneg]!r} billion people fed in month {mneg}",
                              {"kind": "counterexample", "generated": slim_case(c), "month": mneg})
            # direct: split adds up, new stored non-negative
            for m in range(len(ns)):
                sc = max(abs(o["e"][1][m]), abs(c["series"]["crops_prod"][m]) / c["km"], 1e-300)
                if abs(o["e"][9][m] + ns[m] - o["e"][1][m]) > 1e-9 * sc or ns[m] < 0:
                    ctx.violation("C04:split@Extractor.to_monthly_list_outdoor_crops_kcals",
                                  f"immediate {o['e'][9][m]!r} + new stored {ns[m]!r} vs eaten {o['e'][1][m]!r}",
                                  {"kind": "counterexample", "generated": slim_case(c), "month": m})
                    break
        ctx.count(("gen", slim_case(c)), nontrivial=nz)
    codes = ctx.coq_codes("c04gen", IMPORTS, terms, per_file=60 if ctx.quick else 120)
    nbad = 0
    for code, (c, r) in zip(codes, meta):
        if code != 0:
            nbad += 1
            if nbad <= 3:
                ctx.tie_ok = False
                ctx.broken.append(f"correspondence Extractor/Interpreter vs Model/Report.report: {explain(code)}")
                ctx.violation(f"C04:tie:{NAMES.get(code // 100, code)}@generated",
                              f"model and implementation disagree on a generated case: {explain(code)}",
                              {"kind": "tie-broken", "generated": slim_case(c), "observed": r, "code": code})
    ctx.notes["correspondence_generated"] = {"cases": len(terms), "disagreements": nbad, "distribution": dist}
    if meta:
        c, r = meta[0]
        ctx.sample({"generated": slim_case(c), "headline": r["obs"]["head"] if r["obs"] else None, "error": r["err"]})
    ctx.traces += len(terms)


def slim_case(c):
    return {k: c[k] for k in ("n", "settings", "km", "sw_kcals", "vars", "series", "mal") if k in c} | (
        {"len_unmodelled": c["len_unmodelled"], "vars_full": c["vars_full"]} if "len_unmodelled" in c else {"vars_full": c["vars_full"]})


# ------------------------------------------------------------------ captured real runs

def real_runs(ctx, coq=True):
    rng = ctx.rng
    import csv as _csv
    import lib
    with open(lib.REPO + "/data/no_food_trade/computer_readable_combined.csv", newline="") as f:
        all_codes = [r["iso3"] for r in _csv.DictReader(f)]
    specs = fixed_runs()
    nfixed = len(specs)
    nrand = 3 if ctx.quick else 400
    for _ in range(nrand):
        specs.append(random_run(rng, all_codes))
    runs = [{"iso3": iso, "opt": o, "title": f"c04_{i}_{iso}"} for i, (iso, o) in enumerate(specs)]
    chains = fixed_chains()
    for _ in range(0 if ctx.quick else 25):
        chains.append([random_run(rng, all_codes) for _ in range(rng.choice([2, 2, 3]))])
    for j, ch in enumerate(chains):
        runs.append({"chain": [{"iso3": iso, "opt": o, "title": f"c04_same_title_{j}"} for iso, o in ch]})
    want = 4 if ctx.quick else 30
    res = ctx.run_impl("c04_audit", {"runs": runs, "want_data": want, "procs": lib.NCPU if not ctx.quick else 6})["runs"]
    terms, meta, fb_terms = [], [], []
    stats = {"runs": len(runs), "rounds": 0, "failed_runs": 0, "to_humans": 0, "to_animals": 0, "seaweed": 0, "scp": 0, "cs": 0,
             "split_both": 0, "max_rel_below_optimum": 0.0, "horizons": {}}
    failed = []
    stats["same_title_chains"] = len(chains)
    for run_ in res:
        whole = run_["spec"]
        links = whole["chain"] if "chain" in whole else [whole]
        spec = links[-1] if run_["error"] else links[0]
        if run_["error"]:
            stats["failed_runs"] += 1
            failed.append({"iso3": spec["iso3"], "scenario": spec["opt"]["scenario"], "error": run_["error"][:160]})
            tr = run_.get("trace", "")
            site = next((f for f in ("extract_results.py", "interpret_results.py", "validate_results.py") if f in tr), None)
            if site or run_["idx"] < nfixed:
                # the reporting chain itself refused a solved round (or a run of the fixed pool no longer completes)
                ctx.violation(f"C04:run-rejected@{site or 'run'}",
                              f"{spec['iso3']} {spec['opt']['scenario']}: {run_['error'][:200]}",
                              {"kind": "counterexample", "spec": whole, "trace": tr[-800:]})
        for rd in run_["rounds"]:
            spec = links[rd.get("chain_pos", 0)]
            stats["rounds"] += 1
            stats[rd["ty"]] += 1
            nt = rd["nontrivial"]
            for k in ("seaweed", "scp", "cs"):
                stats[k] += nt[k]
            stats["split_both"] += nt["split_stored"] and nt["split_only_immediate"]
            stats["horizons"][str(rd["n"])] = stats["horizons"].get(str(rd["n"]), 0) + 1
            if rd["ty"] == "to_humans" and rd["pfm"] > 0:
                stats["max_rel_below_optimum"] = max(stats["max_rel_below_optimum"], (rd["pfm"] - rd["head"]) / rd["pfm"])
            ctx.count(("round", spec["iso3"], spec["opt"], rd["title"][-6:], rd.get("chain_pos", 0), "chain" in whole),
                      nontrivial=nt["foods"] >= 4)
            for f in rd["failures"][:3]:
                if f["kind"] == "optimum-near-zero":
                    # solver feasibility tolerance at a near-zero optimum: a finding only when the lead lists it
                    stats["near_zero_optimum_cases"] = stats.get("near_zero_optimum_cases", 0) + 1
                    ctx.notes.setdefault("solver_tolerance_cases", [])
                    if len(ctx.notes["solver_tolerance_cases"]) < 5:
                        ctx.notes["solver_tolerance_cases"].append({"iso3": spec["iso3"], "opt": spec["opt"], "what": f["what"]})
                    if any(k["key"] == NEAR_ZERO_KEY for k in ctx.known):
                        ctx.violation(NEAR_ZERO_KEY, f"{rd['title']}: {f['what']}",
                                      {"kind": "counterexample", "spec": whole, "round": rd["title"], "failure": f})
                    continue
                ctx.violation(f"C04:{f['kind']}@{f.get('site') or key_site(f['kind'])}", f"{rd['title']} ({rd['ty']}): {f['what']}",
                              {"kind": "counterexample", "spec": whole, "round": rd["title"],
                               "run_in_chain": rd.get("chain_pos", 0), "failure": f})
            if "data" in rd and coq:
                d = rd["data"]
                terms.append(coq_case(d["n"], d["km"], d["settings"], d["sw_kcals"], d["vars"], d["series"], d["obs"], 0))
                meta.append((spec, rd))
                fb_terms.append(coq_fb_case(d))
    if len(failed) > 0:
        ctx.notes["runs_not_completed"] = failed[:40]
    ctx.notes["captured_runs"] = stats
    if stats["rounds"] == 0:
        ctx.tie_ok = False
        ctx.broken.append("no real run completed")
    codes = ctx.coq_codes("c04real", IMPORTS, terms, per_file=2, timeout=1500) if terms else []
    nbad = 0
    for code, (spec, rd) in zip(codes, meta):
        if code != 0:
            nbad += 1
            if nbad <= 3:
                ctx.tie_ok = False
                ctx.broken.append(f"correspondence on captured round {rd['title']}: {explain(code)}")
                ctx.violation(f"C04:tie:{NAMES.get(code // 100, code)}@captured",
                              f"model and implementation disagree on captured round {rd['title']}: {explain(code)}",
                              {"kind": "tie-broken", "spec": spec, "round": rd["title"], "code": code})
    fcodes = ctx.coq_codes("c04fb", IMPORTS, fb_terms, per_file=3, timeout=1500) if fb_terms else []
    nbad_fb = 0
    for code, (spec, rd) in zip(fcodes, meta):
        if code != 0:
            nbad_fb += 1
            if nbad_fb <= 3:
                what = f"{FB_NAMES.get(code // 100, code)} #{code % 100}"
                ctx.tie_ok = False
                ctx.broken.append(f"correspondence of the feed/biofuel hand-off sums on captured round {rd['title']}: {what}")
                ctx.violation(f"C04:tie:{FB_NAMES.get(code // 100, code)}@captured",
                              f"model and implementation disagree on captured round {rd['title']}: {what}",
                              {"kind": "tie-broken", "spec": spec, "round": rd["title"], "code": code})
    ctx.notes["correspondence_captured"] = {"rounds": len(terms), "disagreements": nbad,
                                            "feed_biofuel_sum_rounds": len(fb_terms), "feed_biofuel_disagreements": nbad_fb}
    for run_ in res[:2]:
        if run_["rounds"] and "chain" not in run_["spec"]:
            rd = run_["rounds"][-1]
            ctx.sample({"run": {"iso3": run_["spec"]["iso3"], "scenario": run_["spec"]["opt"]["scenario"],
                                "NMONTHS": run_["spec"]["opt"]["NMONTHS"]},
                        "round": rd["title"], "headline": rd["head"], "first_solve_objective": rd["pfm"]})
    ctx.traces += stats["rounds"]


def key_site(kind):
    return {"conversion": "Extractor.to_monthly_list", "headline": "Interpreter.get_percent_people_fed",
            "rounded": "Interpreter.correct_and_validate_rounding_errors",
            "optimum": "Optimizer.run_optimizations_on_constraints",
            "feed-link": "Interpreter.calculate_feed_and_biofuels", "csv": "Interpreter.interpret_results",
            "split": "Extractor.to_monthly_list_outdoor_crops_kcals",
            "crop-split-negative": "Extractor.extract_outdoor_crops_results"}.get(kind, "run")


def replay(rep):
    import lib
    ctx = lib.Ctx("C04", "quick", rep.get("seed", 0))
    if "spec" in rep:
        res = ctx.run_impl("c04_audit", {"replay": {"spec": rep["spec"]}})["runs"][0]
        fails = [f for rd in res["rounds"] for f in rd["failures"]
                 if f["kind"] != "optimum-near-zero" or rep.get("key") == NEAR_ZERO_KEY]
        print(json.dumps({"error": res["error"], "failures": fails[:10]}, indent=1)[:3000])
        return 1 if fails or res["error"] else 0
    if "generated" in rep:
        c = rep["generated"]
        payload = {"cases": [{"n": c["n"], "settings": c["settings"], "km": c["km"], "sw_kcals": c["sw_kcals"],
                              "vars": c["vars_full"], "series": c["series"],
                              **({"len_unmodelled": c["len_unmodelled"]} if "len_unmodelled" in c else {})}]}
        r = ctx.run_impl("c04_impl", payload)["results"][0]
        bad = list(r.get("csv_failures") or [])
        if r["err"] not in ERR:
            bad.append(f"unexpected exception {r['err']}")
        else:
            ctx.build(["Model/ReportCheck.vo"])
            code = ctx.coq_codes("c04replay", IMPORTS, [coq_case(c["n"], c["km"], c["settings"], c["sw_kcals"], c["vars"],
                                                                    c["series"], r["obs"], ERR[r["err"]], c.get("len_unmodelled"))])[0]
            if code != 0:
                bad.append("model and implementation disagree: " + explain(code))
        print(json.dumps({"failures": bad[:10]}, indent=1))
        return 1 if bad else 0
    print("replay file names no input (proof-broken / tie-broken without a case):", rep.get("what"))
    return 1
