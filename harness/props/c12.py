"""C12 - more supply never feeds fewer people; scale does not matter.
proof : Props/C12.v over Model/LP.v (scale invariance as an iff on feasibility; supply / charge / waste monotonicity as
        'every feasible assignment of the poorer instance has a counterpart with at least the same objective').
tie   : C01's (row-multiset comparison), on a few instances.
audit : the optimiser inputs of real runs (captured) and synthetic inputs are perturbed (single supply up, waste down,
        charge up, common scale) and RE-SOLVED WITH THE REAL Optimizer; the reported optimum must move the right way."""
import copy
import json

import lpcase
import lpgen
import lpspec
import pools
from lib import fq

TOL = 1e-9
REL = 2e-6
SUPPLY_SERIES = ["crops_prod", "milk", "greenhouse", "fish", "scp_prod", "cs_prod"]
WASTES = ["w_sf", "w_cr", "w_meat", "w_scp", "w_cs", "w_sw"]
SCALED_SCALARS = ["pop", "need", "sf0", "meat_total", "sw_init", "sw_init_area"]
SCALED_SERIES = ["crops_prod", "milk", "greenhouse", "fish", "scp_prod", "cs_prod", "built_area", "feed_charge",
                 "biofuel_charge", "meat_monthly", "meat_running", "max_feed", "max_biofuel", "pin_cr", "pin_sf", "pin_meat",
                 "pin_scp", "pin_cs", "pin_sw"]


def perturbations(d, rng, quick):
    """-> list of (kind, label, spec, expectation) ; expectation in {'ge','le','eq'} relative to the base optimum"""
    n = d["NM"]
    out = []

    def cp():
        return copy.deepcopy(d)

    # single supplies
    cands = []
    if d["add_sf"] and d["sf0"] > 0:
        cands.append("sf0")
    if d["add_cr"]:
        cands.append("crops_prod")
    if d["add_scp"]:
        cands.append("scp_prod")
    if d["add_cs"]:
        cands.append("cs_prod")
    if d["add_meat"]:
        cands.append("meat")
    cands += ["milk", "fish", "greenhouse"]
    for c in (rng.sample(cands, min(len(cands), 3)) if quick else cands):
        for whole in ([rng.random() < 0.5] if quick else [False, True]):
            e = cp()
            j = rng.randrange(n)
            if c == "sf0":
                e["sf0"] = d["sf0"] * (2.0 if whole else 1.1)
            elif c == "meat":
                inc = [(0.1 * x + 1.0) if (whole or m == j) else 0.0 for m, x in enumerate(d["meat_monthly"])]
                acc = 0.0
                for m in range(n):
                    acc += inc[m]
                    e["meat_monthly"][m] = d["meat_monthly"][m] + inc[m]
                    e["meat_running"][m] = d["meat_running"][m] + acc
                e["meat_total"] = d["meat_total"] + acc
            else:
                for m in range(n):
                    if whole or m == j:
                        e[c][m] = d[c][m] * 1.1 + (1.0 if d[c][m] == 0 else 0.0)
            out.append(("supply", f"{c}{'*' if whole else '@' + str(j)}", e, "ge"))
    # each meat input alone (they are separate inputs of the optimiser; raising one of them must never hurt)
    if d["add_meat"]:
        e = cp(); e["meat_total"] = d["meat_total"] * 1.02 + 1.0
        out.append(("supply", "meat_total-alone", e, "ge"))
        e = cp(); j = rng.randrange(n)
        e["meat_running"] = [x * 1.05 + (1.0 if m >= j else 0.0) for m, x in enumerate(d["meat_running"])]
        out.append(("supply", f"meat_running-alone@{j}", e, "ge"))
        e = cp(); e["meat_monthly"] = [x * 1.1 + 1.0 for x in d["meat_monthly"]]
        out.append(("supply", "meat_monthly-alone", e, "ge"))
    # waste down
    ws = [w for w in WASTES if d[w] >= 5 and d["add_" + w[2:]]]
    for w in ws:
        e = cp()
        e[w] = d[w] - 5.0
        out.append(("waste", w, e, "ge"))
    # ... and down to a fraction of a percent / to zero (values below 1 % are legal percentages, not fractions)
    for w in (rng.sample(ws, min(len(ws), 2)) if quick else ws):
        for tgt in (0.5, 0.0):
            e = cp()
            e[w] = tgt
            out.append(("waste", f"{w}->{tgt}", e, "ge"))
    # charge up (to_humans only)
    if d["ty"] == "to_humans" and (d["add_sf"] or d["add_cr"]):
        for key in ("feed_charge", "biofuel_charge"):
            e = cp()
            j = rng.randrange(n)
            e[key] = [x * 1.1 + (0.5 if m == j else 0.0) for m, x in enumerate(d[key])]
            out.append(("charge", key, e, "le"))
        # ... and far up: the instance may become infeasible (the solve fails, which is accepted) but a solve that returns
        # must not report MORE people fed than the base
        e = cp()
        f = rng.choice([3.0, 10.0])
        e["feed_charge"] = [x * f + 1.0 for x in d["feed_charge"]]
        e["biofuel_charge"] = [x * f for x in d["biofuel_charge"]]
        out.append(("charge", f"both x{f}", e, "le"))
    # common scale
    for c in ([rng.choice([0.01, 3.0, 1000.0])] if quick else [0.01, 3.0, 1000.0]):
        if (d["pop"] < 1e7) != (d["pop"] * c < 1e7) and d["ty"] == "to_animals":
            continue
        e = cp()
        for k in SCALED_SCALARS:
            e[k] = d[k] * c
        for k in SCALED_SERIES:
            e[k] = [x * c for x in d[k]]
        # percent fed is scale-free; the feed-round objective is a quantity and scales with c
        out.append(("scale", f"x{c}", e, "eq" if d["ty"] == "to_humans" else f"eq*{c}"))
    return out


def run(ctx):
    ctx.level = "proof"
    ctx.rule = ("case = (base optimiser input, one perturbation) re-solved with the real Optimizer; base inputs are captured "
                "from real three-round runs or generated (seeded); perturbations: one supply up (one month or the whole "
                "series), one retail waste down 5 points, feed/biofuel charge up 10 %, common scale 0.01/3/1000; "
                "distinct = hash of base and perturbation; non-trivial = both instances solved and the base optimum > 0")
    ctx.trusted += ["hand model coq/Model/LP.v tied by row-multiset comparison (shared with C01)",
                    "CBC: its optimum is taken as the percent fed; monotonicity is audited on re-solved instances within 2e-6"]
    ctx.assumptions += ["waste monotonicity is proved for foods without an intake cap (stored food, crops, meat); "
                        "for capped foods it is audited only"]
    ctx.check_props()
    okb, bad, _ = ctx.build(["Model/LPCheck.vo"])
    rng = ctx.rng
    nreal = 3 if ctx.quick else 30
    nsyn = 30 if ctx.quick else 400
    must = [pools.option(scenario="all_resilient_foods", shutoff="continued")]
    real = pools.sample_runs(rng, nreal, must=must)
    res = ctx.run_impl("lp_impl", {"synthetic": [], "real": real, "rows_for_real": True, "procs": 8})
    bases = []
    for run_ in res["real"]:
        for k, rec in enumerate(run_.get("solves", [])):
            if "capture_error" in rec or rec["ty"] != "to_humans":
                continue
            if ctx.quick and k != len(run_["solves"]) - 1 and rng.random() < 0.5:
                continue
            d = rec["lp_in"]
            d["ty"] = rec["ty"]
            bases.append(({"iso3": run_["iso3"], "solve": k, "scenario": run_["option"].get("scenario")}, d, rec))
    for k in range(nsyn):
        if k % 3 == 2:
            d = lpgen.gen_targeted(rng, k // 3)
        else:
            d = lpgen.gen_spec(rng, ty="to_humans" if rng.random() < 0.85 else "to_animals", solvable=True, nmax=16)
        bases.append(({"synthetic": True}, d, None))
    items, meta = [], []
    # tie on inputs with arbitrary (also inconsistent / unsolvable) values: build only
    tie_specs = [{"spec": lpgen.gen_spec(rng), "solve": False} for _ in range(12 if ctx.quick else 150)]
    # corpus: recorded witnesses run first
    import os
    cdir = "/verif/corpus/C12"
    if os.path.isdir(cdir):
        for f in sorted(os.listdir(cdir)):
            c = json.load(open(os.path.join(cdir, f)))
            w = {"corpus": f}
            items.append({"spec": c["base"], "solve": True})
            meta.append((w, "base", None, None, c["base"]))
            items.append({"spec": c["perturbed"], "solve": True})
            meta.append((w, c["kind"], c["label"], c["expected"], c["perturbed"]))
    nrep = 0
    for where, d, rec in bases:
        items.append({"spec": d, "solve": True})
        meta.append((where, "base", None, None, d))
        if nrep < (12 if ctx.quick else 120):
            nrep += 1
            items.append({"spec": d, "solve": True, "repeat": True})
            meta.append((where, "repeat", "same input objects solved twice", "eq", d))
        for kind, label, e, exp in perturbations(d, rng, ctx.quick):
            items.append({"spec": e, "solve": True})
            meta.append((where, kind, label, exp, e))
    ctx.log(f"{len(bases)} bases, {len(items)} solves")
    out_all = ctx.run_impl("lp_impl", {"synthetic": items + tie_specs, "real": [], "procs": 14})["synthetic"]
    out, tie_out = out_all[:len(items)], out_all[len(items):]
    dist = {"bases": len(bases), "perturbed": 0, "by_kind": {}, "perturbed_infeasible": 0, "base_infeasible": 0,
            "reconstructed_base_mismatch": 0}
    base_opt = None
    base_rows = None
    file_specs = []
    for (where, kind, label, exp, spec), r in zip(meta, out):
        if kind == "base":
            base_opt = None if "error" in r else r["percent_fed_from_model"]
            base_spec = spec
            base_rows = r.get("rows")
            base_obj = lpspec.first_objective(r)
            if base_obj is not None and not lpspec.objective_is_pure(base_obj):
                ctx.tie_ok = False
                ctx.violation("C12:first-objective-is-not-the-fed-share",
                              f"the first solve maximises {base_obj['terms'][:6]}, not the fed share alone: the reported number "
                              f"carries quantities in absolute units and cannot be scale-free, on {where}",
                              {"kind": "counterexample", "base": base_spec, "where": where, "objective": base_obj,
                               "base_optimum": base_opt})
            if base_opt is None:
                dist["base_infeasible"] += 1
            # a reconstructed real instance must reproduce the optimum the real run reported
            real_rec = next((b[2] for b in bases if b[1] is spec), None)
            if real_rec is not None and base_opt is not None:
                if abs(base_opt - real_rec["percent_fed_from_model"]) > REL * (1 + abs(base_opt)):
                    dist["reconstructed_base_mismatch"] += 1
                    ctx.tie_ok = False
                    ctx.broken.append(f"re-built optimiser input does not reproduce the run's optimum on {where}")
                    # the same NUMBERS (captured from the run, handed back as plain float series) give another optimum than the
                    # run itself: the result depends on something other than the values of the supplies (dtype, object
                    # identity, hidden state) - so a common scale or a harmless re-encoding changes percent fed
                    ctx.violation("C12:same-numbers-different-optimum@rebuilt-input",
                                  f"the run reports {real_rec['percent_fed_from_model']} but the optimiser given the same input values "
                                  f"as float series reports {base_opt} on {where}",
                                  {"kind": "counterexample", "base": base_spec, "where": where, "run_optimum": real_rec["percent_fed_from_model"],
                                   "rebuilt_optimum": base_opt, "rerun": where})
            if okb and "rows" in r and len(file_specs) < (6 if ctx.quick else 60):
                file_specs.append((lpcase.instance_defs("x", {"lp_in": r["lp_in"] | {"ty": spec["ty"]}, "rows": r["rows"]}),
                                   [f"compare_lp {fq(TOL)} {fq(lpcase.scale_of(r['lp_in']))} x_in {lpcase.coq_ty(spec['ty'])} x_rows"]))
            continue
        if base_opt is None:
            continue
        dist["perturbed"] += 1
        dist["by_kind"][kind] = dist["by_kind"].get(kind, 0) + 1
        if "error" in r:
            dist["perturbed_infeasible"] += 1
            if exp in ("ge", "eq") or exp.startswith("eq*"):
                sw = "@seaweed-in-food-set" if (base_spec.get("add_sw") and kind in ("waste", "charge")) else ""
                ctx.violation(f"C12:{kind}-perturbation-makes-instance-fail{sw}",
                              f"{kind} perturbation {label} of a solvable instance fails ({r['error']}) on {where}",
                              {"kind": "counterexample", "base": base_spec, "perturbed": spec, "where": where, "label": label})
            continue
        p = r["percent_fed_from_model"]
        if kind == "repeat":
            p2 = r.get("second_optimum")
            ctx.count((json.dumps(spec, sort_keys=True)[:3000], kind, label), nontrivial=base_opt > 0)
            if p2 is None or abs(p2 - p) > REL * (1 + abs(p)) or r.get("second_lp_in") != r.get("lp_in"):
                changed = sorted(k for k in (r.get("lp_in") or {}) if (r.get("second_lp_in") or {}).get(k) != r["lp_in"][k])
                ctx.violation("C12:same-input-solved-twice-differs",
                              f"solving twice with the same input objects gives {p} then {p2}; the optimiser altered its input "
                              f"(fields that differ the second time: {changed[:6]}) on {where}",
                              {"kind": "counterexample", "base": base_spec, "where": where, "first": p, "second": p2, "changed": changed})
            continue
        ctx.count((json.dumps(spec, sort_keys=True)[:3000], kind, label), nontrivial=base_opt > 0)
        target = base_opt
        exp0 = exp
        if exp.startswith("eq*"):
            target = base_opt * float(exp[3:])
            exp = "eq"
        tol = REL * (1 + abs(target))
        badness = (exp == "ge" and p < base_opt - tol) or (exp == "le" and p > base_opt + tol) or \
                  (exp == "eq" and abs(p - target) > tol)
        if badness and "rows" in r and base_rows is not None:
            # CBC loses precision on badly scaled or ill-conditioned instances (seen: 3 % on a x1000 scaled real LP, 1e-4 on
            # seaweed ledgers).  Decide on the CODE'S OWN rows (captured from PuLP) re-solved with HiGHS: a defect of the
            # formulation is still there, a solver precision gap is not.
            sb, ob = lpspec.solve_rows(base_rows, objective=base_obj)
            sp, op_ = lpspec.solve_rows(r["rows"], objective=lpspec.first_objective(r))
            if sb == 0 and sp == 0:
                tg = ob * (float(exp0[3:]) if exp0.startswith("eq*") else 1.0)
                # seaweed ledgers (growth of several hundred percent a month) amplify the float rounding of the rows
                # themselves: a re-scaled instance re-solved exactly still differs by a few 1e-6
                tl = (1e-4 if base_spec.get("add_sw") else REL) * (1 + abs(tg))
                ok2 = (exp == "ge" and op_ >= tg - tl) or (exp == "le" and op_ <= tg + tl) or (exp == "eq" and abs(op_ - tg) <= tl)
                if ok2:
                    dist.setdefault("solver_precision_cases", []).append(
                        {"where": where, "label": label, "cbc": [base_opt, p], "own_rows_highs": [ob, op_]})
                    badness = False
        if badness:
            sw = "@seaweed-in-food-set" if (base_spec.get("add_sw") and kind in ("waste", "charge")) else ""
            ctx.violation(f"C12:{kind}-monotonicity{sw}",
                          f"{kind} perturbation {label}: optimum {base_opt} -> {p} (expected {exp}) on {where}",
                          {"kind": "counterexample", "base": base_spec, "perturbed": spec, "where": where, "label": label,
                           "base_optimum": base_opt, "perturbed_optimum": p, "expected": exp0})
        ctx.sample({"where": where, "perturbation": [kind, label], "base": base_opt, "perturbed": p}, limit=6)
    for it, r in zip(tie_specs, tie_out):
        if okb and "rows" in r:
            sp = it["spec"]
            file_specs.append((lpcase.instance_defs("x", {"lp_in": r["lp_in"] | {"ty": sp["ty"]}, "rows": r["rows"]}),
                               [f"compare_lp {fq(TOL)} {fq(lpcase.scale_of(r['lp_in']))} x_in {lpcase.coq_ty(sp['ty'])} x_rows"]))
    ctx.notes["input_distribution"] = dist
    ctx.traces = len([b for b in bases if b[2] is not None])
    if okb and file_specs:
        codes = ctx.coq_codes_files("c12", lpcase.IMPORTS, file_specs, timeout=1500)
        nbad = sum(1 for c in codes if c[0] != 0)
        if nbad:
            ctx.tie_ok = False
            ctx.broken.append(f"correspondence Model/LP.build vs Optimizer rows: {nbad} instances differ")
    elif not okb:
        ctx.tie_ok = False
        ctx.broken.append(f"Model/LPCheck does not compile: {bad}")


def replay(rep):
    from lib import Ctx
    ctx = Ctx("C12", "quick", int(rep.get("seed", 0)))
    if "base" not in rep:
        print("replay file names no concrete input:", rep.get("what"), rep.get("broken"))
        return 1
    out = ctx.run_impl("lp_impl", {"synthetic": [{"spec": rep["base"], "solve": True}, {"spec": rep["perturbed"], "solve": True}],
                                   "real": []})["synthetic"]
    b, p = out
    print("base", b.get("percent_fed_from_model", b.get("error")), "perturbed", p.get("percent_fed_from_model", p.get("error")),
          "expected", rep.get("expected"))
    if "error" in b:
        return 0
    if "error" in p:
        return 1 if rep.get("expected", "ge") in ("ge", "eq") else 0
    bo, po = b["percent_fed_from_model"], p["percent_fed_from_model"]
    tol = REL * (1 + abs(bo))
    exp = rep.get("expected", "ge")
    if exp.startswith("eq*"):
        bo = bo * float(exp[3:])
        exp = "eq"
    return 1 if ((exp == "ge" and po < bo - tol) or (exp == "le" and po > bo + tol) or (exp == "eq" and abs(po - bo) > tol)) else 0
