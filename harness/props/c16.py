"""C16 - every country completes under every documented preset.
proof : Props/C16.v - (a) all 164 rows of the shipped table are admissible (row_ok, by computation over the regenerated
        table), (b) the no-feed human-maximising round is never infeasible for a structural reason when seaweed is not in
        the food set (existence of a feasible assignment for every admissible input with zero charges) and its objective is
        bounded; a concrete seaweed instance that IS infeasible shows why seaweed needs the data.
grid  : the fixed grid (164 countries + world) x (13 shipped YAML presets, 10 manuscript presets, single-option variations of
        the nuclear-winter base, of the manuscript resilient-food example and of the baseline-climate preset, horizons 48..108) is ENUMERATED ON THE IMPLEMENTATION: thorough = every cell, quick = a seeded sample.  This part
        is testing and is labelled so (level 'other')."""
import csv
import json
import os

import presets

MS_KEY = "C16:manuscript-presets-lack-ratio_stocks_untouched@plot_manuscript_figures.py"


def all_codes():
    from lib import REPO
    return [r["iso3"] for r in csv.DictReader(open(os.path.join(REPO, "data", "no_food_trade", "computer_readable_combined.csv")))]


# ---------------------------------------------------------------------------------------------------------------------
# correspondence of Model/Validator.v with src/optimizer/validate_results.py (the built-in validation checks)

VAL_IMPORTS = "From Allfed Require Import Gen.UnitTables Model.Units Model.LP Model.LPBool Model.Report Model.Validator."
VAL_DEFS = """
Definition agree (m i : bool) : nat := if Bool.eqb m i then 0%nat else 1%nat.
Definition mk_ii (cs scp gh fish meat milk ns : list Q) : interpreted :=
  {| p_sf := []; p_cr := []; p_sw := []; p_cs := cs; p_scp := scp; p_gh := gh; p_fish := fish; p_meat := meat;
     p_milk := milk; p_imm := []; p_ns := []; p_sum := []; headline := 0;
     q_sf := []; q_cr := []; q_imm := []; q_ns := ns; q_sw := [];
     k_fish := []; k_cs := []; k_scp := []; k_gh := []; k_sw := []; k_milk := []; k_meat := []; k_imm := [];
     k_ns := []; k_sf := [] |}.
Definition vconv (kd fd pd pop : Q) : conv := {| kcals_daily := kd; fat_daily := fd; protein_daily := pd; population := pop |}.
"""
SMALL_CODES = ["EST", "LUX", "CYP", "GUY", "SWT"]
OTHER_CODES = ["USA", "ARG", "SWZ", "NZL", "LU", "EST ", "est", "GUYX", "WOR", "CHN", "", "SWT2"]
VAL_SLOTS = [("SF_h", "Stored_Food_To_Humans"), ("SF_f", "Stored_Food_Feed"), ("CR_h", "Crops_Food_To_Humans"),
             ("SCP_b", "Methane_SCP_Biofuel"), ("M_eaten", "Meat_Eaten")]


def _hx(x):
    if isinstance(x, (list, tuple)):
        return [_hx(v) for v in x]
    if isinstance(x, (str, bool)) or x is None:
        return x
    if isinstance(x, dict):
        return {k: _hx(v) for k, v in x.items()}
    return float(x).hex() if isinstance(x, float) else x


def validator_cases(rng, quick):
    """-> list of (case dict for the runner, coq model term of type bool, kind of observation, skip?)"""
    from fractions import Fraction as Fr
    from lib import fq, fql, cstr, cbool
    out = []

    def add(case, term, obs="pass", skip=False):
        out.append({"case": case, "term": term, "obs": obs, "skip": skip})

    def eighth(lo, hi):
        return rng.randint(int(lo * 8), int(hi * 8)) / 8.0

    # ---- ensure_optimizer_returns_same_as_sum_nutrients: round(model - headline, 0) == 0 ; listed small countries: < 5
    diffs = [0.0, 0.125, 0.375, 0.5, 0.625, 1.0, 1.5, 2.5, 3.5, 4.375, 4.5, 4.625, 5.0, 5.5, 7.0,
             -0.125, -0.375, -0.5, -0.625, -1.5, -4.5, -5.5, -100.0]
    pairs = [(c, d) for c in SMALL_CODES for d in (0.5, 0.625, 2.5, 4.5, 4.625, -0.625, -100.0, 5.5)]
    pairs += [(c, d) for c in OTHER_CODES for d in (0.5, 0.625, 2.5)] + [("USA", -0.5), ("ARG", -0.625), ("USA", 0.0)]
    pairs += [(rng.choice(SMALL_CODES + OTHER_CODES), rng.choice(diffs)) for _ in range(20 if quick else 200)]
    for code, d in pairs:
        h = eighth(0, 400)
        v = h + d
        add({"fn": "sum_nutrients", "code": code, "from_model": v, "headline": h},
            f"ensure_optimizer_returns_same_as_sum_nutrients {cstr(code)} {fq(v)} {fq(h)}")

    # ---- assert_round3_percent_fed_not_lower_than_round1 (prints, never raises): r3 <= min - 0.1 and not r1 <= r3 + 1
    d3s = [-0.0625, -0.125, -0.25, -1.0, -30.0, 0.0, 0.5, 20.0]
    d1s = [1.0, 0.875, 1.125, 1.0625, 1.5, 2.5, 0.0, -5.0, 12.5, 60.0]
    grid = [(100.0, a, b) for a in d3s for b in d1s]
    grid += [(rng.choice([10.0, 62.5, 0.0, 100.0]), rng.choice(d3s), rng.choice(d1s)) for _ in range(20 if quick else 300)]
    for mn, a, b in grid:
        r3 = max(mn + a, 0.0)
        r1 = r3 + b
        skip = abs(Fr(r3) - (Fr(mn) - Fr(1, 10))) <= Fr(1, 10 ** 9) * max(1, abs(Fr(mn)))
        add({"fn": "round3_vs_round1", "minimum": mn, "round1": r1, "round3": r3},
            f"round3_percent_fed_not_lower_than_round1 {fq(mn)} {fq(r1)} {fq(r3)}", obs="silent", skip=skip)

    # ---- assert_meat_dairy_doesnt_decrease_round_2: meat2.sum() + milk1.sum() >= (meat1.sum() + milk1.sum()) * (1 - 1e-2)
    ps = [Fr(0), Fr(1, 200), Fr(99, 10000), Fr(1, 100), Fr(101, 10000), Fr(3, 200), Fr(1, 50), Fr(-1, 20), Fr(1, 2)]
    mgrid = [(p, j) for p in ps for j in (0.0, 0.125, -0.125)]
    mgrid += [(rng.choice(ps), rng.choice([0.0, 0.125, -0.125])) for _ in range(12 if quick else 300)]
    for p, jit in mgrid:
        n = rng.randint(1, 4)
        m1 = [eighth(0, 400) for _ in range(n)]
        k1 = [rng.choice([0.0, eighth(0, 100)]) for _ in range(n)]
        k2 = [rng.choice([0.0, eighth(-1000, 1000)]) for _ in range(n)]
        m2 = list(m1)
        rng.shuffle(m2)
        S = sum(Fr(x) for x in m1) + sum(Fr(x) for x in k1)
        # move the round-2 total to  (1 - p) * S  for p around the 1 % tolerance, on the 1/8 grid
        target = (1 - p) * S - sum(Fr(x) for x in k1)
        delta = float(round((target - sum(Fr(x) for x in m2)) * 8)) / 8.0 + jit
        m2[rng.randrange(n)] += delta
        lhs = sum(Fr(x) for x in m2) + sum(Fr(x) for x in k1)
        skip = abs(lhs - S * Fr(99, 100)) <= Fr(1, 10 ** 9) * max(1, abs(S))
        add({"fn": "meat_dairy", "meat1": m1, "meat2": m2, "milk1": k1, "milk2": k2},
            f"assert_meat_dairy_doesnt_decrease_round_2 {fql(m1)} {fql(m2)} {fql(k1)} {fql(k2)}", skip=skip)

    # ---- ensure_all_greater_than_or_equal_to_zero: thresholds 1e-6 (cell sugar, SCP), round to 6 decimals (greenhouse,
    #      meat), exact 0 (fish, milk, new stored crops); immediate crops are not looked at
    attrs = ["cell_sugar", "scp", "greenhouse", "fish", "meat", "milk", "new_stored_outdoor_crops", "immediate_outdoor_crops"]
    probes = [0.0, -2.0 ** -30, -2.0 ** -22, -2.0 ** -21, -2.0 ** -20, -2.0 ** -19, -2.0 ** -17, -2.0 ** -10, -1.0, 2.0 ** -20]
    combos = [(a, x) for a in attrs for x in probes]
    if not quick:
        combos = combos * 3
    for a, x in combos:
        n = rng.randint(1, 4)
        ser = {b: [eighth(0, 50) for _ in range(n)] for b in attrs}
        ser[a][rng.randrange(n)] = x
        # np.round(x, 6): stay away from rounding ties of x * 1e6
        fr = (Fr(x) * 10 ** 6) % 1
        skip = abs(fr - Fr(1, 2)) < Fr(1, 10 ** 6) or abs(abs(Fr(x)) - Fr(1, 10 ** 6)) <= Fr(1, 10 ** 15)
        c = {"fn": "ge_zero"}
        c.update(ser)
        add(c, "ensure_all_greater_than_or_equal_to_zero (mk_ii " +
            " ".join(fql(ser[b]) for b in ("cell_sugar", "scp", "greenhouse", "fish", "meat", "milk",
                                           "new_stored_outdoor_crops")) + ")", skip=skip)

    # ---- ensure_zero_kcals_have_zero_fat_and_protein (asserts only with tracking on)
    # one offending food at a time (non-zero fat or protein in a zero-kcals month) under each flag setting, then clean ones
    zgrid = [(bad, nut, fl) for bad in range(8) for nut in ("fat", "protein") for fl in ((True, True), (nut == "fat", nut == "protein"))]
    zgrid += [(bad, nut, (nut != "fat", nut != "protein")) for bad in range(0, 8, 3) for nut in ("fat", "protein")]
    zgrid += [(None, "fat", rng.choice([(False, False), (True, False), (False, True), (True, True)]))
              for _ in range(6 if quick else 60)]
    for bad, nut, (incf, incp) in zgrid:
        n = rng.randint(1, 3)
        foods = []
        for j in range(8):
            k = [rng.choice([0.0, 0.0, eighth(0, 10)]) for _ in range(n)]
            if j == bad:
                k[rng.randrange(n)] = 0.0
            f = [0.0 if kk == 0 else eighth(0, 4) for kk in k]
            p = [0.0 if kk == 0 else eighth(0, 4) for kk in k]
            if j == bad:
                (f if nut == "fat" else p)[k.index(0.0)] = 0.125 + eighth(0, 4)
            foods.append((k, f, p))
        add({"fn": "zero_kcals", "include_fat": incf, "include_protein": incp, "foods": [list(t) for t in foods]},
            f"ensure_zero_kcals_have_zero_fat_and_protein {cbool(incf)} {cbool(incp)} [" +
            "; ".join(f"({fql(k)}, {fql(f)}, {fql(p)})" for k, f, p in foods) + "]")

    # ---- assert_feed_used_below_feed_demand / assert_biofuels_used_below_biofuels_demand on stub objects:
    #      (demand - total.in_units_bil_kcals...() * (1 - 1e-4)).kcals > -1e-6
    shifts = [0.0, -2.0 ** -21, -2.0 ** -19, -2.0 ** -17, -1.0, 2.0 ** -21, 1.0]
    fgrid = [(j, sh) for sh in shifts for j in (0, 1)] * (1 if quick else 6)
    fgrid += [(j, rng.choice(shifts)) for j in range(2, 18 if quick else 100)]
    for j, crit_shift in fgrid:
        fn = "feed_below_demand" if j % 2 == 0 else "biofuels_below_demand"
        st = {"kcals_daily": rng.choice([2100.0, 2000.0, 1800.0]), "fat_daily": 47.0, "protein_daily": 51.0,
              "population": rng.choice([1.0e6, 1.0e7, 3.3e8, 658359.0])}
        incf, incp = rng.choice([(False, False)] * 6 + [(True, False), (False, True)])
        n = rng.randint(1, 4)
        series = [[rng.choice([0.0, eighth(0, 2)]) for _ in range(n)] for _ in range(5)]
        series[rng.randrange(5)][0] += 0.125       # never all zero in month 0
        bkn = Fr(st["kcals_daily"]) * 30 * Fr(st["population"]) / 10 ** 9
        red = [(1 - Fr(1, 10000)) * (bkn / 100) * sum(Fr(s[m]) for s in series) for m in range(n)]
        crit = rng.randrange(n)
        dem, skip = [], False
        for m in range(n):
            sh = crit_shift if m == crit else eighth(0, 3)
            d = float(red[m] + Fr(sh))
            dem.append(d)
            if abs(Fr(d) - red[m] + Fr(1, 10 ** 6)) <= Fr(1, 10 ** 9) * max(1, abs(red[m])):
                skip = True
        if j % 15 == 14:
            dem = dem + [1.0]       # numpy refuses operands of different lengths (n = 1 would broadcast: keep n >= 2)
            if n == 1:
                series = [s + [0.0] for s in series]
        add({"fn": fn, "settings": st, "include_fat": incf, "include_protein": incp, "series": series, "demand": dem},
            f"assert_used_below_demand {cbool(incf)} {cbool(incp)} (vconv {fq(st['kcals_daily'])} {fq(47.0)} {fq(51.0)} "
            f"{fq(st['population'])}) {fql(dem)} (sum5 " + " ".join(fql(s) for s in series) + ")",
            obs="pass_or_value", skip=skip)

    # ---- check_constraints_satisfied on a small PuLP model: |lhs - rhs| < 1 ( = ), lhs - rhs <= 1 ( <= ), rhs - lhs <= 1 ( >= )
    offs = [0.0, 0.875, 1.0, 1.125, 5.0, 9.5, 12.0, -0.875, -1.0, -1.125, -5.0, -12.0]
    cgrid = [(sn, o) for sn in ("Le", "Ge", "Eq") for o in offs]
    cgrid += [(rng.choice(["Le", "Ge", "Eq"]), rng.choice(offs)) for _ in range(12 if quick else 300)]
    for worst_sense, worst_off in cgrid:
        nv = rng.randint(2, 4)
        vs = []
        for k in range(nv):
            slot, prefix = VAL_SLOTS[k % len(VAL_SLOTS)]
            mth = rng.randint(0, 11) if k < len(VAL_SLOTS) else 12 + k
            vs.append((slot, mth, f"{prefix}_Month_{mth}_Variable", eighth(0, 40) if rng.random() < 0.9 else -eighth(0, 4)))
        rows, rterms = [], []
        nr = rng.randint(1, 3)
        worst = rng.randrange(nr)
        for r in range(nr):
            sense = worst_sense if r == worst else rng.choice(["Le", "Ge", "Eq"])
            used = rng.sample(range(nv), rng.randint(1, nv))
            lhs = [(rng.choice([1.0, -1.0, 0.5, 2.0, 1.25, -3.0]), u) for u in used]
            val = sum(Fr(c) * Fr(vs[u][3]) for c, u in lhs)
            off = worst_off if r == worst else rng.choice([0.0, 0.5, -0.5])
            skipped = rng.random() < 0.08
            rhs = float(val - Fr(off))                     # lhs - rhs = off
            if skipped:
                rhs = 7777.0                               # exempt rows are recognised by this constant in the model term
            rows.append({"name": f"Row_{r}_Constraint", "sense": sense, "rhs": rhs,
                         "lhs": [(c, vs[u][2]) for c, u in lhs], "skipped": skipped})
            rterms.append("mk [" + "; ".join(f"t {fq(c)} {vs[u][0]} {vs[u][1]}%nat" for c, u in lhs) + f"] {sense} {fq(rhs)}")
        tbl = "[" + "; ".join(f"({s}, {m}%nat, {fq(x)})" for s, m, _n, x in vs) + "]"
        add({"fn": "check_constraints", "vars": [(nm, x) for _s, _m, nm, x in vs],
             "rows": [{k: v for k, v in r.items() if k != "skipped"} for r in rows],
             "maximize_constraints": [r["name"] for r in rows if r["skipped"]]},
            f"check_constraints_satisfied (fun r => Qeq_bool (rhs r) {fq(7777.0)}) (a_of {tbl}) [" + "; ".join(rterms) + "]")
    return out


def validator_tie(ctx):
    """model (coq/Model/Validator.v) vs code (validate_results.py): pass / raise of every check on generated inputs"""
    ok, bad, _ = ctx.build(["Model/Validator.vo", "Model/LPBool.vo"])
    if not ok:
        ctx.tie_ok = False
        ctx.broken.append(f"Model/Validator.v does not compile: {bad}")
        return
    items = validator_cases(ctx.rng, ctx.quick)
    live = [it for it in items if not it["skip"]]
    res = ctx.run_impl("c16val_impl", {"cases": [_hx(it["case"]) for it in live]}, timeout=600)["results"]
    terms, meta = [], []
    dist, raised = {}, 0
    for it, r in zip(live, res):
        fn = it["case"]["fn"]
        oc = r["outcome"]
        allowed = {"pass", "AssertRejected"} | ({"ValueRejected"} if it["obs"] == "pass_or_value" else set())
        if oc not in allowed:
            raised += 1
            ctx.tie_ok = False
            if raised <= 3:
                ctx.broken.append(f"validator correspondence: {fn} raised {oc} on a generated case")
            ctx.violation(f"C16:validator-model-disagrees:{fn}:raised", f"the real {fn} check raised {oc}: {r.get('msg')}",
                          {"kind": "tie-broken", "case": _hx(it["case"]), "observed": r})
            continue
        impl_true = (oc == "pass") and not (it["obs"] == "silent" and r.get("printed"))
        terms.append(f"agree ({it['term']}) {'true' if impl_true else 'false'}")
        meta.append((it, r, impl_true))
        key = fn + (":passes" if impl_true else ":fires")
        dist[key] = dist.get(key, 0) + 1
        ctx.count(("validator", json.dumps(_hx(it["case"]), sort_keys=True)), nontrivial=True)
    codes = ctx.coq_codes("c16val", VAL_IMPORTS, terms, per_file=80, defs=VAL_DEFS)
    nbad = 0
    for code, (it, r, impl_true) in zip(codes, meta):
        if code != 0:
            nbad += 1
            fn = it["case"]["fn"]
            ctx.tie_ok = False
            if nbad <= 3:
                ctx.broken.append(f"validator correspondence: model and code disagree on {fn}")
            ctx.violation(f"C16:validator-model-disagrees:{fn}",
                          f"Model/Validator.v says the {fn} check {'fires' if impl_true else 'passes'}, the code "
                          f"{'passed' if impl_true else 'fired'} ({r.get('msg', '')})",
                          {"kind": "counterexample", "case": _hx(it["case"]), "observed": r, "coq_term": it["term"]})
    ctx.notes["validator_correspondence"] = {
        "cases": len(terms), "boundary-skipped": len(items) - len(live), "raised_other": raised, "disagreements": nbad,
        "distribution": dict(sorted(dist.items())),
        "what": "each built-in check of validate_results.py called directly (stub interpreter objects with real Food "
                "objects, a small PuLP model for the constraint check) on dyadic inputs; pass / AssertionError (printed / "
                "silent for the print-only round-3 check) compared inside Coq with the boolean of Model/Validator.v"}
    ctx.log(f"validator correspondence: {len(terms)} cases, {len(items) - len(live)} boundary-skipped, {nbad} disagreements")


def validator_tie_guarded(ctx):
    """a crash of the runner or of the Coq evaluation breaks the tie (fail closed) but does not lose the grid"""
    from lib import ImplCrashed, CoqEvalFailed
    try:
        validator_tie(ctx)
    except (ImplCrashed, CoqEvalFailed) as e:
        ctx.tie_ok = False
        ctx.broken.append(f"validator correspondence could not be evaluated: {str(e)[:600]}")
        ctx.violation("C16:validator-model-disagrees:not-evaluated", f"validator correspondence could not be evaluated: {str(e)[:300]}",
                      {"kind": "tie-broken", "error": str(e)[:3000]}, no_input=True)


def run(ctx):
    ctx.level = "other"
    ctx.notes["explanation"] = (
        "Partial. Coq: table rows admissible (finite, by computation, redone on every run) and structural feasibility / "
        "boundedness of the no-feed round without seaweed. Completion of the three CBC solves per cell is runtime behaviour: "
        "the grid is enumerated on the implementation (exhaustive in the thorough tier, seeded sample in the quick tier); a "
        "failing cell is a concrete failing input. Cells that fail on the unchanged tree are listed as known findings.")
    ctx.rule = ("case = one grid cell (country or world, preset) run to completion with the real pipeline; pass = no exception, "
                "finite non-negative percent fed, no validation banner printed; distinct = (iso3, preset); non-trivial = every "
                "cell (each is a full three-round run)")
    ctx.trusted += ["the preset list harness/presets.py (YAML presets are read from /repo at run time; manuscript presets are "
                    "transcribed with the required key ratio_stocks_untouched)"]
    okg = ctx.regen(["gen_country_table"]) if os.path.exists("/verif/harness/gen_country_table.py") else True
    ctx.check_props()
    validator_tie_guarded(ctx)
    codes = all_codes()
    cp = presets.country_presets(extended=True)
    cells = [{"iso3": c, "preset": n, "option": o} for n, o in cp.items() for c in codes]
    wcells = [{"iso3": "WOR", "preset": n, "option": o} for n, o in presets.world().items()]
    total = len(cells) + len(wcells)
    if ctx.quick:
        known_cells = [(f["key"].split(":")[1], f["key"].split(":", 2)[2]) for f in ctx.known if f["key"].count(":") >= 2
                       and f["key"].split(":")[1].isupper() and len(f["key"].split(":")[1]) == 3]
        pick = ctx.rng.sample(cells, 150)
        # a couple of recorded failing cells run first (they must still be recognised), plus one world preset
        extra = [c for c in cells if (c["iso3"], c["preset"]) in known_cells][:2]
        # sentinels: the countries the code itself special-cases (known-to-fail rewrites, loosened tolerances, the NZL constant)
        # and very small ones, under the presets that stress them
        sc = {"SLV", "ALB", "ECU", "LSO", "DJI", "TCD", "MUS", "NZL", "LUX"}
        sp = {"ms_example_all_resilient_foods", "ms_example_seaweed", "net_nuclear_winter_reduced", "net_nuclear_resilient",
              "var_shutoff=continued"}
        sentinels = [c for c in cells if c["iso3"] in sc and c["preset"] in sp]
        # every country's data rows (species mix, option rows per breeding strategy) at least once under each of the two
        # non-default breeding strategies: data-dependent failures live in single rows of the species / country tables
        sentinels += [c for c in cells if c["preset"] in ("ms_example_scenario", "var_meat_strategy=baseline_breeding")]
        # countries whose runs are numerically tight or take rarely used paths (MNG: meat re-timing between rounds; NZL: the
        # special-cased constant; ISR: tight under the manuscript presets) under every shipped YAML preset and manuscript preset
        tight = {"MNG", "NZL", "ISR"}
        sentinels += [c for c in cells if c["iso3"] in tight and not c["preset"].startswith(("var_", "msv_", "blv_"))]
        seen = set()
        uniq = []
        for c in extra + sentinels + pick:
            if (c["iso3"], c["preset"]) not in seen:
                seen.add((c["iso3"], c["preset"]))
                uniq.append(c)
        # every world preset (the world aggregate takes its own path through the dispatcher and the crop model)
        cells = uniq + wcells
    else:
        cells = cells + wcells
    ms = dict(presets.fig1()["ms_no_adaptations"])
    ms["end_simulation_stocks_ratio"] = ms.pop("ratio_stocks_untouched")
    res = ctx.run_impl("c16_impl", {"cells": cells, "procs": 15, "check_shipped_manuscript": ms}, timeout=20000)
    nfail = 0
    by_preset = {}
    for c in res["cells"]:
        ctx.count((c["iso3"], c["preset"]))
        by_preset[c["preset"]] = by_preset.get(c["preset"], 0) + 1
        if not c["ok"]:
            nfail += 1
            what = c.get("error", "bad percent fed") + ": " + c.get("detail", str(c.get("percent_fed")))[:160]
            ctx.violation(f"C16:{c['iso3']}:{c['preset']}", f"{c['iso3']} under {c['preset']} does not complete: {what}",
                          {"kind": "counterexample", "cell": {"iso3": c["iso3"], "preset": c["preset"]},
                           "option": next(x["option"] for x in cells if x["iso3"] == c["iso3"] and x["preset"] == c["preset"]),
                           "trace": c.get("trace", "")})
        elif c.get("banner"):
            nfail += 1
            ctx.violation(f"C16:banner:{c['iso3']}:{c['preset']}", f"{c['iso3']} under {c['preset']} prints a validation banner: "
                          + c.get("banner_text", "")[:200].replace("\n", " "),
                          {"kind": "counterexample", "cell": {"iso3": c["iso3"], "preset": c["preset"]},
                           "option": next(x["option"] for x in cells if x["iso3"] == c["iso3"] and x["preset"] == c["preset"])})
        else:
            ctx.sample({"iso3": c["iso3"], "preset": c["preset"], "percent_fed": c["percent_fed"]}, limit=5)
    if res.get("shipped_manuscript") != "accepted":
        ctx.violation(MS_KEY, f"the manuscript script's own option dictionaries are rejected by the dispatcher: {res.get('shipped_manuscript')}",
                      {"kind": "counterexample", "option": ms})
    ctx.traces = len(res["cells"])
    ctx.extra_cov["exhaustive"] = not ctx.quick
    ctx.notes["grid"] = {"cells_total": total, "cells_run": len(res["cells"]), "failing": nfail, "presets": len(cp) + len(presets.world()),
                         "countries": len(codes), "per_preset_run": by_preset if ctx.quick else "all countries"}


def replay(rep):
    from lib import Ctx
    ctx = Ctx("C16", "quick", int(rep.get("seed", 0)))
    if "case" in rep and "coq_term" in rep:      # a validator-correspondence case: re-run the real check, re-evaluate the model
        r = ctx.run_impl("c16val_impl", {"cases": [rep["case"]]})["results"][0]
        impl_true = r["outcome"] == "pass" and not (rep["case"]["fn"] == "round3_vs_round1" and r.get("printed"))
        code = ctx.coq_codes("c16val_replay", VAL_IMPORTS, [f"agree ({rep['coq_term']}) {'true' if impl_true else 'false'}"],
                             defs=VAL_DEFS)[0]
        print("code:", r, "| model agrees:", code == 0)
        return 0 if code == 0 else 1
    if "cell" not in rep:
        print("replay:", rep.get("what"), rep.get("broken"))
        return 1
    res = ctx.run_impl("c16_impl", {"cells": [{"iso3": rep["cell"]["iso3"], "preset": rep["cell"]["preset"], "option": rep["option"]}],
                                    "procs": 1})
    c = res["cells"][0]
    print(c)
    return 0 if (c["ok"] and not c.get("banner")) else 1
