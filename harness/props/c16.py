"""C16 - every country completes under every documented preset.
proof : Props/C16.v - (a) all 164 rows of the shipped table are admissible (row_ok, by computation over the regenerated
        table), (b) the no-feed human-maximising round is never infeasible for a structural reason when seaweed is not in
        the food set (existence of a feasible assignment for every admissible input with zero charges) and its objective is
        bounded; a concrete seaweed instance that IS infeasible shows why seaweed needs the data.
grid  : the fixed grid (164 countries + world) x (13 shipped YAML presets, 10 manuscript presets, single-option variations of
        the nuclear-winter base, of the manuscript resilient-food example and of the baseline-climate preset, horizons 48..108) is ENUMERATED ON THE IMPLEMENTATION: thorough = every cell, quick = a seeded sample.  This part
        is testing and is labelled so (level 'other')."""
import csv
import json
import os

import presets

MS_KEY = "C16:manuscript-presets-lack-ratio_stocks_untouched@plot_manuscript_figures.py"


def all_codes():
    from lib import REPO
    return [r["iso3"] for r in csv.DictReader(open(os.path.join(REPO, "data", "no_food_trade", "computer_readable_combined.csv")))]


def run(ctx):
    ctx.level = "other"
    ctx.notes["explanation"] = (
        "Partial. Coq: table rows admissible (finite, by computation, redone on every run) and structural feasibility / "
        "boundedness of the no-feed round without seaweed. Completion of the three CBC solves per cell is runtime behaviour: "
        "the grid is enumerated on the implementation (exhaustive in the thorough tier, seeded sample in the quick tier); a "
        "failing cell is a concrete failing input. Cells that fail on the unchanged tree are listed as known findings.")
    ctx.rule = ("case = one grid cell (country or world, preset) run to completion with the real pipeline; pass = no exception, "
                "finite non-negative percent fed, no validation banner printed; distinct = (iso3, preset); non-trivial = every "
                "cell (each is a full three-round run)")
    ctx.trusted += ["the preset list harness/presets.py (YAML presets are read from /repo at run time; manuscript presets are "
                    "transcribed with the required key ratio_stocks_untouched)"]
    okg = ctx.regen(["gen_country_table"]) if os.path.exists("/verif/harness/gen_country_table.py") else True
    ctx.check_props()
    codes = all_codes()
    cp = presets.country_presets(extended=True)
    cells = [{"iso3": c, "preset": n, "option": o} for n, o in cp.items() for c in codes]
    wcells = [{"iso3": "WOR", "preset": n, "option": o} for n, o in presets.world().items()]
    total = len(cells) + len(wcells)
    if ctx.quick:
        known_cells = [(f["key"].split(":")[1], f["key"].split(":", 2)[2]) for f in ctx.known if f["key"].count(":") >= 2
                       and f["key"].split(":")[1].isupper() and len(f["key"].split(":")[1]) == 3]
        pick = ctx.rng.sample(cells, 150)
        # a couple of recorded failing cells run first (they must still be recognised), plus one world preset
        extra = [c for c in cells if (c["iso3"], c["preset"]) in known_cells][:2]
        # sentinels: the countries the code itself special-cases (known-to-fail rewrites, loosened tolerances, the NZL constant)
        # and very small ones, under the presets that stress them
        sc = {"SLV", "ALB", "ECU", "LSO", "DJI", "TCD", "MUS", "NZL", "LUX"}
        sp = {"ms_example_all_resilient_foods", "ms_example_seaweed", "net_nuclear_winter_reduced", "net_nuclear_resilient",
              "var_shutoff=continued"}
        sentinels = [c for c in cells if c["iso3"] in sc and c["preset"] in sp]
        # every country's data rows (species mix, option rows per breeding strategy) at least once under each of the two
        # non-default breeding strategies: data-dependent failures live in single rows of the species / country tables
        sentinels += [c for c in cells if c["preset"] in ("ms_example_scenario", "var_meat_strategy=baseline_breeding")]
        cells = extra + sentinels + pick + [ctx.rng.choice(wcells)]
    else:
        cells = cells + wcells
    ms = dict(presets.fig1()["ms_no_adaptations"])
    ms["end_simulation_stocks_ratio"] = ms.pop("ratio_stocks_untouched")
    res = ctx.run_impl("c16_impl", {"cells": cells, "procs": 15, "check_shipped_manuscript": ms}, timeout=7000)
    nfail = 0
    by_preset = {}
    for c in res["cells"]:
        ctx.count((c["iso3"], c["preset"]))
        by_preset[c["preset"]] = by_preset.get(c["preset"], 0) + 1
        if not c["ok"]:
            nfail += 1
            what = c.get("error", "bad percent fed") + ": " + c.get("detail", str(c.get("percent_fed")))[:160]
            ctx.violation(f"C16:{c['iso3']}:{c['preset']}", f"{c['iso3']} under {c['preset']} does not complete: {what}",
                          {"kind": "counterexample", "cell": {"iso3": c["iso3"], "preset": c["preset"]},
                           "option": next(x["option"] for x in cells if x["iso3"] == c["iso3"] and x["preset"] == c["preset"]),
                           "trace": c.get("trace", "")})
        elif c.get("banner"):
            nfail += 1
            ctx.violation(f"C16:banner:{c['iso3']}:{c['preset']}", f"{c['iso3']} under {c['preset']} prints a validation banner: "
                          + c.get("banner_text", "")[:200].replace("\n", " "),
                          {"kind": "counterexample", "cell": {"iso3": c["iso3"], "preset": c["preset"]},
                           "option": next(x["option"] for x in cells if x["iso3"] == c["iso3"] and x["preset"] == c["preset"])})
        else:
            ctx.sample({"iso3": c["iso3"], "preset": c["preset"], "percent_fed": c["percent_fed"]}, limit=5)
    if res.get("shipped_manuscript") != "accepted":
        ctx.violation(MS_KEY, f"the manuscript script's own option dictionaries are rejected by the dispatcher: {res.get('shipped_manuscript')}",
                      {"kind": "counterexample", "option": ms})
    ctx.traces = len(res["cells"])
    ctx.extra_cov["exhaustive"] = not ctx.quick
    ctx.notes["grid"] = {"cells_total": total, "cells_run": len(res["cells"]), "failing": nfail, "presets": len(cp) + len(presets.world()),
                         "countries": len(codes), "per_preset_run": by_preset if ctx.quick else "all countries"}


def replay(rep):
    from lib import Ctx
    ctx = Ctx("C16", "quick", int(rep.get("seed", 0)))
    if "cell" not in rep:
        print("replay:", rep.get("what"), rep.get("broken"))
        return 1
    res = ctx.run_impl("c16_impl", {"cells": [{"iso3": rep["cell"]["iso3"], "preset": rep["cell"]["preset"], "option": rep["option"]}],
                                    "procs": 1})
    c = res["cells"][0]
    print(c)
    return 0 if (c["ok"] and not c.get("banner")) else 1
