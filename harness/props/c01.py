"""C01 - reported allocations never use food that does not exist.
proof : Props/C01.v over Model/LP.v (every horizon, every input, every feasible assignment incl. after the tie-break solves)
tie   : Model/LP.build compared INSIDE Coq with the rows PuLP holds after Optimizer.add_variables_and_constraints_to_model
        (name-free multiset, variables identified through the optimiser's variables dictionary), on synthetic instances
        (all flag subsets, both regimes, both optimisation types, N = 1..26) and on every optimiser call of real runs
audit : (a) the final values of every captured solve satisfy the MODEL's rows within 1e-6 (evaluated in Coq),
        (b) the property itself evaluated from the supplies on the final values (Python, no model)."""
import json
import os

import lpaudit
import lpcase
import lpgen
import pools
from lib import fq

TOL = 1e-9
EPS = 1e-6


def solve_key(run, k, rec):
    o = run["option"]
    return (run["iso3"], o.get("scenario"), o.get("ratio_stocks_untouched"), o.get("shutoff"), o.get("waste"), k, rec["ty"])


def run(ctx):
    ctx.level = "proof"
    ctx.rule = ("case = one linear programme: (a) synthetic optimiser inputs (seeded; dyadic values; every ADD_* subset, both "
                "storage regimes, to_humans/to_animals, N in 1..26, population on both sides of 1e7) built by the real "
                "Optimizer, (b) every Optimizer call of real three-round country runs.  distinct = hash of the inputs; "
                "non-trivial = the LP has at least one resource and (for solved cases) the solver used at least one stock")
    ctx.trusted += ["hand model coq/Model/LP.v of optimizer.py's row families, tied by the row-multiset comparison "
                    "(Model/LPCheck.compare_lp, tolerance 1e-9 relative on coefficients and right-hand sides)",
                    "modelled, not verified: PuLP's expression algebra (its resulting rows are compared), CBC (its output "
                    "is checked against the model's rows within 1e-6 and against the property computed from the supplies)",
                    "fat/protein tracking is not modelled: 'required' terminates the program in the shipped code"]
    ctx.assumptions += ["admissible inputs: retail waste percentages in [0,100), BILLION_KCALS_NEEDED > 0, SEAWEED_KCALS > 0"]
    ctx.check_props()
    ok, bad, out = ctx.build(["Model/LPCheck.vo"])
    if not ok:
        ctx.tie_ok = False
        ctx.broken.append(f"Model/LPCheck does not compile: {bad}")
        audit_only(ctx)
        return
    nsyn = 60 if ctx.quick else 1200
    nsolve = 40 if ctx.quick else 400
    nreal = 4 if ctx.quick else 64
    rng = ctx.rng
    specs = [{"spec": lpgen.gen_spec(rng), "solve": False} for _ in range(nsyn)]
    specs += [{"spec": lpgen.gen_spec(rng, solvable=True, nmax=16), "solve": True} for _ in range(nsolve)]
    specs += [{"spec": lpgen.gen_targeted(rng, k), "solve": True} for k in range(16 if ctx.quick else 240)]
    corpus = load_corpus()
    specs = [{"spec": c, "solve": True} for c in corpus] + specs
    must = [pools.option(ratio_stocks_untouched="no_stored_between_years", scenario="all_resilient_foods", shutoff="continued"),
            pools.option(scenario="seaweed", shutoff="continued"),
            dict(pools.BASELINE_OPTION)]
    real = pools.sample_runs(rng, nreal, must=must[: (2 if ctx.quick else 3)], countries=["USA", "ARG", "BRA", "IND", "CHN", "FRA"] if ctx.quick else None, horizons=(120,) if ctx.quick else (48, 72, 120))
    # a surplus country with both industrial foods and a continued shut-off: every per-source feed / biofuel series is non-zero
    real.append({"iso3": "ARG", "option": pools.option(scenario="industrial_foods", shutoff="continued")})
    # baseline climate, continued shut-off, baseline breeding: months without harvest while stored crops go to feed (fix b2b514c)
    real.append({"iso3": "ARG", "option": pools.option(grasses="baseline", crop_disruption="zero", fish="baseline", nutrition="baseline", ratio_stocks_untouched="baseline", shutoff="continued", meat_strategy="baseline_breeding")})
    res = ctx.run_impl("lp_impl", {"synthetic": specs, "real": real, "rows_for_real": True, "procs": 14})
    dist = {"synthetic_built": 0, "synthetic_solved": 0, "synthetic_infeasible": 0, "assert_rejected": 0,
            "real_runs": 0, "real_solves": 0, "to_humans": 0, "to_animals": 0, "flags": {}, "N": {}}
    file_specs, meta = [], []
    # ---------------- synthetic
    for item, rec in zip(specs, res["synthetic"]):
        d = item["spec"]
        ctx.count(("syn", json.dumps(d, sort_keys=True)), nontrivial=any(d[k] for k in lpcase.BOOLS[:6]))
        dist["N"][str(d["NM"])] = dist["N"].get(str(d["NM"]), 0) + 1
        fl = "".join("1" if d[k] else "0" for k in lpcase.BOOLS[:7])
        dist["flags"][fl] = dist["flags"].get(fl, 0) + 1
        dist[d["ty"]] += 1
        if "error" in rec:
            if rec["error"] == "AssertRejected" and not item["solve"]:
                dist["assert_rejected"] += 1
                # the model must predict the builder's assertion
                file_specs.append((f"Definition x_in : lp_in := {lpcase.coq_lp_in(d)}.",
                                   [f"(if crops_assert_ok x_in then 7 else 0)%nat"]))
                meta.append(("assert", item, rec))
            elif rec["error"] == "AssertRejected" and item["solve"]:
                dist["synthetic_infeasible"] += 1   # solver status != 1: nothing to audit
            else:
                ctx.tie_ok = False
                ctx.broken.append(f"synthetic instance crashed the implementation: {rec}")
                ctx.violation("C01:tie:impl-crash", f"{rec}", {"kind": "tie-broken", "spec": d, "impl": rec})
            continue
        rec["lp_in"].update({"ty": d["ty"]})
        defs = lpcase.instance_defs("x", rec)
        scale = lpcase.scale_of(rec["lp_in"])
        terms = [f"compare_lp {fq(TOL)} {fq(scale)} x_in {lpcase.coq_ty(rec['ty'])} x_rows"]
        if "values" in rec:
            dist["synthetic_solved"] += 1
            v1 = rec["percent_fed_from_model"]
            terms.append(f"check_feasible2 {fq(EPS)} x_in {lpcase.coq_ty(rec['ty'])} {fq(v1)} x_vals")
        else:
            dist["synthetic_built"] += 1
        file_specs.append((defs, terms))
        meta.append(("syn", item, rec))
        ctx.sample({"kind": "synthetic", "N": d["NM"], "ty": d["ty"], "flags": fl, "rows": len(rec["rows"])}, limit=3)
    # ---------------- real
    for run_ in res["real"]:
        if "error" in run_:
            # a failing run is C16's business; here it only reduces coverage
            dist.setdefault("real_failed", []).append([run_["iso3"], run_["error"], run_.get("detail", "")[:120]])
            continue
        dist["real_runs"] += 1
        for k, rec in enumerate(run_["solves"]):
            if "capture_error" in rec:
                ctx.tie_ok = False
                ctx.broken.append(f"capture failed on {run_['iso3']}: {rec['capture_error']}")
                ctx.violation("C01:tie:capture", rec["capture_error"], {"kind": "tie-broken", "run": run_["iso3"], "option": run_["option"]})
                continue
            dist["real_solves"] += 1
            dist[rec["ty"]] += 1
            ctx.count(solve_key(run_, k, rec), nontrivial=any(t for _, t in lpaudit.tightness(rec)))
            ctx.traces += 1
            defs = lpcase.instance_defs("x", rec)
            scale = lpcase.scale_of(rec["lp_in"])
            ty = lpcase.coq_ty(rec["ty"])
            file_specs.append((defs, [f"compare_lp {fq(TOL)} {fq(scale)} x_in {ty} x_rows",
                                      f"check_feasible2 {fq(EPS)} x_in {ty} {fq(rec['percent_fed_from_model'])} x_vals"]))
            meta.append(("real", {"iso3": run_["iso3"], "option": run_["option"], "solve": k}, rec))
        ctx.sample({"kind": "real", "iso3": run_["iso3"], "option": {k: v for k, v in run_["option"].items() if k != "title"},
                    "solves": [[s["ty"], len(s.get("rows", [])), s.get("percent_fed_from_model")] for s in run_["solves"]]}, limit=6)
    ctx.notes["input_distribution"] = dist
    ctx.log(f"evaluating {len(file_specs)} instances in Coq")
    codes = ctx.coq_codes_files("c01", lpcase.IMPORTS, file_specs, timeout=1500)
    nbad = 0
    for (kind, item, rec), cs in zip(meta, codes):
        where = item if kind == "real" else {"synthetic": True}
        if kind == "assert":
            if cs[0] != 0:
                ctx.tie_ok = False
                ctx.broken.append("builder assertion (relocated crops need N-1 > harvest delay) not predicted by the model")
                ctx.violation("C01:tie:assert", "implementation rejected an instance the model builds",
                              {"kind": "tie-broken", "spec": item["spec"]})
            continue
        if cs[0] != 0:
            nbad += 1
            ctx.tie_ok = False
            if len(ctx.broken) < 5:
                ctx.broken.append(f"correspondence Model/LP.build vs Optimizer rows: code {cs[0]} on {where}")
        if len(cs) > 1 and cs[1] != 0:
            key = "C01:model-rows-violated-by-solution"
            ctx.violation(key, f"final values violate the model's rows (code {cs[1]}) on {where}",
                          {"kind": "counterexample", "where": where, "lp_in": rec["lp_in"], "values": rec["values"], "code": cs[1]})
        # the property itself, from the supplies
        if "values" in rec:
            found = lpaudit.audit_c01(rec)
            if kind == "real":
                rr = lpaudit.audit_reported(rec)
                found += rr
                ctx.notes["reported_series_audited"] = ctx.notes.get("reported_series_audited", 0) + (1 if "reported" in rec else 0)
            for key, what, detail in found:
                rep = {"kind": "counterexample", "where": where, "detail": detail, "ty": rec["ty"]}
                if kind == "real":
                    rep["rerun"] = {"iso3": item["iso3"], "option": item["option"], "solve": item["solve"]}
                else:
                    rep["spec"] = item["spec"]
                ctx.violation(key, what + f" [{where}]", rep)
    ctx.notes["tie_mismatches"] = nbad
    if nbad:
        # search already ran (audits above); if it found nothing the driver reports no-failing-input-found
        first = next((m for m, c in zip(meta, codes) if m[0] != "assert" and c[0] != 0), None)
        if first is not None and not ctx.violations:
            save_corpus_hint(ctx, first)


def audit_only(ctx):
    """fallback when the Coq side cannot be built: still search for failing inputs on real runs"""
    real = pools.sample_runs(ctx.rng, 4)
    res = ctx.run_impl("lp_impl", {"synthetic": [], "real": real, "rows_for_real": False, "procs": 8})
    for run_ in res["real"]:
        for k, rec in enumerate(run_.get("solves", [])):
            ctx.count(solve_key(run_, k, rec))
            for key, what, detail in lpaudit.audit_c01(rec):
                ctx.violation(key, what, {"kind": "counterexample", "rerun": {"iso3": run_["iso3"], "option": run_["option"], "solve": k},
                                          "detail": detail})


def load_corpus():
    d = "/verif/corpus/C01"
    out = []
    if os.path.isdir(d):
        for f in sorted(os.listdir(d)):
            if f.endswith(".json"):
                out.append(json.load(open(os.path.join(d, f)))["spec"])
    return out


def save_corpus_hint(ctx, first):
    kind, item, rec = first
    p = os.path.join(ctx.work, "first_tie_mismatch.json")
    json.dump({"kind": kind, "item": item, "lp_in": rec["lp_in"], "rows": rec.get("rows")}, open(p, "w"))
    ctx.log("first tie mismatch saved to", p)


def replay(rep):
    """re-run the recorded instance against /repo and re-evaluate the audit"""
    import subprocess
    import sys
    from lib import Ctx
    ctx = Ctx("C01", "quick", int(rep.get("seed", 0)))
    if "rerun" in rep:
        r = rep["rerun"]
        res = ctx.run_impl("lp_impl", {"synthetic": [], "real": [{"iso3": r["iso3"], "option": r["option"]}], "rows_for_real": False})
        recs = res["real"][0].get("solves", [])
    elif "spec" in rep:
        res = ctx.run_impl("lp_impl", {"synthetic": [{"spec": rep["spec"], "solve": True}], "real": []})
        recs = [x for x in res["synthetic"] if "values" in x]
    else:
        print("replay file names no concrete input:", rep.get("what"))
        print("no longer checks:", rep.get("broken"))
        return 1
    found = []
    for rec in recs:
        found += [k for k, _, _ in lpaudit.audit_c01(rec) + lpaudit.audit_reported(rec)]
    print("violations reproduced:", found)
    return 1 if rep.get("key") in found or (found and rep.get("key", "").startswith("C01:tie")) else 0
