"""C17 - shipped input tables are what the import pipeline derives; the combined table is valid; the
percentage-averaging helper ignores impossible values and stays within the range of its valid inputs.
proof: Props/C17.v (table validity by vm_compute over the regenerated Gen/CountryTable*.v; helper for all vectors);
tie: translator gen_country_table (cell-by-cell against pandas), correspondence of verify_country_data with
     Model/Tables.verify_ok on perturbed rows and of weighted_average_percentages with Model/Tables.wavg;
audit: validity clauses and helper clauses evaluated directly on the implementation;
regeneration: the 21 import scripts are re-run on a scratch copy and every table is byte-compared (testing, not proof)."""
import csv
import filecmp
import json
import math
import os
import re
import shutil
import subprocess
import time
from decimal import Decimal
from fractions import Fraction

import lib
from lib import fq, fql, cstr, clist, cbool, cnat

KEY = "C17"
IMPORTS = "From Allfed Require Import Base.StrUtil Model.Tables Gen.CountryTable."
DEFS = "Definition trows : list row := map (decode_row columns) raw_rows.\n"
F6_KEY = "C17:wavg-range@import_utilities.weighted_average_percentages"
SENTINEL = 9.37e36

MONTHS = ["jan", "feb", "mar", "apr", "may", "jun", "jul", "aug", "sep", "oct", "nov", "dec"]
FRACTION_COLS = {"percent_of_global_production", "percent_of_global_capex", "fraction_crop_area", "max_area_fraction",
                 "new_area_fraction", "initial_built_fraction", "initial_seaweed_fraction", "power_law_improvement"}


def is_fraction(c):
    return c.startswith(("seasonality_m", "distribution_loss_", "retail_waste_")) or c in FRACTION_COLS


# ------------------------------------------------------------------ regeneration

def import_scripts(repo):
    """script names in the order of scripts/run_all_imports.sh"""
    txt = open(os.path.join(repo, "scripts/run_all_imports.sh")).read()
    return re.findall(r"^\s*python\s+(\S+\.py)\s*$", txt, flags=re.M)


def regenerate(repo, work, log=print, keep=False):
    """copy repo, re-run the import scripts, byte-compare.  Returns dict(ok, scripts, compared, differing, failed, wall)"""
    t0 = time.time()
    copy = os.path.join(work, "copy")
    subprocess.run(["rm", "-rf", copy])
    os.makedirs(work, exist_ok=True)
    subprocess.run(["rsync", "-a", "--exclude", ".git", "--exclude", "results", "--exclude", "__pycache__",
                    repo.rstrip("/") + "/", copy + "/"], check=True)
    subprocess.run(["git", "init", "-q"], cwd=copy, check=True)
    scripts = import_scripts(repo)
    pdir = os.path.join(copy, "data/no_food_trade/processed_data")
    shipped = sorted(os.listdir(os.path.join(repo, "data/no_food_trade/processed_data")))
    # the regenerated files must really be written by the scripts: remove the copies first
    for f in os.listdir(pdir):
        os.remove(os.path.join(pdir, f))
    comb = os.path.join(copy, "data/no_food_trade/computer_readable_combined.csv")
    if os.path.exists(comb):
        os.remove(comb)
    env = dict(os.environ)
    env.update({"PYTHONPATH": copy, "MPLBACKEND": "Agg", "PYTHONHASHSEED": "0", "OMP_NUM_THREADS": "1",
                "OPENBLAS_NUM_THREADS": "1"})
    failed = []
    sdir = os.path.join(copy, "src/import_scripts_no_food_trade")
    for s in scripts:
        p = subprocess.run([lib.IMPL_PY, s], cwd=sdir, env=env, stdout=subprocess.PIPE, stderr=subprocess.STDOUT, text=True,
                           timeout=900)
        if p.returncode != 0:
            failed.append({"script": s, "tail": p.stdout[-400:]})
    differing, compared = [], 0
    pairs = [(os.path.join(repo, "data/no_food_trade/processed_data", f), os.path.join(pdir, f), "processed_data/" + f)
             for f in shipped]
    pairs.append((os.path.join(repo, "data/no_food_trade/computer_readable_combined.csv"), comb,
                  "computer_readable_combined.csv"))
    for a, b, name in pairs:
        compared += 1
        if not os.path.exists(b):
            differing.append({"file": name, "what": "not regenerated"})
        elif not filecmp.cmp(a, b, shallow=False):
            differing.append({"file": name, "what": first_difference(a, b)})
    extra = sorted(set(os.listdir(pdir)) - set(shipped))
    for f in extra:
        differing.append({"file": "processed_data/" + f, "what": "produced by the scripts but not shipped"})
    if not keep:
        subprocess.run(["rm", "-rf", copy])
    return {"ok": not failed and not differing, "scripts": scripts, "compared": compared, "differing": differing,
            "failed": failed, "wall_s": round(time.time() - t0, 1)}


def first_difference(a, b):
    try:
        ra = list(csv.reader(open(a, newline="")))
        rb = list(csv.reader(open(b, newline="")))
    except Exception as e:  # pragma: no cover
        return f"bytes differ ({e})"
    if len(ra) != len(rb):
        return f"{len(ra)} lines shipped, {len(rb)} regenerated"
    n = 0
    first = None
    for i, (x, y) in enumerate(zip(ra, rb)):
        if x != y:
            for j, (u, v) in enumerate(zip(x, y)):
                if u != v:
                    n += 1
                    if first is None:
                        col = ra[0][j] if j < len(ra[0]) else j
                        first = f"line {i + 1} ({x[0] if x else ''}) column {col}: shipped {u!r}, regenerated {v!r}"
            if len(x) != len(y) and first is None:
                first = f"line {i + 1}: {len(x)} vs {len(y)} fields"
    return f"{n} cells differ; first: {first}" if first else "bytes differ (quoting / line ends)"


# ------------------------------------------------------------------ table audit (implementation side values)

def read_text_table(repo):
    with open(os.path.join(repo, "data/no_food_trade/computer_readable_combined.csv"), newline="") as f:
        rows = list(csv.reader(f))
    return rows[0], rows[1:]


def table_audit(ctx, t):
    """every clause of the validity part of C17 on what pandas reads; ties the translator's cells to pandas'"""
    header, body = read_text_table(lib.REPO)
    cols = t["columns"]
    n = 0
    if cols != header:
        ctx.tie_ok = False
        ctx.broken.append("pandas and csv disagree on the header")
        ctx.violation("C17:tie:header", "header differs", {"kind": "tie-broken"})
        return

    def bad(what, code, col, val, kind="counterexample"):
        nonlocal n
        n += 1
        if n <= 5:
            ctx.violation(f"C17:table:{what}@{code}:{col}", f"{code} {col} = {val}: {what}",
                          {"kind": kind, "call": "pd.read_csv(computer_readable_combined.csv)", "iso3": code, "column": col,
                           "observed": val, "requires": what})

    if len(t["rows"]) != 164:
        bad("row count is not 164", "*", "*", len(t["rows"]))
    codes = [r[0] for r in t["rows"]]
    names = [r[1] for r in t["rows"]]
    if len(set(codes)) != len(codes):
        bad("duplicate country code", sorted(c for c in set(codes) if codes.count(c) > 1)[0], "iso3", "twice")
    if len(set(names)) != len(names):
        bad("duplicate country name", "*", "country", "twice")
    if set(codes) != set(t["expected_codes"]):
        bad("codes differ from ImportUtilities.country_codes", "*", "iso3",
            {"missing": sorted(set(t["expected_codes"]) - set(codes))[:5], "extra": sorted(set(codes) - set(t["expected_codes"]))[:5]})
    for code, col in t["null_cells"]:
        bad("missing value", code, col, "NaN")
    for (code, name, vals), text, ver in zip(t["rows"], body, t["verify"]):
        if ver is not None:
            bad("verify_country_data rejects the row: " + ver, code, "*", "")
        if text[0] != code or text[1] != name:
            ctx.tie_ok = False
            bad("translator and pandas read different rows", code, "iso3", text[0], "tie-broken")
            continue
        seas = 0.0
        for c, v, tx in zip(cols[2:], vals, text[2:]):
            ctx.count(n=1)
            if not isinstance(v, float):
                if v != "nan" or tx.strip() not in ("", "nan", "NaN"):
                    bad("not a finite number", code, c, v)
                continue
            try:
                d = float(Decimal(tx))
            except Exception:
                bad("not a number in the file", code, c, tx)
                continue
            if abs(d - v) > 1e-12 * max(abs(d), 1e-300):
                ctx.tie_ok = False
                bad("translator (decimal text) and pandas disagree", code, c, [tx, v], "tie-broken")
            if c.startswith("crop_reduction_year"):
                if not v > -1 - 1e-8:
                    bad("crop reduction below -100 %", code, c, v)
            elif c.startswith("grasses_reduction_year"):
                if not v >= -1:
                    bad("grass reduction below -100 %", code, c, v)
            elif is_fraction(c):
                if not 0 <= v <= 1:
                    bad("fraction outside [0,1]", code, c, v)
            elif not v >= 0:
                bad("negative quantity", code, c, v)
            if c.startswith("seasonality_m"):
                seas += v
        if abs(seas - 1) > 1e-9:
            bad("seasonality shares do not sum to 1", code, "seasonality_m*", seas)
    ctx.notes["table_audit"] = {"rows": len(t["rows"]), "cells": len(t["rows"]) * (len(cols) - 2), "failures": n}
    for i in range(len(t["rows"])):
        ctx.nontrivial.add(f"row{i}")


# ------------------------------------------------------------------ verify_country_data correspondence

BOUNDED = {"population": (10000.0, 1e10), "grasses_baseline": (0, 20000.0), "dairy": (0, 1e9), "chicken": (0, 1e9),
           "pork": (0, 1e9), "beef": (0, 1e9), "small_animals": (0, 100e9), "medium_animals": (0, 10e9),
           "large_animals": (0, 10e9), "dairy_cows": (0, 1e9), "biofuel_kcals": (0, 1e9), "biofuel_protein": (0, 1e9),
           "biofuel_fat": (0, 1e9), "feed_kcals": (0, 2e9), "feed_protein": (0, 1e9), "feed_fat": (0, 1e9),
           "crop_kcals": (0, 10e9), "crop_protein": (0, 10e9), "crop_fat": (0, 10e9), "distribution_loss_crops": (0, 1.0),
           "distribution_loss_sugar": (0, 1.0), "distribution_loss_meat": (0, 1.0), "distribution_loss_dairy": (0, 1.0),
           "distribution_loss_seafood": (0, 1.0), "retail_waste_baseline": (0, 1.0), "retail_waste_price_double": (0, 1.0),
           "retail_waste_price_triple": (0, 1.0), "wood_pulp_tonnes": (0, 1e9), "crop_area_1000ha": (0, 2e9),
           "milk_yield_kg_per_milk_bearing_animal_per_year": (0, 20000.0), "kg_meat_per_pig": (0, 200.0),
           "kg_meat_per_chicken": (0, 5.0)}


def gen_verify_cases(rng, header, nrows, n, exhaustive):
    cases = []
    numeric = header[2:]

    def add(row, ovs, why):
        cases.append({"row": row, "ovs": ovs, "why": why})

    # boundaries of every asserted column (exhaustive over columns, rows drawn)
    for c, (lo, hi) in BOUNDED.items():
        for v in [lo, hi, lo - 1, hi - (0.0625 if hi <= 200 else 1), hi + 1, (lo + hi) / 2, "nan", -0.0078125, lo + 0.5]:
            add(rng.randrange(nrows), [[c, v]], "bound")
    for i in range(1, 11):
        for v in [-1.0, -1 - 1e-9, -1 - 2e-8, -1 - 1e-7, -1.5, -0.5, 3.0, "nan", -1 + 2.0 ** -30]:
            add(rng.randrange(nrows), [[f"crop_reduction_year{i}", v]], "crop_reduction")
        for v in [-1.0, -1 - 1e-9, -1 - 1e-7, -1.5, -0.5, 3.0, "nan"]:
            add(rng.randrange(nrows), [[f"grasses_reduction_year{i}", v]], "grasses_reduction")
    for m in MONTHS:
        for v in [-5.0, -1e-9, -1e-7, 0.0, 10e9, 10e9 - 1, 10e9 + 1, "nan", 1e6]:
            add(rng.randrange(nrows), [[f"stocks_kcals_{m}", v]], "stocks")
    for i in range(1, 13):
        for dv in [1e-6, -1e-6, 5e-6, 2e-5, 1e-4, -1e-4, 0.5, "nan"]:
            add(rng.randrange(nrows), [[f"seasonality_m{i}", dv]], "seasonality+")
    # columns the function never looks at
    free = [c for c in numeric if c not in BOUNDED and not c.startswith(("crop_reduction", "grasses_reduction", "stocks_kcals",
                                                                          "seasonality_m"))]
    for _ in range(30):
        add(rng.randrange(nrows), [[rng.choice(free), rng.choice([-1.0, "nan", 1e12])]], "unchecked column")
    # random multi-cell perturbations
    while len(cases) < n:
        k = rng.choice([1, 2, 3])
        ovs = []
        for _ in range(k):
            c = rng.choice(numeric)
            v = rng.choice([0.0, -1.0, 1.0, 0.5, 1e9, 1e10, 2e10, 150.0, 5.0, 200.0, 20000.0, -1e-9, "nan",
                            rng.randint(-64, 1 << 20) / 64])
            ovs.append([c, v])
        add(rng.randrange(nrows), ovs, "random")
    if not exhaustive:
        rng.shuffle(cases)
        cases = cases[:n]
    return cases


def verify_correspondence(ctx, header, body):
    rng = ctx.rng
    cases = gen_verify_cases(rng, header, len(body), 500 if ctx.quick else 6000, exhaustive=not ctx.quick)
    # "seasonality+" cases carry a delta to ADD to the present value
    for c in cases:
        if c["why"] == "seasonality+":
            col, dv = c["ovs"][0]
            if dv != "nan":
                cur = float(body[c["row"]][header.index(col)])
                c["ovs"] = [[col, cur + dv]]
    res = ctx.run_impl("c17_impl", {"verify": [{"row": c["row"], "ovs": c["ovs"]} for c in cases]})["verify"]
    terms = []
    for c, r in zip(cases, res):
        ovs = clist([f"({cstr(k)}, {'None' if v == 'nan' else '(Some ' + fq(v) + ')'})" for k, v in c["ovs"]])
        terms.append(f"check_verify trows {cnat(c['row'])} {ovs} {cbool(r['ok'])}")
        ctx.count(("verify", c["row"], c["ovs"]), nontrivial=True)
    codes = ctx.coq_codes("c17v", IMPORTS, terms, per_file=60 if ctx.quick else 200, defs=DEFS)
    names = {1: "model accepts, verify_country_data rejects", 2: "model rejects, verify_country_data accepts", 3: "no such row"}
    nbad = 0
    for code, c, r in zip(codes, cases, res):
        if code != 0:
            nbad += 1
            if nbad <= 3:
                ctx.tie_ok = False
                what = names.get(code, str(code))
                ctx.broken.append(f"correspondence verify_country_data vs Model/Tables.verify_ok: {what}")
                ctx.violation("C17:tie:verify:" + what, f"{what} on row {c['row']} ({body[c['row']][0]}) with {c['ovs']}",
                              {"kind": "tie-broken", "call": "verify_country_data", "row": c["row"], "ovs": c["ovs"],
                               "observed": r})
    acc = sum(1 for r in res if r["ok"])
    ctx.notes["verify_correspondence"] = {"cases": len(cases), "accepted": acc, "rejected": len(cases) - acc,
                                          "disagreements": nbad}
    ctx.traces += len(cases)
    ctx.sample({"verify_country_data": {"row": body[cases[0]["row"]][0], "ovs": cases[0]["ovs"], "accepted": res[0]["ok"]}})


# ------------------------------------------------------------------ weighted_average_percentages

VALID_POOL = [-100.0, 1e5, 0.0, -16.0, 3.0, 4.0, 150.0, 100.0, -99.5, 12.25, 99999.0, -0.5, 37.7, -63.1, 1234.5678]
INVALID_POOL = [1e5 + 1, 1e6, 1e11, 1e20, 9.37e36, -100.5, -101.0, -1e9, 100000.00000001, -100.00000000001,
                float("inf"), float("-inf"), 1e300, -1e300]   # +-inf are impossible values too (inf > 1e5, -inf < -100)


def gen_weights(rng, n, kind):
    """dyadic weights (multiples of 1/1024) that sum exactly to 1, then perturbed according to kind"""
    cuts = sorted(rng.randint(0, 1024) for _ in range(n - 1))
    ws = [(b - a) / 1024 for a, b in zip([0] + cuts, cuts + [1024])]
    if kind == "unit":
        return ws
    i = rng.randrange(n)
    d = {"above_ok": 2.0 ** -18, "below_ok": -2.0 ** -18, "above_bad": 2.0 ** -13, "below_bad": -2.0 ** -13}.get(kind)
    if d is not None:
        for _ in range(20):
            if 0 <= ws[i] + d <= 1:
                break
            i = rng.randrange(n)
        ws[i] += d
        return ws
    if kind == "negative":
        ws[i] = -ws[i] - 0.0009765625
        return ws
    if kind == "big":
        ws[i] = 1.5
        return ws
    if kind == "float":   # arbitrary floats normalised the way the callers do
        raw = [rng.random() for _ in range(n)]
        s = sum(raw)
        return [x / s for x in raw]
    return ws


def gen_wavg_case(rng):
    n = rng.choice([1, 1, 2, 2, 3, 4, 5, 8, 12])
    r = rng.random()
    kind = ("unit" if r < 0.40 else "above_ok" if r < 0.52 else "below_ok" if r < 0.64 else "above_bad" if r < 0.69 else
            "below_bad" if r < 0.74 else "negative" if r < 0.77 else "big" if r < 0.80 else "float")
    ws = gen_weights(rng, n, kind)
    pinv = rng.choice([0.0, 0.0, 0.3, 0.6, 1.0])
    ps = [rng.choice(INVALID_POOL) if rng.random() < pinv else
          (rng.choice(VALID_POOL) if rng.random() < 0.6 else rng.randint(-6400, 640000) / 64) for _ in range(n)]
    if rng.random() < 0.05:
        ps = ps[:-1] if len(ps) > 1 and rng.random() < 0.5 else ps + [1.0]   # length mismatch
    if rng.random() < 0.08:
        ps = [rng.choice(VALID_POOL)] * len(ps)                                 # constant vector: tightest range
    return {"ps": ps, "ws": ws, "kind": kind, "np": rng.random() < 0.3}


def impossible(p):
    return p > 1e5 or p < -100


def wavg_checks(ctx):
    rng = ctx.rng
    n = 1500 if ctx.quick else 60000
    fixed = [{"ps": [10.0, 10.0], "ws": [0.5, 0.500005], "kind": "witness", "np": False},
             {"ps": [-100.0, 3.0, 150.0, 0.0, 0.0, -16.0, 4.0, 4.0, 1e11],
              "ws": [x / (31 / 6) for x in [1, 0, 2 / 3, 0, 0, 1 / 2, 1, 1, 1]], "kind": "repo test", "np": True},
             {"ps": [-100.0, -100.0, -100.0], "ws": [1 / 3, 1 / 3, 1 / 3], "kind": "repo test", "np": True},
             {"ps": [-100.0, 100.0, 1e20], "ws": [1 / 102, 1 / 102, 100 / 102], "kind": "repo test", "np": True},
             {"ps": [5.0, 1e6], "ws": [0.0, 1.0], "kind": "zero valid weight", "np": False},
             {"ps": [1e6, 1e7], "ws": [0.5, 0.5], "kind": "all invalid", "np": False}]
    # tiny (but positive) total weight on the valid entries: the mean of the valid inputs must still come back
    tiny = []
    for k in (9, 12, 15, 16, 17, 18, 20, 24, 30, 40, 50):
        w = 2.0 ** -k
        tiny.append({"ps": [rng.choice(VALID_POOL), rng.choice(INVALID_POOL)], "ws": [w, 1.0 - w], "kind": "tiny valid weight", "np": False})
        tiny.append({"ps": [rng.choice(INVALID_POOL), rng.choice(VALID_POOL), rng.choice(VALID_POOL)],
                     "ws": [1.0 - w, w / 2, w / 2], "kind": "tiny valid weight", "np": rng.random() < 0.5})
    cases = fixed + tiny + [gen_wavg_case(rng) for _ in range(n)]
    # twins for the "ignores" clause: same case with every impossible value replaced by another impossible value
    twins = []
    for c in cases:
        t = dict(c)
        t["ps"] = [rng.choice(INVALID_POOL) if impossible(p) else p for p in c["ps"]]
        twins.append(t)
    out = ctx.run_impl("c17_impl", {"wavg": [{"ps": c["ps"], "ws": c["ws"], "np": c["np"]} for c in cases + twins],
                                    "avg": [c["ps"] for c in cases[:300]]})
    res, tres = out["wavg"][:len(cases)], out["wavg"][len(cases):]
    dist = {}
    terms, meta = [], []
    nfail = 0
    max_excess = 0.0
    for c, r, tr in zip(cases, res, tres):
        dist[c["kind"]] = dist.get(c["kind"], 0) + 1
        acc = "v" in r
        dist["accepted" if acc else "rejected"] = dist.get("accepted" if acc else "rejected", 0) + 1
        valid = [p for p in c["ps"] if not impossible(p)]
        ctx.count(("wavg", c["ps"], c["ws"]), nontrivial=acc and len(valid) > 0 and r["v"] != SENTINEL)
        # ---- direct audit
        if r != tr:
            nfail += 1
            ctx.violation("C17:wavg-ignores@import_utilities.weighted_average_percentages",
                          f"replacing impossible values changed the result: {r} vs {tr}",
                          {"kind": "counterexample", "call": "weighted_average_percentages", "ps": c["ps"], "ws": c["ws"],
                           "twin_ps": dict(c, **{}).get("ps"), "observed": [r, tr]})
        if acc:
            v = r["v"]
            if not valid and v != SENTINEL:
                nfail += 1
                ctx.violation("C17:wavg-sentinel@import_utilities.weighted_average_percentages",
                              f"no valid input but result {v}", {"kind": "counterexample", "ps": c["ps"], "ws": c["ws"]})
            if valid and v != SENTINEL and isinstance(v, float):
                lo, hi = min(valid), max(valid)
                tol = 1e-9 * max(1.0, abs(lo), abs(hi))
                excess = max(lo - v, v - hi)
                if excess > tol:
                    rel = excess / max(abs(lo), abs(hi), 1e-300)
                    max_excess = max(max_excess, rel)
                    s = sum(Fraction(w) for w in c["ws"])
                    key = F6_KEY if (s != 1 and rel <= 1.0001e-4) else "C17:wavg-range-large@import_utilities.weighted_average_percentages"
                    st = ctx.violation(key, f"result {v!r} outside the range [{lo}, {hi}] of the valid inputs "
                                            f"(weights sum to {float(s)!r})",
                                       {"kind": "counterexample", "call": "ImportUtilities.weighted_average_percentages",
                                        "ps": [lib.hexf(p) for p in c["ps"]], "ws": [lib.hexf(w) for w in c["ws"]],
                                        "ps_dec": c["ps"], "ws_dec": c["ws"], "observed": v,
                                        "requires": "min(valid) <= result <= max(valid)"})
                    if st != "known":
                        nfail += 1
        obs = "None" if not acc else (f"(Some {fq(r['v'])})" if isinstance(r["v"], float) else None)
        if obs is None:
            ctx.violation("C17:wavg-nonfinite@import_utilities.weighted_average_percentages", f"result {r['v']}",
                          {"kind": "counterexample", "ps": c["ps"], "ws": c["ws"]})
            continue
        # the exact model has no infinities: an infinite (impossible) entry is handed to it as a finite impossible one -
        # by c17_wavg_ignores the model's result does not depend on WHICH impossible value stands there
        mps = [(9.37e36 if p > 0 else -1e9) if math.isinf(p) else p for p in c["ps"]]
        terms.append(f"check_wavg (1#1000000000) {fql(mps)} {fql(c['ws'])} {obs}")
        meta.append((c, r))
    codes = ctx.coq_codes("c17w", IMPORTS.replace(" Gen.CountryTable", ""), terms, per_file=250 if ctx.quick else 1500)
    nbad, nspec = 0, 0
    for code, (c, r) in zip(codes, meta):
        if code == 10:
            nspec += 1
        elif code != 0:
            nbad += 1
            if nbad <= 3:
                ctx.tie_ok = False
                what = {1: "acceptance differs", 2: "value differs"}.get(code, str(code))
                ctx.broken.append(f"correspondence weighted_average_percentages vs Model/Tables.wavg: {what}")
                ctx.violation("C17:tie:wavg:" + what, f"{what} on ps={c['ps']} ws={c['ws']}: implementation {r}",
                              {"kind": "tie-broken", "call": "weighted_average_percentages", "ps": c["ps"], "ws": c["ws"],
                               "observed": r})
    ctx.notes["wavg"] = {"cases": len(cases), "distribution": dist, "disagreements": nbad,
                         "agree_only_with_repaired_variant": nspec, "audit_failures": nfail,
                         "max_relative_excess_over_range": max_excess}
    if nspec:
        ctx.notes["wavg"]["note"] = ("the implementation divides by the un-rejected weight sum (repaired variant wavg_spec): "
                                     "c17_wavg_spec_range applies")
    ctx.traces += len(terms)
    ctx.sample({"weighted_average_percentages": {"ps": cases[0]["ps"], "ws": cases[0]["ws"], "observed": res[0]}})
    ctx.sample({"weighted_average_percentages": {"ps": cases[10]["ps"], "ws": cases[10]["ws"], "observed": res[10]}})


# ------------------------------------------------------------------ run

def run(ctx):
    ctx.level = "other"
    ctx.notes["explanation"] = (
        "partial: (a) validity of the shipped combined table is a Coq proof by vm_compute over the table regenerated from "
        "the CSV on every run; (b) the averaging helper is proved for all vectors: ignores impossible values, sentinel, exact "
        "range when the weights sum to 1 or for the repaired variant, and range up to the factor [0.9999,1.0001] of the "
        "function's own assertion for the code as it is, with a machine-checked counterexample to the exact range; "
        "(c) 'the import scripts reproduce every table exactly' cannot be a theorem (pandas/openpyxl parsing of the raw "
        "workbook): it is executed on every run (21 scripts, byte comparison of 20 processed tables + the combined table).")
    ctx.rule = ("evaluations = cells of the combined table checked on the implementation's reading + verify_country_data "
                "perturbation cases + helper cases + regenerated files compared; non-trivial = a table row, an accepted helper "
                "call with at least one valid input and a non-sentinel result, a perturbed row; distinct = hash of the inputs")
    ctx.trusted += ["translator harness/gen_country_table.py (csv module + decimal.Decimal; AST of ImportUtilities country lists); "
                    "its cells are compared with pandas.read_csv on every run",
                    "regeneration runs the import scripts on an rsync copy with `git init` (they locate the repository through "
                    "git.Repo); pandas / openpyxl parsing of the raw workbook is executed, not modelled"]
    ctx.assumptions += ["helper range theorem: the result is not the sentinel (some valid input carries weight); exact range "
                        "needs sum(weights) == 1 (c17_wavg_range_sum1), otherwise only the factor statement holds"]
    ok = ctx.regen(["gen_country_table"])
    if ok:
        import gen_country_table
        ok = gen_country_table.ensure_built(ctx)
    ctx.check_props()
    ctx.log("props checked")
    header, body = read_text_table(lib.REPO)
    try:
        t = ctx.run_impl("c17_impl", {"table": True})["table"]
        table_audit(ctx, t)
    except lib.ImplCrashed as e:
        ctx.violation("C17:table:unreadable", "the implementation cannot read / verify the combined table: " + e.out[-300:],
                      {"kind": "counterexample", "call": "pd.read_csv + verify_country_data", "observed": e.out[-1500:]})
    ctx.log("table audited")
    if ok:
        bok, bad, _ = ctx.build(["Model/Tables.vo", "Gen/CountryTable.vo"])
        if not bok:
            ctx.tie_ok = False
            ctx.broken.append(f"model does not compile against the regenerated table: {bad}")
        else:
            verify_correspondence(ctx, header, body)
            ctx.log("verify_country_data correspondence done")
    wavg_checks(ctx)
    ctx.log("helper checked")
    reg = regenerate(lib.REPO, ctx.work)
    ctx.notes["regeneration"] = reg
    ctx.count(n=reg["compared"])
    for i in range(reg["compared"] - len(reg["differing"])):
        ctx.nontrivial.add(f"regen{i}")
    for f in reg["failed"][:3]:
        ctx.violation("C17:regeneration:script-failed:" + f["script"], f"import script {f['script']} failed: {f['tail'][-200:]}",
                      {"kind": "counterexample", "call": "python " + f["script"], "observed": f["tail"]})
    for d in reg["differing"][:5]:
        ctx.violation("C17:regeneration:" + d["file"], f"{d['file']}: {d['what']}",
                      {"kind": "counterexample", "call": "scripts/run_all_imports.sh on a copy", "file": d["file"],
                       "observed": d["what"], "requires": "byte-identical to the shipped file"})
    ctx.log(f"regeneration: {reg['compared']} files compared, {len(reg['differing'])} differ, {len(reg['failed'])} scripts failed "
            f"({reg['wall_s']} s)")
    ctx.sample({"regeneration": {k: reg[k] for k in ("compared", "differing", "failed", "wall_s")}})


def replay(rep):
    ctx = lib.Ctx(KEY, "quick", rep.get("seed", 0))
    key = rep.get("key", "")
    if "wavg" in key:
        ps = [float.fromhex(x) for x in rep["ps"]] if isinstance(rep["ps"][0], str) else rep["ps"]
        ws = [float.fromhex(x) for x in rep["ws"]] if isinstance(rep["ws"][0], str) else rep["ws"]
        r = ctx.run_impl("c17_impl", {"wavg": [{"ps": ps, "ws": ws}]})["wavg"][0]
        print("weighted_average_percentages", ps, ws, "->", r)
        valid = [p for p in ps if not impossible(p)]
        if "v" in r and valid and r["v"] != SENTINEL:
            lo, hi = min(valid), max(valid)
            if max(lo - r["v"], r["v"] - hi) > 1e-9 * max(1.0, abs(lo), abs(hi)):
                print(f"FAILED: result outside [{lo}, {hi}]")
                return 1
        return 0
    if key.startswith("C17:regeneration"):
        reg = regenerate(lib.REPO, ctx.work)
        print(json.dumps({k: reg[k] for k in ("compared", "differing", "failed")}, indent=1)[:3000])
        return 0 if reg["ok"] else 1
    if key.startswith("C17:tie:verify"):
        r = ctx.run_impl("c17_impl", {"verify": [{"row": rep["row"], "ovs": rep["ovs"]}]})["verify"][0]
        print(r)
        ctx.regen(["gen_country_table"])
        ctx.build(["Model/Tables.vo", "Gen/CountryTable.vo"])
        ovs = clist([f"({cstr(k)}, {'None' if v == 'nan' else '(Some ' + fq(v) + ')'})" for k, v in rep["ovs"]])
        code = ctx.coq_codes("c17r", IMPORTS, [f"check_verify trows {cnat(rep['row'])} {ovs} {cbool(r['ok'])}"], defs=DEFS)[0]
        print("model vs implementation:", "agree" if code == 0 else "DISAGREE")
        return 1 if code else 0
    # table clauses
    ctx2 = lib.Ctx(KEY, "quick", rep.get("seed", 0))
    t = ctx2.run_impl("c17_impl", {"table": True})["table"]
    table_audit(ctx2, t)
    for v in ctx2.violations:
        print("FAILED", v["key"], v["what"])
    return 1 if ctx2.violations else 0
