"""C09 - cropland neither double-counted nor lost.
proof: Props/C09.v over Model/Series.v (hand model of outdoor_crops.py / greenhouses.py as they are now);
tie: correspondence of OutdoorCrops + Greenhouses (called as Parameters.init_outdoor_crops /
init_greenhouse_params do) with the model, compared inside Coq;
audit: every clause of the property evaluated on the implementation alone (harness/impl/c09_audit.py)."""
import copy
import json
from lib import fq, fql, cbool, cnat, clist, cstr

SPECIAL = {"ZAF": 1, "JPN": 0, "PRK": 0, "KOR": 0}
TOL = "(1#1000000000)"
IMPORTS = "From Allfed Require Import Base.QSeries Model.Series Model.SeriesCheck."
OBS_KEYS = [(2, "reds", "reductions c"), (3, "cycle", "months_cycle c"), (4, "grown", "grown pw c"),
            (5, "norel", "norel_grown c"), (6, "area", "greenhouse_area (cN c) g"),
            (7, "frac", "greenhouse_fraction (cN c) g"), (8, "ghk", "greenhouse_kcals pw c g"),
            (9, "prod", "outdoor_production pw c g"),
            (10, "prod_fat", "outdoor_nutrient pw c g {fat_base}"), (11, "prod_protein", "outdoor_nutrient pw c g {protein_base}"),
            (12, "ghk_fat", "greenhouse_nutrient pw c g {fat_base} {fat_ratio}"),
            (13, "ghk_protein", "greenhouse_nutrient pw c g {protein_base} {protein_ratio}")]
CODE_NAMES = {90: "implementation accepts, model rejects", 91: "implementation rejects, model accepts",
              2: "all_months_reductions differ", 3: "months_cycle differs", 4: "KCALS_GROWN differs",
              5: "NO_RELOCATION_KCALS_GROWN differs", 6: "greenhouse area differs", 7: "greenhouse fraction differs",
              8: "greenhouse crop kcals differ", 9: "outdoor production kcals differ",
              10: "outdoor production fat differs", 11: "outdoor production protein differs",
              12: "greenhouse crop fat differs", 13: "greenhouse crop protein differs"}


# ------------------------------------------------------------------ encoding

def coq_crop(i):
    hbm = f"(country_hbm {cstr(i['code'])})"     # the four special cases live in Model/Series.v
    return ("(Build_crop_in " + " ".join([
        cnat(i["N"]), cnat(i["start"]), fq(i["base"]), fql(i["seas"]), fq(i["ratios"][0]), fql(i["ratios"][1:]), hbm,
        cbool(i["rot"]), fq(i["exp"]), fq(i["area"]), cnat(i["hd"]), cnat(i["years"]), cnat(i["rotdelay"]),
        fq(i["wd"]), fq(i["wr"]), cbool(i["add"])]) + ")")


def coq_gh(i):
    return ("(Build_gh_in " + " ".join([cbool(i["gadd"]), cnat(i["gdelay"]), fq(i["gmult"]), fq(i["ggain"]),
                                         fq(i["gglobal"]), fq(i["gfrac"])]) + ")")


def crop_term(r):
    """Coq term (nat) comparing one implementation result with the model"""
    i = r["inputs"]
    table = clist([f"({fq(a)}, {fq(b)})" for a, b in r["pw"]])
    if r["accepted"]:
        o = r["obs"]
        fmt = {k: fq(i[k]) for k in ("fat_base", "protein_base", "fat_ratio", "protein_ratio")}
        # every fourth case evaluates the fat / protein model functions themselves; the others use the proved identity
        # "nutrient series = fraction x kcal series" on the observed kcal series (four times cheaper to evaluate)
        full = int(i["base"] * 1000) % 4 == 0
        keys = OBS_KEYS if full else OBS_KEYS[:8] + [
            (10, "prod_fat", "scaled (og_fraction c {fat_base}) " + fql(o["prod"])),
            (11, "prod_protein", "scaled (og_fraction c {protein_base}) " + fql(o["prod"])),
            (12, "ghk_fat", "scaled (rotation_ratio c {fat_base} {fat_ratio}) " + fql(o["ghk"])),
            (13, "ghk_protein", "scaled (rotation_ratio c {protein_base} {protein_ratio}) " + fql(o["ghk"]))]
        trip = [f"({code}%nat, {expr.format(**fmt)}, {fql(o[key])})" for code, key, expr in keys if key in o]
        obs = "(fun c g pw => " + clist(trip) + ")"
    else:
        obs = "(fun c g pw => [])"
    return f"check_crops {TOL} {table} {coq_crop(i)} {coq_gh(i)} {cbool(r['accepted'])} {obs}"


# ------------------------------------------------------------------ generators

def dy(rng, lo, hi, den=64):
    return rng.randint(int(lo * den), int(hi * den)) / den


def gen_seasonality(rng):
    r = rng.random()
    if r < 0.05:
        return [0.0] * 12
    if r < 0.15:
        return [1 / 12] * 12
    parts = [0] * 12
    k = rng.choice([1, 2, 3, 5, 8, 12])
    months = rng.sample(range(12), k)
    for _ in range(64):
        parts[rng.choice(months)] += 1
    return [p / 64 for p in parts]


def gen_consts(rng, force=None):
    force = force or {}
    gadd = force.get("gadd", rng.random() < 0.6)
    N = rng.choice([48, 60, 72, 84, 96, 108, 120]) if gadd or rng.random() < 0.8 else rng.choice([12, 24, 36])
    rot = force.get("rot", rng.random() < 0.55)
    r = rng.random()
    if r < 0.35:
        base = 10 ** rng.uniform(-0.5, 3.5)        # months of a fraction of a billion kcal
    elif r < 0.4:
        base = float(rng.choice([1, 4, 250]))
    else:
        base = 10 ** rng.uniform(3.5, 9)
    ratios = []
    for y in range(10):
        q = rng.random()
        if q < 0.12:
            ratios.append(0.0)
        elif q < 0.2:
            ratios.append(1.0)
        elif q < 0.3:
            ratios.append(dy(rng, 1, 2))
        else:
            ratios.append(dy(rng, 0, 1))
    q = rng.random()
    if q < 0.04:
        ratios[rng.randint(1, 9)] = -1e-12
    elif q < 0.07:
        ratios[rng.randint(1, 9)] = -0.25
    area = 1.0
    years = 3
    if force.get("area", rng.random() < 0.4):
        area = rng.choice([72 / 39, dy(rng, 1, 3), 1.5])
        if area <= 1:
            area = 1.25
        years = rng.randint(1, N // 12) if rng.random() < 0.92 else N // 12 + 1
    c = {
        "NMONTHS": N, "STARTING_MONTH_NUM": rng.randint(1, 12), "BASELINE_CROP_KCALS": base,
        "BASELINE_CROP_FAT": base * rng.uniform(0.01, 0.1), "BASELINE_CROP_PROTEIN": base * rng.uniform(0.02, 0.15),
        "ADD_OUTDOOR_GROWING": force.get("add", rng.random() < 0.92),
        "WASTE_DISTRIBUTION": {"CROPS": rng.choice([0.0, dy(rng, 0, 99), rng.uniform(0, 60)])},
        "WASTE_RETAIL": rng.choice([0.0, dy(rng, 0, 50)]),
        "OG_USE_BETTER_ROTATION": rot,
        "ROTATION_IMPROVEMENTS": {"POWER_LAW_IMPROVEMENT": rng.choice([1.0, 0.796, rng.uniform(0.15, 1.0)]),
                                  "FAT_RATIO": 1.647, "PROTEIN_RATIO": 1.108},
        "SEASONALITY": gen_seasonality(rng),
        "COUNTRY_CODE": rng.choice(["XXX"] * 8 + ["ZAF", "JPN", "PRK", "KOR"]),
        "RATIO_INCREASED_CROP_AREA": area, "INITIAL_HARVEST_DURATION_IN_MONTHS": rng.choice([8, 8, rng.randint(0, 12)]),
        "NUMBER_YEARS_TAKES_TO_REACH_INCREASED_AREA": years,
        "DELAY": {"ROTATION_CHANGE_IN_MONTHS": rng.choice([2, 2, rng.randint(0, 8)]),
                  "GREENHOUSE_MONTHS": rng.choice([2, 2, rng.randint(0, 30), rng.randint(0, N)])},
        "ADD_GREENHOUSES": gadd, "INITIAL_GLOBAL_CROP_AREA": 1.43e9,
        "INITIAL_CROP_AREA_FRACTION": rng.choice([1.0, 10 ** rng.uniform(-6, 0), dy(rng, 0, 1, 1024)]) if rng.random() < 0.97 else 0.0,
        "GREENHOUSE_AREA_MULTIPLIER": rng.choice([0.19e9 / 1.43e9, dy(rng, 0, 1), 1.0]),
        "GREENHOUSE_GAIN_PCT": rng.choice([44.0, dy(rng, 0, 100)]),
    }
    for y in range(10):
        c["RATIO_CROPS_YEAR%d" % (y + 1)] = ratios[y]
    return c


def case_key(i):
    return json.dumps(i, sort_keys=True)


def nontrivial(r):
    if not r["accepted"]:
        return False
    return any(v != 0 for v in r["obs"]["prod"])


# ------------------------------------------------------------------ run

def run(ctx):
    ctx.level = "proof"
    ctx.rule = ("case = one constants dictionary for OutdoorCrops + Greenhouses (horizon, baseline, seasonality, ten "
                "disruption ratios, relocation flag and exponent, area expansion, greenhouse flag/delay/share, wastes, "
                "country code); non-trivial = the implementation accepted it and some month has non-zero output; "
                "distinct = hash of the extracted inputs")
    ctx.trusted += ["hand model coq/Model/Series.v tied by correspondence only (no translator)",
                    "harness/impl/c09_impl.py extract_inputs (plain dictionary reads)",
                    "x ** e (non-integer power) is a Section variable pw with order hypotheses; the correspondence "
                    "instantiates it with the float results observed on the implementation",
                    "numpy elementwise arithmetic, np.linspace, np.mean are modelled, not verified; float rounding is not modelled"]
    ctx.assumptions += ["pw hypotheses: x <= pw x e <= 1 for 0 <= x <= 1 (0 < e <= 1), pw 0 e == 0; sampled against "
                        "Python's ** in the audit",
                        "inputs are admissible (crops_ok: the implementation's own asserts) and non-negative; greenhouse "
                        "share multiplier in [0,1]"]
    ctx.check_props()
    bok, bad, out = ctx.build(["Model/SeriesCheck.vo"])
    if not bok:
        ctx.tie_ok = False
        ctx.broken.append(f"Model/SeriesCheck does not compile: {bad}")
    else:
        correspondence(ctx)
    audit(ctx)


def correspondence(ctx):
    rng = ctx.rng
    n = 180 if ctx.quick else 4000
    cases = []
    for k in range(n):
        force = {}
        if k % 4 == 0:
            force = {"gadd": True, "rot": True, "add": True}
        elif k % 4 == 1:
            force = {"gadd": True, "rot": False, "add": True}
        consts = gen_consts(rng, force)
        if k % 16 in (0, 1):       # a crop-area fraction below 1e-5 (DJI, BHR, ...) with greenhouses on, through Parameters
            consts["INITIAL_CROP_AREA_FRACTION"] = rng.choice([1.29082270632173e-06, 9.03575894425214e-06, 10 ** rng.uniform(-6.5, -5.1)])
            cases.append({"consts": consts, "via": "params"})
            continue
        cases.append({"consts": consts, "via": "params" if rng.random() < 0.7 else "direct"})
    res = ctx.run_impl("c09_impl", {"cases": cases})["results"]
    terms, meta = [], []
    dist = {"accepted": 0, "rejected": 0, "rot+gh": 0, "rot": 0, "gh": 0, "plain": 0, "area": 0, "tiny(<1/month)": 0,
            "via_params": 0, "via_direct": 0, "special_country": 0}
    for case, r in zip(cases, res):
        if r["inputs"] is None:
            continue
        i = r["inputs"]
        terms.append(crop_term(r))
        meta.append((case, r))
        dist["accepted" if r["accepted"] else "rejected"] += 1
        dist["via_" + case["via"]] += 1
        if r["accepted"]:
            dist["rot+gh" if i["rot"] and i["gadd"] else "rot" if i["rot"] else "gh" if i["gadd"] else "plain"] += 1
            dist["area"] += i["area"] > 1
            dist["special_country"] += i["code"] in SPECIAL
            mx = max(r["obs"]["prod"]) if r["obs"]["prod"] else 0
            dist["tiny(<1/month)"] += 0 < mx < 1
        ctx.count(case_key(i), nontrivial=nontrivial(r))
    codes = ctx.coq_codes("c09", IMPORTS, terms, per_file=40 if ctx.quick else 160)
    nbad = 0
    for code, (case, r) in zip(codes, meta):
        if code != 0:
            nbad += 1
            if nbad <= 3:
                nm = CODE_NAMES.get(code, str(code))
                ctx.tie_ok = False
                ctx.broken.append(f"correspondence OutdoorCrops/Greenhouses vs Model/Series: {nm}")
                ctx.violation("C09:tie:" + nm, f"model and implementation disagree ({nm}); err={r.get('err')}",
                              {"kind": "tie-broken", "runner": "c09_impl", "case": case, "inputs": r["inputs"],
                               "observed": r["obs"], "err": r.get("err")})
    ctx.notes["correspondence"] = {"cases": len(terms), "disagreements": nbad, "distribution": dist}
    for case, r in meta[:2]:
        ctx.sample({"inputs": r["inputs"], "accepted": r["accepted"],
                    "production_first_months": (r["obs"] or {}).get("prod", [])[:12]})
    ctx.traces += len(terms)


REAL_BASE = {"scale": "country", "seasonality": "country", "grasses": "country_nuclear_winter",
             "crop_disruption": "country_nuclear_winter", "fish": "nuclear_winter", "waste": "baseline_in_country",
             "nutrition": "catastrophe", "intake_constraints": "enabled", "stored_food": "baseline",
             "ratio_stocks_untouched": "zero", "shutoff": "immediate", "cull": "do_eat_culled", "fat": "not_required",
             "protein": "not_required", "meat_strategy": "reduce_breeding", "NMONTHS": 120}


def real_pairs(ctx):
    """relocation on/off and expansion on/off on real rows through the real option layer, with the crop multiplier"""
    import csv, os, lib
    rng = ctx.rng
    with open(os.path.join(lib.REPO, "data", "no_food_trade", "computer_readable_combined.csv")) as f:
        isos = [row["iso3"] for row in csv.DictReader(f)]
    chosen = ["ARG"] + rng.sample(isos, 2 if ctx.quick else 40)
    pairs = []
    for iso in chosen:
        for mult in ([0.5, 0.9, 1.3, None] if iso == "ARG" or not ctx.quick else [rng.choice([0.5, 0.9, 1.3])]):
            for disruption in (["country_nuclear_winter", "zero"] if iso == "ARG" else ["country_nuclear_winter"]):
                opt = dict(REAL_BASE, crop_disruption=disruption)
                if mult is not None:
                    opt["CROP_PRODUCTION_MULTIPLIER"] = mult
                pairs.append({"iso3": iso, "options": opt})
    # custom column override of the relocation exponent (ordinary option key = csv column, through apply_custom_parameters):
    # every shipped row has 0.796, so only an override shows whether each preset really uses the row's exponent
    for iso in ["ARG", rng.choice(isos)] + ([] if ctx.quick else rng.sample(isos, 20)):
        for e in (0.6, 0.9):
            pairs.append({"iso3": iso, "options": dict(REAL_BASE, power_law_improvement=e)})
    return pairs


def handoff_specs(ctx):
    """full three-round runs whose optimiser inputs are inspected (rounds 1-2 only run when shutoff != immediate)"""
    import csv, os, lib
    rng = ctx.rng
    with open(os.path.join(lib.REPO, "data", "no_food_trade", "computer_readable_combined.csv")) as f:
        isos = [row["iso3"] for row in csv.DictReader(f)]
    scen = ["all_resilient_foods", "all_resilient_foods_and_more_area", "relocated_crops", "greenhouse", "no_resilient_foods",
            "industrial_foods"]
    shut = ["long_delayed_shutoff", "short_delayed_shutoff", "continued", "one_month_delayed_shutoff"]
    specs = [{"iso3": "ARG", "preset": "argentina_net_nuclear_resilient"},
             {"iso3": rng.choice(["USA", "IND", "FRA", "BRA", "AUS"]), "options": dict(REAL_BASE, title="verif", scenario="greenhouse",
                                                                                      shutoff="long_delayed_shutoff")}]
    for _ in range(1 if ctx.quick else 40):
        specs.append({"iso3": rng.choice(isos), "options": dict(REAL_BASE, title="verif", scenario=rng.choice(scen),
                                                                shutoff=rng.choice(shut),
                                                                crop_disruption=rng.choice(["zero", "country_nuclear_winter"]))})
    return specs


def audit(ctx):
    rng = ctx.rng
    n = 110 if ctx.quick else 2500
    cases = [gen_consts(rng, {"add": True} if k % 2 else {}) for k in range(n)]
    res = ctx.run_impl("c09_audit", {"cases": cases, "seed": rng.randint(0, 1 << 30), "real_pairs": real_pairs(ctx),
                                     "handoff": handoff_specs(ctx)})
    ctx.notes["audit"] = {k: v for k, v in res.items() if k != "failures"}
    ctx.count(n=res["checks"])
    for k in range(res["distinct"]):
        ctx.nontrivial.add(f"audit{k}")
    seen = set()
    for f in res["failures"]:
        if f["kind"] in seen:
            continue
        seen.add(f["kind"])
        ctx.violation("C09:" + f["kind"], f["what"], {"kind": "counterexample", "runner": "c09_audit", **f})
    if res["failures"]:
        ctx.log("audit failures:", len(res["failures"]), sorted(seen))


def replay(rep):
    import lib
    ctx = lib.Ctx("C09", "quick", rep.get("seed", 0))
    if rep.get("runner") == "c09_audit":
        payload = {"cases": [rep["consts"]] if "consts" in rep else [], "seed": rep.get("audit_seed", 0),
                   "real_pairs": [rep["real_pair"]] if "real_pair" in rep else [],
                   "handoff": [rep["handoff"]] if "handoff" in rep else []}
        res = ctx.run_impl("c09_audit", payload)
        bad = [f for f in res["failures"] if f["kind"] == rep.get("kind_of_failure", f["kind"])]
        for f in bad[:5]:
            print("reproduced:", f["kind"], "-", f["what"])
        return 1 if bad else 0
    if rep.get("runner") == "c09_impl":
        ok, bad, out = ctx.build(["Model/SeriesCheck.vo"])
        r = ctx.run_impl("c09_impl", {"cases": [rep["case"]]})["results"][0]
        code = ctx.coq_codes("c09_replay", IMPORTS, [crop_term(r)])[0]
        print("model vs implementation code:", code, CODE_NAMES.get(code, ""))
        return 1 if code != 0 else 0
    print("nothing to replay:", rep.get("what"))
    return 0
