"""C07 - herd feeding accounts for energy and starvation consistently.
proof: Props/C07.v over Model/Herd.v (feed_the_species, feed_chain = feed_animals, sort_desc = priority order);
tie: differential correspondence of AnimalSpecies.feed_the_species, AnimalPopulation.feed_animals and
     AnimalModelBuilder.get_optimal_next_animal_to_feed with the model (compared inside Coq; exact on power-of-two grids),
     plus the monthly feedings of real-country runs of animal_populations.main();
audit: every clause of the property evaluated directly on the implementation's observed inputs / outputs."""
import json
from fractions import Fraction
from lib import fq, fql, cbool, clist, cnat

IMPORTS = "From Allfed Require Import Base.QRound Model.Herd Model.HerdCheck."
P2 = [1.0, 0.5, 0.25, 0.125]
TS = [0.0, 0.25, 0.5, 0.75, 1.0, 1.0, 1.25, 2.0, 4.0]
TOL = "(1#1000000000)"
COUNTRIES = ["ARG", "IND", "LSO", "USA", "CHN", "BRA", "NZL", "ETH", "FRA", "MNG", "AUS", "WOR", "SWT", "BLR", "PAK", "NGA",
             "DEU", "RUS", "MEX", "KEN", "ISR", "JPN", "SGP", "QAT", "MLI", "GEO", "BGR", "MDA", "MKD", "EGY"]
SCENARIOS = ["baseline", "reduced", "feed_only_ruminants"]
KD0 = {"KCALS_PER_CHICKEN": 2.4e-6, "KCALS_PER_PIG": 3.2e-4, "KCALS_PER_SMALL_ANIMAL": 2e-6,
       "KCALS_PER_MEDIUM_ANIMAL": 1e-4, "KCALS_PER_LARGE_ANIMAL": 8e-4}
TYPES = ["chicken", "rabbit", "duck", "goose", "turkey", "other_rodents", "pig", "meat_goat", "meat_sheep", "camelids",
         "meat_cattle", "meat_camel", "meat_buffalo", "mule", "horse", "asses", "milk_sheep", "milk_cattle", "milk_goat",
         "milk_camel", "milk_buffalo"]


# ------------------------------------------------------------------ generators

def gen_cur(rng, exact):
    r = rng.random()
    if r < 0.1:
        return 0.0
    if r < 0.35:
        return float(rng.randint(1, 10 ** rng.randint(1, 9)))
    if r < 0.8 or exact:
        return rng.randint(1, 1 << rng.randint(4, 36)) / 64          # fractional herd
    return rng.uniform(0.01, 1e9)


def gen_species_case(rng):
    exact = rng.random() < 0.6
    if exact:
        eg, ef = rng.choice(P2), rng.choice(P2)
        bal = 0.0 if rng.random() < 0.08 else rng.randint(1, 1 << rng.randint(3, 30)) / 64
    else:
        eg, ef = (0.6, 0.8) if rng.random() < 0.8 else (rng.uniform(0.2, 1.0), rng.uniform(0.2, 1.0))
        bal = 0.0 if rng.random() < 0.05 else rng.uniform(1e-6, 1e6)
    rum = rng.random() < 0.55
    cur = gen_cur(rng, exact)
    if exact:
        tg, tf = rng.choice(TS), rng.choice(TS)
    else:
        tg, tf = rng.choice([0.0, rng.uniform(0, 0.99), rng.uniform(1.01, 4)]), rng.choice([0.0, rng.uniform(0, 0.99), rng.uniform(1.01, 4)])
    if bal == 0:
        g, f = rng.randint(0, 1 << 16) / 64, rng.randint(0, 1 << 16) / 64
    else:
        g = tg * bal / eg
        rest = bal - min(bal, g * eg if rum else 0.0)
        f = tf * (rest if rest > 0 and rng.random() < 0.7 else bal) / ef
    if rng.random() < 0.1:
        g, f = rng.randint(0, 1 << 24) / 64, rng.randint(0, 1 << 24) / 64
    kind = "exact" if exact else "float"
    if exact and rng.random() < 0.03:     # outside the property's quantifier: model faithfulness only
        g, f, kind = -g if rng.random() < 0.5 else g, -f if rng.random() < 0.5 else f, "negative-supply"
    fed_old = rng.choice([0.0, cur, cur + rng.randint(1, 1000), float(rng.randint(0, 10 ** 6))])
    return {"cur": cur, "bal": bal, "rum": rum, "eg": eg, "ef": ef, "g": g, "f": f, "fed_old": fed_old, "kind": kind}


def gen_chain_case(rng):
    exact = rng.random() < 0.6
    n = rng.randint(1, 8)
    species = []
    frac_herds = rng.random() < 0.5
    for _ in range(n):
        dig = rng.choice(["ruminant", "ruminant", "monogastric", "hindgut fermenter"])
        if exact:
            s = {"lsu": rng.randint(1, 32) / 16, "lsuf": rng.randint(1, 16) / 8, "dig": dig, "eg": rng.choice(P2), "ef": rng.choice(P2)}
        else:
            s = {"lsu": rng.choice([0.007, 0.014, 0.1, 0.3, 0.8, 1.0, 1.1]), "lsuf": rng.choice([1.0, 0.47, 0.72, 1.19]),
                 "dig": dig, "eg": 0.6, "ef": 0.8}
        s["fed_old"] = float(rng.randint(0, 10 ** 5))
        species.append(s)

    def herd():
        r = rng.random()
        if r < 0.1:
            return 0.0
        if exact:
            return rng.randint(1, 1 << 22) / 64 if frac_herds else float(rng.randint(1, 1 << 28))
        return gen_cur(rng, False)
    one = 2.0 ** -12 if exact else None
    one_f = Fraction(one) if exact else Fraction((29000 / 12) / 4.187 * 1000 / 1e9)
    rounds = []
    prev = None
    for k in range(rng.randint(1, 3)):
        curs = [herd() for _ in range(n)]
        if prev is not None:
            for i in range(n):
                if rng.random() < 0.3:
                    curs[i] = 0.0 if prev[i] > 0 else curs[i]     # zero herd after a non-zero herd
        prev = curs
        # requirement boundaries with exact rationals (input construction only)
        reqs = [Fraction(s["lsu"]) * one_f * Fraction(s["lsuf"]) * Fraction(c) for s, c in zip(species, curs)]
        gneeds = [(r / Fraction(s["eg"])) for s, r in zip(species, reqs) if s["dig"] == "ruminant"]
        kg = rng.randint(0, len(gneeds))
        tg = rng.choice([Fraction(0), Fraction(1, 2), Fraction(1, 4)])
        g = sum(gneeds[:kg], Fraction(0)) + (tg * gneeds[kg] if kg < len(gneeds) else rng.choice([0, 1, 64]))
        if not exact:
            g = g * Fraction(rng.uniform(0.5, 1.5)) if rng.random() < 0.8 else Fraction(0)
        gl = Fraction(g)
        fneeds = []
        for s, r in zip(species, reqs):
            if s["dig"] == "ruminant":
                got = min(gl * Fraction(s["eg"]), r)
                gl -= got / Fraction(s["eg"])
                r = r - got
            fneeds.append(r / Fraction(s["ef"]))
        kf = rng.randint(0, n)
        tf = rng.choice([Fraction(0), Fraction(1, 2), Fraction(3, 4)])
        f = sum(fneeds[:kf], Fraction(0)) + (tf * fneeds[kf] if kf < n else rng.choice([0, 1, 4096]))
        if not exact:
            f = f * Fraction(rng.uniform(0.5, 1.5)) if rng.random() < 0.85 else Fraction(0)
        if rng.random() < 0.08:
            f = Fraction(0)
        if rng.random() < 0.05:
            g = 4 * sum(gneeds, Fraction(0))
        if rng.random() < 0.05:
            f = 4 * sum(fneeds, Fraction(0))
        rounds.append({"curs": curs, "g": float(g), "f": float(f)})
    return {"species": species, "rounds": rounds, "one_lsu": one, "kind": "exact" if exact else "float"}


def gen_order_case(rng):
    n = rng.randint(1, 10)
    types = rng.sample(TYPES, n)
    tie = rng.random() < 0.4
    animals = []
    for t in types:
        animals.append({"type": t, "size": rng.choice(["small", "medium", "large"]),
                        "lsu": rng.choice([0.5, 1.0]) if tie else rng.choice([0.007, 0.02, 0.1, 0.3, 0.8, 1.0]) * rng.choice([1, 1, 2]),
                        "lsuf": 1.0 if tie or rng.random() < 0.7 else rng.choice([0.5, 0.72, 1.19]),
                        "ef": 0.5 if tie else rng.choice([0.8, 0.8, 0.5, 1.0])})
    if tie:
        v = float(rng.randint(1, 8))
        kd = {k: v for k in KD0}
    else:
        kd = {k: x * rng.choice([0.1, 0.5, 1, 1, 2, 10, 100]) for k, x in KD0.items()}
    return {"animals": animals, "kdict": kd, "tie": tie}


def series(rng, shape, n, base_f, base_g):
    if shape == "zero":
        return [0.0] * n, [0.0] * n
    if shape == "ample":
        return [4 * base_f] * n, [4 * base_g] * n
    if shape == "partial":
        a, b = rng.uniform(0.1, 0.9), rng.uniform(0.1, 0.9)
        return [a * base_f] * n, [b * base_g] * n
    if shape == "ramp":
        return [base_f * 1.5 * m / n for m in range(n)], [base_g * 1.5 * (n - m) / n for m in range(n)]
    if shape == "feed_only":
        return [rng.uniform(0.2, 1.5) * base_f] * n, [0.0] * n
    if shape == "grass_only":
        return [0.0] * n, [rng.uniform(0.2, 1.5) * base_g] * n
    return [base_f * rng.choice([0, rng.uniform(0, 2)]) for _ in range(n)], [base_g * rng.choice([0, rng.uniform(0, 2)]) for _ in range(n)]


SHAPES = ["zero", "partial", "ample", "random", "ramp", "feed_only", "grass_only", "random"]


def gen_runs(rng, ncountries, nshapes, nmonths, model_months, fixed=("ARG", "IND", "LSO"), pool=None):
    """real-country runs of main(); supplies are scaled to the herd's own requirement (measured by a zero-supply probe)"""
    pool = [c for c in (pool or COUNTRIES) if c not in fixed]
    codes = list(fixed) + rng.sample(pool, min(len(pool), max(0, ncountries - len(fixed))))
    runs = []
    for code in codes[:ncountries]:
        for sc in SCENARIOS:
            for shape in (SHAPES[:nshapes] if nshapes <= 4 else SHAPES):
                kd = dict(KD0) if rng.random() < 0.5 else {k: x * rng.choice([0.1, 1, 10, 100]) for k, x in KD0.items()}
                months = sorted(set([0, 1, 2] + rng.sample(range(nmonths), min(model_months, nmonths))))
                runs.append({"code": code, "scenario": sc, "shape": shape, "kdict": kd, "n": nmonths, "months": months,
                             "seed": rng.randint(0, 1 << 30)})
    return runs


def scale_runs(ctx, runs, script="c06_impl"):
    """probe each (country) with zero supply for one month to learn its monthly energy requirement, then build the series"""
    import random
    codes = sorted(set(r["code"] for r in runs))
    probe = [{"code": c, "scenario": "baseline", "feed": [0.0], "grass": [0.0], "kdict": KD0, "months": [0]} for c in codes]
    res = ctx.run_impl(script, {"runs": probe})["results"]
    need = {}
    for c, r in zip(codes, res):
        if "error" in r:
            need[c] = (1.0, 1.0)
            continue
        calls = r["months"]["0"]["calls"]
        st = r["statics"]
        tot = sum(x["req"] for x in calls)
        rum = sum(x["req"] for x in calls if st[x["i"]]["digestion"] == "ruminant")
        need[c] = (max(tot, 1e-9) / 0.8, max(rum, 1e-9) / 0.6)
    for r in runs:
        rr = random.Random(r["seed"])
        bf, bg = need[r["code"]]
        if r["shape"] in ("partial", "random", "ramp"):
            bf = bf * rr.choice([0.3, 1.0])
        r["feed"], r["grass"] = series(rr, r["shape"], r["n"], bf, bg)
    return runs


# ------------------------------------------------------------------ requirement recomputed from the shipped data

REQ_COUNTRIES = ["WOR", "BOL", "PER", "IND", "MNG", "SAU", "EGY", "USA", "SWT"]   # SWT = the model's code for Eswatini (data row SWZ)


def data_requirements(code):
    """{animal_type: (head, LSU, regional factor, monthly NE requirement)} read straight from the csv files of the
    repository under test (csv module; no code of /repo involved): FAOSTAT head counts, species_attributes LSU,
    the country's FAO region and that region's column of regional_conversion_factors (row = species name, exact)."""
    import csv
    import os
    import lib
    d = os.path.join(lib.REPO, "data", "no_food_trade", "animal_feed_data")
    fao = "SWZ" if code == "SWT" else code
    heads = next(r for r in csv.DictReader(open(os.path.join(d, "FAOSTAT_head_and_slaughter.csv"))) if r["iso3"] == fao)
    attrs = {r["animal"]: r for r in csv.DictReader(open(os.path.join(d, "species_attributes.csv")))}
    region = next((r["FAO-region-EK"] for r in csv.DictReader(open(os.path.join(d, "FAO_country_region_mappings.csv")))
                   if r["alpha3"] == fao), "Other")
    factors = {}
    for r in csv.DictReader(open(os.path.join(d, "regional_conversion_factors.csv"))):
        if r["animal"] in factors and factors[r["animal"]] != float(r[region]):
            raise ValueError(f"regional table has two different rows for {r['animal']}")
        factors[r["animal"]] = float(r[region])
    one_lsu = ((29000 / 12) / 4.187) * 1000 / 1e9
    out = {}
    for col, v in heads.items():
        if col.endswith("_head") and float(v) > 0:
            t = col[:-len("_head")]
            if t == "meat_cattle" and fao == "IND":
                continue
            species = t.replace("milk_", "").replace("meat_", "")
            lsu = float(attrs[t]["LSU"])
            out[t] = (float(v), lsu, factors[species], lsu * one_lsu * factors[species] * float(v), region)
    return out


def mapping_regions():
    """{iso3: FAO region} straight from FAO_country_region_mappings.csv"""
    import csv
    import os
    import lib
    d = os.path.join(lib.REPO, "data", "no_food_trade", "animal_feed_data")
    out, amb = {}, {}
    for r in csv.DictReader(open(os.path.join(d, "FAO_country_region_mappings.csv"))):
        if r["alpha3"] in out:
            if r["FAO-region-EK"] != out[r["alpha3"]]:
                amb.setdefault(r["alpha3"], [out[r["alpha3"]]]).append(r["FAO-region-EK"] + " (" + r["country"] + ")")
            continue          # the first row of an alpha3 code defines its region (territories share their parent's code)
        out[r["alpha3"]] = r["FAO-region-EK"]
    mapping_regions.ambiguous = amb
    return out


def region_scan(ctx):
    """every model country code + WOR: the region main() hands to the LSU factor lookup is the one the mapping file gives
    for that country (SWT is the data's SWZ); 'Other' only when the mapping file has no row for it"""
    import csv
    import os
    import lib
    p = os.path.join(lib.REPO, "data", "no_food_trade", "computer_readable_combined.csv")
    codes = [r[0] for r in csv.reader(open(p))][1:] + ["WOR"]
    regions = mapping_regions()
    runs = [{"code": c, "scenario": "baseline", "feed": [0.0], "grass": [0.0], "kdict": KD0, "months": [], "shape": "region"} for c in codes]
    res = ctx.run_impl("c07_audit", {"runs": runs})["results"]
    nother = 0
    for c, r in zip(codes, res):
        rep = {"kind": "counterexample", "region_scan": c}
        if "error" in r:
            ctx.violation(f"C07:region-differs-from-mapping@set_livestock_unit_factors:{c}", f"main() raised {r['error']} for {c}", rep)
            continue
        want = regions.get("SWZ" if c == "SWT" else c, "Other")
        nother += want == "Other"
        ctx.count(("region", c), nontrivial=True)
        if r.get("region") != want:
            ctx.violation(f"C07:region-differs-from-mapping@set_livestock_unit_factors:{c}",
                          f"{c}: main() looks up the regional LSU factors of region {r.get('region')!r} (CountryData built for "
                          f"{r.get('country_name')!r}) but FAO_country_region_mappings.csv puts the country in {want!r}", rep)
    ctx.notes["region_scan"] = {"codes": len(codes), "codes_without_row_in_mapping_file (Other in both)": nother,
                                "model_codes_with_several_rows_of_different_regions_in_the_mapping_file (first row used)":
                                    {k: v for k, v in mapping_regions.ambiguous.items() if k in codes}}


def requirement_audit(ctx):
    """the energy requirement the herd objects use at month 0 of main() = head x LSU x one_LSU x regional factor of the data"""
    runs = [{"code": c, "scenario": "baseline", "feed": [0.0], "grass": [0.0], "kdict": KD0, "months": [0], "shape": "requirement"}
            for c in REQ_COUNTRIES]
    res = ctx.run_impl("c07_audit", {"runs": runs})["results"]
    seen, n = set(), 0
    for rn, r in zip(runs, res):
        rep = {"kind": "counterexample", "requirement_audit": rn["code"]}
        if "error" in r:
            ctx.violation("C07:requirement-differs-from-data@set_LSU_attributes:main-raised", f"main() raised {r['error']} for {rn['code']}", rep)
            continue
        want = data_requirements(rn["code"])
        got = {r["statics"][c["i"]]["type"]: (c, r["statics"][c["i"]]) for c in r["months"]["0"]["calls"]}
        if set(want) != set(got):
            ctx.violation("C07:requirement-differs-from-data@create_animal_objects:herds",
                          f"{rn['code']}: herds simulated {sorted(got)} but the data has {sorted(want)}", rep)
        for t in sorted(set(want) & set(got)):
            head, lsu, fac, req, region = want[t]
            c, st = got[t]
            n += 1
            seen.add(t)
            ctx.count(("requirement", rn["code"], t), nontrivial=True)
            if not abs(c["req"] - req) <= 1e-9 * abs(req) or not abs(c["cur"] - head) <= 1e-9 * head:
                ctx.violation(f"C07:requirement-differs-from-data@set_LSU_attributes:{t}",
                              f"{rn['code']} ({region}) {t}: the herd object requires {c['req']!r} billion kcal/month for {c['cur']!r} head "
                              f"(LSU {st['livestock_unit']!r}, factor {st['LSU_factor']!r}) but the data files give {req!r} for {head!r} head "
                              f"(LSU {lsu!r}, regional factor {fac!r})", dict(rep, species=t))
    missing = sorted(set(TYPES) - seen)
    ctx.notes["requirement_audit"] = {
        "countries": REQ_COUNTRIES, "herds_compared": n, "species_names_covered": sorted(seen), "species_names_not_covered": missing,
        "note": "the theorems and the model take each herd's requirement (LSU x one_LSU x factor x head) as given (feeder_ok only asks "
                "requirement >= 0); that the requirement the objects use is the one of the shipped attribute / regional tables is "
                "checked by this audit only, for the listed countries"}
    if missing:
        ctx.violation("C07:requirement-audit-coverage", f"species names not covered by the fixed countries: {missing}", {"kind": "counterexample"})


# ------------------------------------------------------------------ direct audit of one observed call

def audit_call(c, out, eg, ef, dig_rum, what):
    """the property's clauses on one call of feed_the_species: c = inputs (cur, req, g, f, rum), out = [g2, f2, bal, fed]"""
    bad = []
    g2, f2, bal, fed = out
    sc = max(1.0, abs(c["g"]), abs(c["f"]), abs(c["req"]))
    gu, fu = c["g"] - g2, c["f"] - f2
    deliv = c["req"] - bal
    t = 1e-9 * sc
    if not (-t <= gu <= c["g"] + t and -t <= fu <= c["f"] + t):
        bad.append(("conservation", f"used grass {gu!r} of {c['g']!r}, feed {fu!r} of {c['f']!r}"))
    if not (-t <= deliv <= c["req"] + t):
        bad.append(("overfeed", f"delivered {deliv!r} of required {c['req']!r}"))
    if abs(deliv - (gu * eg + fu * ef)) > t:
        bad.append(("energy-accounting", f"delivered {deliv!r} but consumed grass*{eg}+feed*{ef} = {gu * eg + fu * ef!r}"))
    if not dig_rum and gu != 0:
        bad.append(("grass-to-non-ruminant", f"non-ruminant used grass {gu!r}"))
    cur = c["cur"]
    if not fed <= cur:
        bad.append(("fed-exceeds-herd", f"fed {fed!r} > herd {cur!r}"))
    if not (cur - fed >= 0 and fed >= 0):
        bad.append(("negative-starving", f"fed {fed!r}, herd {cur!r}: starving {cur - fed!r}"))
    if bal <= 1e-12 * abs(c["req"]):
        if fed != cur:
            bad.append(("fed-full", f"requirement met but fed {fed!r} != herd {cur!r}"))
    else:
        want = cur * deliv / c["req"]
        if abs(fed - want) > 0.5 + 1e-6 * max(1.0, abs(want)):
            bad.append(("fed-partial", f"fed {fed!r} but herd*delivered/required = {want!r}"))
    return [(k, f"{what}: {w}") for k, w in bad]


# ------------------------------------------------------------------ check

def feeder_term(rum, cur, req, eg, ef):
    return f"(mk_feeder_q {cbool(rum)} {fql([cur, req, eg, ef])})"


def tie_fail(ctx, what, detail, case, nbad):
    ctx.tie_ok = False
    if nbad <= 3:
        ctx.broken.append(f"correspondence {what}: {detail}")
        ctx.violation(f"C07:tie:{what}", f"model and implementation disagree ({detail})", {"kind": "tie-broken", "case": case})


def run(ctx):
    ctx.level = "proof"
    ctx.rule = ("case = one call of feed_the_species (herd, requirement, efficiencies, grass, feed) or one feed_animals pass over "
                "1-8 generated herds, or one month of a real-country run of main(); supplies are placed on the requirement "
                "boundaries (0, fractions, exactly enough for the first k herds, 4x); non-trivial = requirement > 0 and at "
                "least one supply > 0; distinct = hash of the inputs")
    ctx.trusted += ["hand model Model/Herd.v of feed_the_species / feed_animals / sort order, tied by the differential check",
                    "Python round() = nearest integer, ties to even (Base/QRound.v); float ties within 1e-6 of a half-integer "
                    "may differ by one animal (accepted by the comparator, counted)",
                    "exact-grid chain cases replace the constant one_LSU_monthly_billion_kcal by 2^-12 on the generated herds "
                    "(instance attribute) so that float arithmetic is exact; float-mode cases use the real constant"]
    ctx.assumptions += ["supplies, herds and requirements are non-negative; digestion efficiencies are positive "
                        "(hypotheses of every theorem; Example hypotheses_satisfiable)"]
    ctx.check_props()
    bok, bad, out = ctx.build(["Model/HerdCheck.vo"])
    if not bok:
        ctx.tie_ok = False
        ctx.broken.append(f"model does not compile: {bad}")
        return
    requirement_audit(ctx)
    region_scan(ctx)
    rng = ctx.rng
    q = ctx.quick
    sp_cases = [gen_species_case(rng) for _ in range(1500 if q else 30000)]
    ch_cases = [gen_chain_case(rng) for _ in range(400 if q else 8000)]
    or_cases = [gen_order_case(rng) for _ in range(80 if q else 1000)]
    res = ctx.run_impl("c07_impl", {"species_cases": sp_cases, "chain_cases": ch_cases, "order_cases": or_cases})
    terms, meta = [], []
    dist = {"species": 0, "species_exact": 0, "zero_requirement": 0, "full_by_grass": 0, "full_by_feed": 0, "partial": 0,
            "chain_rounds": 0, "chain_exact": 0, "chain_calls": 0, "zero_herd_after_nonzero": 0, "orders": 0, "orders_with_ties": 0,
            "main_months": 0, "negative_supply_cases": 0}
    naudit = 0

    def viol(kind, what, case):
        ctx.violation(f"C07:{kind}@feed_the_species", what, {"kind": "counterexample", "case": case})

    # ---- direct calls
    for c, r in zip(sp_cases, res["species"]):
        if "err" in r:
            tie_fail(ctx, "feed_the_species", f"implementation raised {r['err']}", c, 1)
            continue
        o = r["out"]
        dist["species"] += 1
        exact = c["kind"] != "float"
        dist["species_exact"] += exact
        if c["bal"] == 0:
            dist["zero_requirement"] += 1
        elif o[2] != 0:
            dist["partial"] += 1
        elif o[1] == c["f"]:
            dist["full_by_grass"] += 1
        else:
            dist["full_by_feed"] += 1
        sc = max(abs(c["g"]), abs(c["f"]), abs(c["bal"]))
        terms.append(f"check_feed {'0' if exact else TOL} {fq(sc)} {feeder_term(c['rum'], c['cur'], c['bal'], c['eg'], c['ef'])} "
                     f"{fq(c['g'])} {fq(c['f'])} {fql(o)}")
        meta.append(("feed_the_species", c))
        ctx.count((c["cur"], c["bal"], c["rum"], c["eg"], c["ef"], c["g"], c["f"]), nontrivial=c["bal"] > 0 and (c["g"] > 0 or c["f"] > 0))
        if c["kind"] == "negative-supply":
            dist["negative_supply_cases"] += 1
            continue
        if not r["same"]:
            viol("returns-other-objects", "feed_the_species does not return the supplies it was given", c)
        naudit += 1
        for k, w in audit_call({"cur": c["cur"], "req": c["bal"], "g": c["g"], "f": c["f"]}, o, c["eg"], c["ef"], c["rum"],
                               f"herd {c['cur']!r}, required {c['bal']!r}, grass {c['g']!r}, feed {c['f']!r}, ruminant={c['rum']}"):
            viol(k, w, c)
    # ---- chains
    for c, r in zip(ch_cases, res["chains"]):
        if "err" in r:
            tie_fail(ctx, "feed_animals", f"implementation raised {r['err']}", c, 1)
            continue
        exact = c["kind"] == "exact"
        tol = "0" if exact else TOL
        sps = c["species"]
        prev_curs = None
        for rd, ro in zip(c["rounds"], r["rounds"]):
            dist["chain_rounds"] += 1
            dist["chain_exact"] += exact
            calls = ro["calls"]
            case = {"species": sps, "rounds": [rd], "one_lsu": c["one_lsu"], "kind": c["kind"]}
            if prev_curs is not None and any(a > 0 and b == 0 for a, b in zip(prev_curs, rd["curs"])):
                dist["zero_herd_after_nonzero"] += 1
            prev_curs = rd["curs"]
            if [x["i"] for x in calls] != list(range(len(sps))):
                ctx.violation("C07:priority@feed_animals", f"herds served in order {[x['i'] for x in calls]}", {"kind": "counterexample", "case": case})
                continue
            reqs = [x["req"] for x in calls]
            sc = max([abs(rd["g"]), abs(rd["f"])] + [abs(x) for x in reqs])
            feeders = clist([feeder_term(s["dig"] == "ruminant", cur, req, s["eg"], s["ef"]) for s, cur, req in zip(sps, rd["curs"], reqs)])
            obs = clist([fql(x["out"]) for x in calls])
            terms.append(f"check_chain {tol} {fq(sc)} {feeders} {fq(rd['g'])} {fq(rd['f'])} {obs} {fq(ro['g_left'])} {fq(ro['f_left'])}")
            meta.append(("feed_animals", case))
            ctx.count((json.dumps(case, sort_keys=True),), nontrivial=any(x > 0 for x in reqs) and (rd["g"] > 0 or rd["f"] > 0))
            g, f = rd["g"], rd["f"]
            blocked_f = blocked_g = False
            for s, cur, x in zip(sps, rd["curs"], calls):
                dist["chain_calls"] += 1
                # step-wise agreement on the observed inputs, and the requirement formula
                terms.append(f"check_feed {tol} {fq(sc)} {feeder_term(x['rum'], cur, x['req'], s['eg'], s['ef'])} {fq(x['g'])} {fq(x['f'])} {fql(x['out'])}")
                meta.append(("feed_animals step", case))
                if exact:
                    if Fraction(x["req"]) != Fraction(s["lsu"]) * Fraction(c["one_lsu"]) * Fraction(s["lsuf"]) * Fraction(cur):
                        ctx.violation("C07:requirement@reset_NE_balance", f"requirement {x['req']!r} is not LSU*one_LSU*factor*herd",
                                      {"kind": "counterexample", "case": case})
                else:
                    terms.append(f"check_req (1#1000000000000) {fq(s['lsu'])} {fq(s['lsuf'])} {fq(cur)} {fq(x['req'])}")
                    meta.append(("requirement formula", case))
                what = f"herd {x['i']} ({s['dig']}) of {len(sps)}: herd {cur!r}, required {x['req']!r}, grass {x['g']!r}, feed {x['f']!r}"
                naudit += 1
                if x["g"] != g or x["f"] != f:
                    ctx.violation("C07:threading@feed_animals", what + f": offered something else than what was left ({g!r},{f!r})",
                                  {"kind": "counterexample", "case": case})
                if x["rum"] != (s["dig"] == "ruminant"):
                    ctx.violation("C07:ruminant-flag@feed_animals", what + f": is_ruminant={x['rum']}", {"kind": "counterexample", "case": case})
                for k, w in audit_call({"cur": cur, "req": x["req"], "g": x["g"], "f": x["f"]}, x["out"], s["eg"], s["ef"],
                                       s["dig"] == "ruminant", what):
                    ctx.violation(f"C07:{k}@feed_the_species", w, {"kind": "counterexample", "case": case})
                gu, fu = x["g"] - x["out"][0], x["f"] - x["out"][1]
                if (blocked_f and fu > 1e-9 * max(1, sc)) or (blocked_g and gu > 1e-9 * max(1, sc)):
                    ctx.violation("C07:priority@feed_animals", what + ": served although an earlier herd is still short",
                                  {"kind": "counterexample", "case": case})
                if x["out"][2] > 1e-12 * abs(x["req"]):
                    blocked_f = True
                    blocked_g = blocked_g or (s["dig"] == "ruminant")
                g, f = x["out"][0], x["out"][1]
            if ro["g_left"] != g or ro["f_left"] != f:
                ctx.violation("C07:threading@feed_animals", "feed_animals returns something else than the last herd left",
                              {"kind": "counterexample", "case": case})
            for cur, x, sv in zip(rd["curs"], calls, ro["starving"]):
                if sv != cur - x["out"][3] or sv < 0:
                    ctx.violation("C07:negative-starving@calculate_starving_animals_after_feed",
                                  f"starving {sv!r} for herd {cur!r}, fed {x['out'][3]!r}", {"kind": "counterexample", "case": case})
    # ---- priority order
    for c, r in zip(or_cases, res["orders"]):
        if "err" in r:
            tie_fail(ctx, "get_optimal_next_animal_to_feed", f"implementation raised {r['err']}", c, 1)
            continue
        dist["orders"] += 1
        dist["orders_with_ties"] += len(set(r["keys"])) < len(r["keys"])
        terms.append(f"check_order {fql(r['keys'])} {clist([cnat(i) for i in r['order']])}")
        meta.append(("priority order", c))
        for a, key, h in zip(c["animals"], r["keys"], r["hours"]):
            t = a["type"]
            kph = (c["kdict"]["KCALS_PER_CHICKEN"] if t == "chicken" else c["kdict"]["KCALS_PER_PIG"] if t == "pig" else
                   c["kdict"]["KCALS_PER_" + a["size"].upper() + "_ANIMAL"])
            terms.append(f"check_key (1#1000000000000) {fq(kph)} {fq(a['lsu'])} {fq(a['lsuf'])} {fq(a['ef'])} {fq(h)} {fq(key)}")
            meta.append(("priority key", c))
        ctx.count((json.dumps(c, sort_keys=True),), nontrivial=len(c["animals"]) > 1)
        ks = [r["keys"][i] for i in r["order"]]
        if any(ks[i] < ks[i + 1] for i in range(len(ks) - 1)) or sorted(r["order"]) != list(range(len(ks))) or not r["same_objects"]:
            ctx.violation("C07:order@get_optimal_next_animal_to_feed", f"returned order {r['order']} has keys {ks}",
                          {"kind": "counterexample", "case": c})
    # ---- real-country runs of main(): audit of every month + model agreement on sampled months
    runs = scale_runs(ctx, gen_runs(rng, 5 if q else 30, 4 if q else 8, 24 if q else 120, 6 if q else 10))
    mres = ctx.run_impl("c07_audit", {"runs": runs})["results"]
    nfeed = 0
    for rn, r in zip(runs, mres):
        if "error" in r:
            tie_fail(ctx, "main", f"main() raised {r['error']} for {rn['code']} {rn['scenario']}", {k: rn[k] for k in ("code", "scenario", "feed", "grass", "kdict")}, 1)
            continue
        nfeed += r["stats"]["feedings"]
        for fl_ in r["failures7"][:3]:
            ctx.violation(f"C07:{fl_['kind']}@main", f"{rn['code']} {rn['scenario']} {rn['shape']}: {fl_['what']}",
                          {"kind": "counterexample", "run": fl_.get("run"), "month": fl_.get("month")})
        for p in r.get("problems", []):
            ctx.violation("C07:trace@main", p, {"kind": "counterexample", "run": {k: rn[k] for k in ("code", "scenario", "feed", "grass", "kdict")}})
        st = r["statics"]
        # the order main() feeds in is the model's order of the implementation's own keys
        for m, mon in r["months"].items():
            dist["main_months"] += 1
            calls = mon["calls"]
            sc = max([abs(mon["grass_in"]), abs(mon["feed_in"])] + [abs(x["req"]) for x in calls])
            feeders = clist([feeder_term(st[x["i"]]["digestion"] == "ruminant", x["cur"], x["req"], st[x["i"]]["eg"], st[x["i"]]["ef"]) for x in calls])
            obs = clist([fql([x["g2"], x["f2"], x["bal"], x["fed"]]) for x in calls])
            terms.append(f"check_chain {TOL} {fq(sc)} {feeders} {fq(mon['grass_in'])} {fq(mon['feed_in'])} {obs} "
                         f"{fq(mon['grass_left'])} {fq(mon['feed_left'])}")
            meta.append(("main() month", {"code": rn["code"], "scenario": rn["scenario"], "shape": rn["shape"], "month": int(m),
                                          "feed": rn["feed"], "grass": rn["grass"], "kdict": rn["kdict"]}))
            ctx.count((rn["code"], rn["scenario"], rn["shape"], m), nontrivial=mon["feed_in"] > 0 or mon["grass_in"] > 0)
            for x in calls:
                s = st[x["i"]]
                terms.append(f"check_req (1#1000000000000) {fq(s['livestock_unit'])} {fq(s['LSU_factor'])} {fq(x['cur'])} {fq(x['req'])}")
                meta.append(("requirement formula", {"code": rn["code"], "species": s["type"]}))
    ctx.traces += nfeed
    ctx.count(n=nfeed)
    codes = ctx.coq_codes("c07", IMPORTS, terms, per_file=400)
    nbad = 0
    for code, (what, case) in zip(codes, meta):
        if code != 0:
            nbad += 1
            tie_fail(ctx, what, f"comparator code {code}", case, nbad)
    ctx.notes["correspondence"] = {"coq_cases": len(terms), "disagreements": nbad, "distribution": dist}
    ctx.notes["audit"] = {"calls_audited_directly": naudit, "main_runs": len(runs), "main_feedings_audited": nfeed,
                          "main_countries": sorted(set(r["code"] for r in runs))}
    ctx.sample({"feed_the_species": sp_cases[0], "observed": res["species"][0]})
    ctx.sample({"feed_animals": ch_cases[0], "observed_first_round": res["chains"][0].get("rounds", [None])[0]})
    ctx.sample({"order": or_cases[0], "observed": res["orders"][0]})


def replay(rep):
    import lib
    ctx = lib.Ctx("C07", "quick", rep.get("seed", 0))
    failed = []
    if "case" in rep and "species" in rep["case"] and "rounds" in rep["case"]:
        c = rep["case"]
        r = ctx.run_impl("c07_impl", {"chain_cases": [c]})["chains"][0]
        if "err" in r:
            failed.append(r["err"])
        else:
            for rd, ro in zip(c["rounds"], r["rounds"]):
                for s, cur, x in zip(c["species"], rd["curs"], ro["calls"]):
                    failed += audit_call({"cur": cur, "req": x["req"], "g": x["g"], "f": x["f"]}, x["out"], s["eg"], s["ef"],
                                         s["dig"] == "ruminant", f"herd {x['i']}")
                for cur, x, sv in zip(rd["curs"], ro["calls"], ro["starving"]):
                    if sv < 0:
                        failed.append(("negative-starving", f"starving {sv!r} for herd {cur!r}"))
    elif "case" in rep and "bal" in rep["case"]:
        c = rep["case"]
        r = ctx.run_impl("c07_impl", {"species_cases": [c]})["species"][0]
        if "err" in r:
            failed.append(r["err"])
        else:
            failed += audit_call({"cur": c["cur"], "req": c["bal"], "g": c["g"], "f": c["f"]}, r["out"], c["eg"], c["ef"], c["rum"], "call")
            print("observed [grass left, feed left, balance, fed]:", r["out"])
    elif "case" in rep and "animals" in rep["case"]:
        c = rep["case"]
        r = ctx.run_impl("c07_impl", {"order_cases": [c]})["orders"][0]
        ks = [r["keys"][i] for i in r["order"]] if "err" not in r else []
        if "err" in r or any(ks[i] < ks[i + 1] for i in range(len(ks) - 1)):
            failed.append(("order", str(r)))
    elif rep.get("region_scan"):
        before = len(ctx.violations)
        region_scan(ctx)
        failed += [(v["key"], v["what"]) for v in ctx.violations[before:]]
    elif rep.get("requirement_audit"):
        before = len(ctx.violations)
        requirement_audit(ctx)
        failed += [(v["key"], v["what"]) for v in ctx.violations[before:]]
    elif rep.get("run") or ("case" in rep and "code" in rep["case"]):
        rn = dict(rep.get("run") or rep["case"])
        rn.setdefault("months", [])
        r = ctx.run_impl("c07_audit", {"runs": [rn]})["results"][0]
        failed += [(f["kind"], f["what"]) for f in r.get("failures7", [])]
        if "error" in r:
            failed.append(("error", r["error"]))
    else:
        print("replay file carries no input (proof or tie broken without a concrete case):", rep.get("what"))
        return 1
    for f in failed[:10]:
        print("REPRODUCED:", f)
    if not failed and rep.get("kind") == "tie-broken":
        print("no property clause fails on this input; the model/implementation disagreement must be re-checked with ./check C07")
    return 1 if failed else 0
