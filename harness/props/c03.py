"""C03 - humans come before animal feed and biofuel.
proof : Props/C03.v - demand schedule shape (all horizons / durations), the seven shut-off options (regenerated from the
        source), use == charge in human rounds and zero where the charge is zero, ceilings and zero-after-shut-off in the
        feed round, pins.  The cross-round policy clauses are NOT theorems of this code (they depend on the solver and on
        rule-of-thumb constants); they are audited on real three-round runs.
tie   : translator gen_shutoff (fail-closed) + differential of FeedAndBiofuels demand functions vs Model/Rounds.demand
        + dispatch of the shut-off option in real runs vs the generated table (compared inside Coq).
audit : per real run: feed/biofuel allocated in every round and month <= demand and zero after shut-off; final < T =>
        essentially no feed/biofuel and final >= no-feed round; no-feed round reaches T => final >= T."""
import json

import pools
from lib import fq, fql, cstr, cnat

KNOWN_BELOW = "C03:feed-allocated-while-below-threshold@no-feed-round-cannot-reach-threshold"
ABS = 1e-6
IMPORTS = "From Allfed Require Import Gen.Shutoff Model.Rounds."
DEFS = """
Fixpoint lookup_shutoff (k : string) (t : list (string * (dur * dur * Q))) : option (dur * dur * Q) :=
  match t with [] => None | (k', v) :: t' => if String.eqb k k' then Some v else lookup_shutoff k t' end.
Definition dispatch_ok (opt : string) (n fm bm : nat) (thr : Q) (override : option Q) : nat :=
  match lookup_shutoff opt shutoff_table with
  | None => 2%nat
  | Some (f, b, t) =>
      let expected := match override with Some o => o | None => t end in   (* a numeric override wins over the option's own threshold *)
      if Nat.eqb (months_of f n) fm && Nat.eqb (months_of b n) bm && Qeq_bool expected thr then 0%nat else 1%nat
  end.
Definition demand_ok (annual : Q) (d n : nat) (obs : list Q) : nat :=
  if close_rel_list (1 # 1000000000000) (demand (monthly_of_annual annual) d n) obs then 0%nat else 1%nat.
"""


def run(ctx):
    ctx.level = "other"
    ctx.notes["explanation"] = (
        "Partial. Proved in Coq (all horizons, inputs, feasible assignments): demand schedules, shut-off table, use == charge "
        "and zero-where-charge-is-zero in human rounds, ceilings / zero-after-shut-off / pins in the feed round. The "
        "cross-round policy (threshold clauses) is runtime behaviour of three dependent solves plus rule-of-thumb constants: "
        "audited on sampled real runs, with the code's own tolerances made explicit (essentially no = each month's feed+"
        "biofuel below 0.1 % of monthly need; not lower = within 0.01 percentage points).")
    ctx.rule = ("case = (a) a demand-schedule call (annual total, duration, horizon) or (b) one real three-round run "
                "(country x option set incl. all seven shut-off schedules and thresholds 0/10/50/90/100); distinct = hash of "
                "inputs; non-trivial = (a) duration in 1..N-1, (b) the run has non-zero demand and three rounds")
    ctx.trusted += ["translator harness/gen_shutoff.py", "LP model tie is C01's; round-3 charge <= demand is C18's theorem"]
    okg = ctx.regen(["gen_shutoff"])
    ctx.check_props()
    rng = ctx.rng
    # ---------------- demand differential
    ncase = 80 if ctx.quick else 1500
    dcases = []
    for _ in range(ncase):
        n = rng.choice([1, 2, 12, 48, 60, 84, 120, rng.randint(1, 130)])
        dcases.append({"n": n, "feed_kcals": rng.choice([0.0, float(rng.randint(1, 10 ** 6)), rng.uniform(0, 1e6)]),
                       "biofuel_kcals": rng.choice([0.0, float(rng.randint(1, 10 ** 5)), rng.uniform(0, 1e5)]),
                       "feed_months": rng.choice([0, 1, 2, 3, 12, n, rng.randint(0, n)]),
                       "biofuel_months": rng.choice([0, 1, 2, 6, n, rng.randint(0, n)])})
    # ---- the run pool is FIXED and enumerable (so that cells failing on the unchanged tree can be listed as known findings):
    #      every cell of C16's country grid (164 countries x 128 documented presets and single-option variations) plus a fixed
    #      block of threshold overrides; quick = seeded sample + sentinels, thorough = the whole pool
    import csv as _csv
    import presets as _presets
    from lib import REPO as _REPO
    import os as _os
    codes = [r_["iso3"] for r_ in _csv.DictReader(open(_os.path.join(_REPO, "data", "no_food_trade", "computer_readable_combined.csv")))]
    cp = _presets.country_presets(extended=True)
    pool = [{"iso3": c_, "preset": n_, "option": o_} for n_, o_ in cp.items() for c_ in codes]
    for c_ in ["USA", "BRA", "ARG", "AUS", "CAN", "FRA", "DEU", "CHN", "IND", "RUS", "GBR", "JPN", "NGA", "EGY", "MEX", "IDN", "ZAF", "LUX",
               "MLT", "DJI"]:
        for sh_ in pools.FAMILIES["shutoff"]:
            for t_ in (0, 10, 50, 90):
                pool.append({"iso3": c_, "preset": f"thr_{sh_}_T{t_}",
                             "option": pools.option(shutoff=sh_, MINIMUM_PERCENT_FED_BEFORE_NONHUMAN_CONSUMPTION_ALLOWED=t_)})
    # the world aggregate (the dispatcher is called without a country row) under threshold overrides: a fixed block too
    wpool = []
    for wn_, wo_ in _presets.world().items():
        for sh_ in ("continued", "continued_after_10_percent_fed", "long_delayed_shutoff"):
            for t_ in (10, 60):
                wpool.append({"iso3": "WOR", "preset": f"{wn_}_thr_{sh_}_T{t_}",
                              "option": dict(wo_, shutoff=sh_, MINIMUM_PERCENT_FED_BEFORE_NONHUMAN_CONSUMPTION_ALLOWED=t_)})
    pool += wpool
    runs = list(pool) if not ctx.quick else rng.sample(pool, 14)
    # recorded witnesses (corpus) run first and are kept out of the random re-draws below
    import os
    pinned = []
    cdir = "/verif/corpus/C03"
    if os.path.isdir(cdir):
        for f in sorted(os.listdir(cdir))[: (2 if ctx.quick else 1000)]:
            c = json.load(open(os.path.join(cdir, f)))
            pinned.append({"iso3": c["iso3"], "option": c["option"], "preset": "corpus:" + f})
    # sentinels: large feed-dependent livestock countries where the threshold binds (policy-sensitive cells)
    sentinels = [{"iso3": c, "preset": "sentinel_after10_T50_baseline_breeding",
                  "option": pools.option(shutoff="continued_after_10_percent_fed", meat_strategy="baseline_breeding",
                                         MINIMUM_PERCENT_FED_BEFORE_NONHUMAN_CONSUMPTION_ALLOWED=50)}
                 for c in (["USA", "BRA"] if ctx.quick else ["USA", "BRA", "ARG", "AUS", "CAN", "FRA", "DEU", "CHN"])]
    sentinels.append({"iso3": "ARG", "preset": "sentinel_immediate_baseline_climate",
                      "option": pools.option(shutoff="immediate", grasses="baseline", crop_disruption="zero",
                                             fish="baseline", nutrition="baseline")})
    # very small countries (every monthly flow is a fraction of a billion kcal) with feed demand
    sentinels += [{"iso3": "LUX", "preset": "var_shutoff=continued", "option": pools.option(shutoff="continued")},
                  {"iso3": "MLT", "preset": "sentinel_long_delayed", "option": pools.option(shutoff="long_delayed_shutoff")}]
    # cells where the no-feed round stays below a threshold < 100 % while feed is demanded (the hand-off to the feed round is
    # capped there), and one world cell with a custom threshold
    bycell = {(c_["iso3"], c_["preset"]): c_ for c_ in pool}
    for key_ in (("JPN", "var_shutoff=continued_after_10_percent_fed"), ("JPN", "thr_continued_T50"), ("EGY", "thr_continued_T90"),
                 ("WOR", "world_no_adaptations_thr_continued_after_10_percent_fed_T60")):
        if key_ in bycell:
            sentinels.append(bycell[key_])
    runs = pinned + sentinels + runs
    res = ctx.run_impl("c03_impl", {"demand_cases": dcases, "runs": runs, "procs": 14}, timeout=3000 if ctx.quick else 20000)
    terms = []
    term_run = {}
    for c, o in zip(dcases, res["demand"]):
        nt = 0 < c["feed_months"] < c["n"]
        ctx.count(("demand", json.dumps(c, sort_keys=True)), nontrivial=nt)
        if "error" in o:
            ctx.tie_ok = False
            ctx.broken.append(f"demand function rejected {c}: {o}")
            ctx.violation("C03:tie:demand-rejected", str(o), {"kind": "tie-broken", "case": c})
            continue
        terms.append(f"demand_ok {fq(c['feed_kcals'])} {cnat(c['feed_months'])} {cnat(c['n'])} {fql(o['feed'])}")
        terms.append(f"demand_ok {fq(c['biofuel_kcals'])} {cnat(c['biofuel_months'])} {cnat(c['n'])} {fql(o['biofuel'])}")
        # direct audit of the schedule clause
        for key, months in (("feed", c["feed_months"]), ("biofuel", c["biofuel_months"])):
            s = o[key]
            if months <= c["n"] and (len(s) != c["n"] or any(x != 0 for x in s[months:]) or any(x < 0 for x in s)):
                ctx.violation("C03:demand-schedule-shape", f"{key} schedule wrong for {c}", {"kind": "counterexample", "case": c, "observed": s})
    ctx.sample({"demand_case": dcases[0], "observed_feed_head": res["demand"][0].get("feed", [])[:4]}, limit=1)
    dist = {"runs": 0, "three_rounds": 0, "skipped_rounds": 0, "below_threshold": 0, "round1_reaches": 0, "failed": [],
            "by_shutoff": {}}
    for r in res["runs"]:
        o = r["option"]
        if "error" in r:
            dist["failed"].append([r["iso3"], r["error"], r.get("detail", "")[:100]])
            continue
        dist["runs"] += 1
        ctx.traces += 1
        dist["by_shutoff"][o["shutoff"]] = dist["by_shutoff"].get(o["shutoff"], 0) + 1
        n = len(r["feed_demand"])
        ov = o.get("MINIMUM_PERCENT_FED_BEFORE_NONHUMAN_CONSUMPTION_ALLOWED")
        overridden = "None" if ov is None else f"(Some {fq(float(ov))})"
        # the dispatcher first applies alter_scenario_if_known_to_fail (SLV / ALB / ECU with certain option sets are silently
        # rewritten to shutoff: immediate - modelled and proved about in C13); the table is compared with the EFFECTIVE value
        eff = r.get("effective_shutoff", o["shutoff"])
        if eff != o["shutoff"]:
            dist.setdefault("rewritten_by_known_to_fail_table", []).append([r["iso3"], o["shutoff"], eff])
        terms.append(f"dispatch_ok {cstr(eff)} {cnat(n)} {cnat(r['feed_months'])} {cnat(r['biofuel_months'])} "
                     f"{fq(r['threshold'])} {overridden}")
        term_run[terms[-1]] = {"iso3": r["iso3"], "option": o, "preset": r.get("preset"), "threshold_used": r["threshold"],
                               "feed_months": r["feed_months"], "biofuel_months": r["biofuel_months"]}
        nontriv = len(r["rounds"]) == 3 and (sum(r["feed_demand"]) + sum(r["biofuel_demand"])) > 0
        ctx.count(("run", r["iso3"], json.dumps({k: v for k, v in o.items() if k != "title"}, sort_keys=True)), nontrivial=nontriv)
        where = {"iso3": r["iso3"], "option": o, "preset": r.get("preset")}
        cell = f"@{r['iso3']}:{r.get('preset')}"
        if len(r["rounds"]) == 3:
            dist["three_rounds"] += 1
        else:
            dist["skipped_rounds"] += 1
        # clause: every round and month within demand, zero after shut-off
        for k, rd in enumerate(r["rounds"]):
            for nm, use, dem, months in (("feed", rd["feed"], r["feed_demand"], r["feed_months"]),
                                         ("biofuel", rd["biofuel"], r["biofuel_demand"], r["biofuel_months"])):
                for m in range(n):
                    if use[m] > dem[m] * (1 + 1e-6) + ABS:
                        what = "after-shutoff" if m >= months else "above-demand"
                        ctx.violation(f"C03:{nm}-{what}", f"round {k + 1} month {m}: {nm} {use[m]} > demand {dem[m]} ({r['iso3']})",
                                      {"kind": "counterexample", "rerun": where, "round": k + 1, "month": m, "use": use[m], "demand": dem[m]})
                        break
        pf1, pf3, T = r.get("pf1"), r["pf3"], r["threshold"]
        if pf1 is None:
            continue
        last = r["rounds"][-1]
        worst_share = max((f + b) / r["need"] * 100 for f, b in zip(last["feed"], last["biofuel"])) if n else 0.0
        if pf3 < T - 0.1:
            dist["below_threshold"] += 1
            if worst_share > 0.1:
                key = KNOWN_BELOW if pf1 < T - 0.1 else "C03:feed-allocated-while-below-threshold" + cell
                ctx.violation(key, f"{r['iso3']}: final {pf3:.4f} % < threshold {T} yet feed+biofuel reach {worst_share:.2f} % of "
                                   f"monthly need (no-feed round: {pf1:.4f} %)",
                              {"kind": "counterexample", "rerun": where, "pf1": pf1, "pf3": pf3, "threshold": T, "worst_share": worst_share})
            if pf3 < pf1 - 0.01:
                ctx.violation("C03:final-below-no-feed-round" + cell, f"{r['iso3']} ({r.get('preset')}): final {pf3} < no-feed round {pf1} while below threshold {T}",
                              {"kind": "counterexample", "rerun": where, "pf1": pf1, "pf3": pf3, "threshold": T})
        if pf1 >= T:
            dist["round1_reaches"] += 1
            if pf3 < T - 0.01:
                ctx.violation("C03:final-falls-below-threshold" + cell, f"{r['iso3']} ({r.get('preset')}): no-feed round {pf1} >= threshold {T} but final {pf3}",
                              {"kind": "counterexample", "rerun": where, "pf1": pf1, "pf3": pf3, "threshold": T})
        ctx.sample({"iso3": r["iso3"], "shutoff": o["shutoff"], "threshold": T, "pf_no_feed": pf1, "pf_final": pf3,
                    "max_feed_share_percent": worst_share}, limit=6)
    ctx.notes["input_distribution"] = dist
    if okg:
        ok, bad, _ = ctx.build(["Model/Rounds.vo"])
        if not ok:
            ctx.tie_ok = False
            ctx.broken.append(f"Model/Rounds does not compile against the regenerated table: {bad}")
            return
        codes = ctx.coq_codes("c03", IMPORTS, terms, defs=DEFS, per_file=120)
        for t, c in zip(terms, codes):
            if c != 0:
                ctx.tie_ok = False
                kind = "dispatch" if t.startswith("dispatch_ok") else "demand"
                ctx.broken.append(f"correspondence ({kind}) differs: {t[:160]}")
                run_ = term_run.get(t)
                what = f"model and implementation differ on {t[:200]}"
                if run_:
                    what = (f"{run_['iso3']} ({run_['preset']}): the run used threshold {run_['threshold_used']} and shut-off months "
                            f"{run_['feed_months']}/{run_['biofuel_months']}, not what the option dictionary asks for; " + what)
                ctx.violation(f"C03:tie:{kind}", what, {"kind": "counterexample" if run_ else "tie-broken", "term": t[:2000], "rerun_dispatch": run_})
                break


def replay(rep):
    from lib import Ctx
    ctx = Ctx("C03", "quick", int(rep.get("seed", 0)))
    if "rerun" in rep:
        res = ctx.run_impl("c03_impl", {"demand_cases": [], "runs": [rep["rerun"]], "procs": 1})
        r = res["runs"][0]
        print({k: r.get(k) for k in ("pf1", "pf3", "threshold", "error")})
        if "error" in r:
            return 1
        n = len(r["feed_demand"])
        last = r["rounds"][-1]
        share = max((f + b) / r["need"] * 100 for f, b in zip(last["feed"], last["biofuel"]))
        print("max feed+biofuel share of monthly need in the final round:", share)
        over = any(rd["feed"][m] > r["feed_demand"][m] * (1 + 1e-6) + ABS or rd["biofuel"][m] > r["biofuel_demand"][m] * (1 + 1e-6) + ABS
                   for rd in r["rounds"] for m in range(n))
        pf1, pf3, T = r.get("pf1"), r["pf3"], r["threshold"]
        bad = over or (pf1 is not None and ((pf3 < T - 0.1 and (share > 0.1 or pf3 < pf1 - 0.01)) or (pf1 >= T and pf3 < T - 0.01)))
        return 1 if bad else 0
    if rep.get("rerun_dispatch"):
        rd = rep["rerun_dispatch"]
        res = ctx.run_impl("c03_impl", {"demand_cases": [], "runs": [{"iso3": rd["iso3"], "option": rd["option"], "preset": rd.get("preset")}], "procs": 1})
        r = res["runs"][0]
        ov = rd["option"].get("MINIMUM_PERCENT_FED_BEFORE_NONHUMAN_CONSUMPTION_ALLOWED")
        print({k: r.get(k) for k in ("threshold", "feed_months", "biofuel_months", "effective_shutoff", "error")}, "override asked for:", ov)
        if "error" in r:
            return 1
        changed = (r["threshold"], r["feed_months"], r["biofuel_months"]) != (rd["threshold_used"], rd["feed_months"], rd["biofuel_months"])
        return 1 if (not changed or (ov is not None and abs(r["threshold"] - float(ov)) > 1e-9)) else 0
    if "case" in rep:
        res = ctx.run_impl("c03_impl", {"demand_cases": [rep["case"]], "runs": []})
        print(res["demand"][0])
        return 1
    print("replay file names no concrete input:", rep.get("what"), rep.get("broken"))
    return 1
