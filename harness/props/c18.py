"""C18 - hand-offs between rounds preserve totals, bounds and priorities.
proof: Props/C18.v over Model/Helpers.v (hand model of the four helpers of src/optimizer/parameters.py);
tie:   priority table extracted from the source by AST and compared inside Coq; the helpers called directly on
       generated arrays (dyadic grid: tight comparison; random floats: 1e-9) and on the captured hand-offs of real
       three-round runs, compared with the model inside Coq;
audit: every clause of the property evaluated directly on the implementation (generated inputs + real hand-offs)."""
import ast
import glob
import json
import os

import lib
from lib import fq, fql, cstr, clist, cnat

IMPORTS = "From Allfed Require Import Base.QList Model.Helpers Model.HelpersCheck."
ATTRS = ["fish", "meat", "milk", "greenhouse", "immediate_outdoor_crops", "new_stored_outdoor_crops", "stored_food",
         "scp", "cell_sugar", "seaweed"]
DOC_ORDER = ["fish", "meat", "dairy", "greenhouse", "outdoor_crops", "stored_food", "methane_scp", "cellulosic_sugar",
             "seaweed"]
TIGHT = "(1#1000000000000)"
LOOSE = "(1#1000000000)"

RETIME = {"meat_strategy": "feed_only_ruminants", "shutoff": "short_delayed_shutoff"}
REAL_POOL = [  # (country, option overrides): three-round runs of different character
    ("USA", {}), ("IND", {}), ("BRA", {}), ("CHN", {}), ("FRA", {}), ("NZL", {}), ("AUS", {}), ("NGA", {}),
    # runs in which the re-timing really moves meat (with-feed slaughter lags the no-feed schedule in some months)
    ("MNG", {"shutoff": "continued"}), ("MNG", dict(RETIME)), ("JOR", dict(RETIME)), ("SDN", dict(RETIME)),
    ("ETH", dict(RETIME)), ("BFA", dict(RETIME)), ("GRC", dict(RETIME)),
    ("ARG", {}), ("JPN", {}), ("DEU", {}), ("IDN", {}), ("ETH", {}), ("MEX", {}), ("GBR", {}), ("ZAF", {}),
    ("USA", {"scenario": "all_resilient_foods"}), ("IND", {"scenario": "all_resilient_foods"}),
    ("BRA", {"shutoff": "continued"}), ("CHN", {"shutoff": "short_delayed_shutoff"}),
    ("FRA", {"meat_strategy": "baseline_breeding"}), ("AUS", {"crop_disruption": "zero", "scenario": "no_resilient_foods"}),
    ("NZL", {"scenario": "seaweed"}), ("USA", {"shutoff": "continued_after_10_percent_fed"}),
    ("ARG", {"cull": "dont_eat_culled"}), ("IDN", {"meat_strategy": "feed_only_ruminants"}),
    ("USA", {}, 0), ("IND", {"shutoff": "continued"}, 0),   # threshold overridden to the legal boundary 0
    # small countries where the final round really gets a top-up (increase > 0 in some month)
    ("CRI", {"shutoff": "continued"}), ("KGZ", {"crop_disruption": "zero", "meat_strategy": "baseline_breeding"}),
    ("MDA", {"crop_disruption": "zero", "meat_strategy": "baseline_breeding"}),
    ("LVA", {"crop_disruption": "zero", "meat_strategy": "baseline_breeding"}),
    # no storage between years (culled meat must be eaten in the month of slaughter): no shipped preset uses it
    ("ARG", {"shutoff": "continued", "ratio_stocks_untouched": "no_stored_between_years"}),
    ("ARG", {"shutoff": "continued", "ratio_stocks_untouched": "baseline_no_stored_between_years"}),
    ("USA", {"ratio_stocks_untouched": "no_stored_between_years"}),
    ("MNG", {"shutoff": "continued", "ratio_stocks_untouched": "no_stored_between_years"}),
]


# ------------------------------------------------------------------ priority table from the source (AST)

def extract_order(repo):
    """-> (order [(dict key, [interpreter attributes summed])], validator [(name, attribute)]).
    Recognises only: X.append(consume(<sum of interpreted_results_round1.ATTR[month_index].kcals>)) inside the month
    loop, the dict literal {key: Food(kcals=X, ...)}, and the zip of two list literals in the validator."""
    from pyexpr import TranslatorRejected
    path = os.path.join(repo, "src/optimizer/parameters.py")
    tree = ast.parse(open(path).read())
    fn = None
    for node in ast.walk(tree):
        if isinstance(node, ast.FunctionDef) and node.name == "calculate_human_consumption_for_min_needs":
            fn = node
    if fn is None:
        raise TranslatorRejected(path, 0, "calculate_human_consumption_for_min_needs not found")
    loops = [n for n in fn.body if isinstance(n, ast.For)]
    if len(loops) != 1:
        raise TranslatorRejected(path, fn.lineno, "expected exactly one month loop")
    loop = loops[0]
    if not (isinstance(loop.target, ast.Name) and loop.target.id == "month_index"):
        raise TranslatorRejected(path, loop.lineno, "loop variable is not month_index")

    def attrs_of(e):
        if isinstance(e, ast.BinOp) and isinstance(e.op, ast.Add):
            return attrs_of(e.left) + attrs_of(e.right)
        # interpreted_results_round1.ATTR[month_index].kcals
        if (isinstance(e, ast.Attribute) and e.attr == "kcals" and isinstance(e.value, ast.Subscript)
                and isinstance(e.value.slice, ast.Name) and e.value.slice.id == "month_index"
                and isinstance(e.value.value, ast.Attribute) and isinstance(e.value.value.value, ast.Name)
                and e.value.value.value.id == "interpreted_results_round1"):
            return [e.value.value.attr]
        raise TranslatorRejected(path, getattr(e, "lineno", 0), "unrecognised consume() argument: " + ast.dump(e)[:120])

    seq = []
    for st in loop.body:
        if isinstance(st, ast.Assign) and len(st.targets) == 1 and isinstance(st.targets[0], ast.Name) \
                and st.targets[0].id == "remaining_kcals":
            continue
        if isinstance(st, ast.FunctionDef) and st.name == "consume":
            body = [ast.dump(b) for b in st.body]
            want = ast.parse("nonlocal remaining_kcals\nconsumed = min(food_kcals, remaining_kcals)\n"
                             "remaining_kcals -= consumed\nreturn consumed").body
            if body != [ast.dump(b) for b in want]:
                raise TranslatorRejected(path, st.lineno, "body of consume() changed")
            continue
        if (isinstance(st, ast.Expr) and isinstance(st.value, ast.Call) and isinstance(st.value.func, ast.Attribute)
                and st.value.func.attr == "append" and isinstance(st.value.func.value, ast.Name)
                and len(st.value.args) == 1 and isinstance(st.value.args[0], ast.Call)
                and isinstance(st.value.args[0].func, ast.Name) and st.value.args[0].func.id == "consume"
                and len(st.value.args[0].args) == 1):
            seq.append((st.value.func.value.id, attrs_of(st.value.args[0].args[0])))
            continue
        raise TranslatorRejected(path, st.lineno, "unrecognised statement in the month loop")
    keymap = None
    for st in fn.body:
        if isinstance(st, ast.Assign) and isinstance(st.targets[0], ast.Name) \
                and st.targets[0].id == "human_food_consumption" and isinstance(st.value, ast.Dict):
            keymap = []
            for k, v in zip(st.value.keys, st.value.values):
                kc = [kw.value for kw in v.keywords if kw.arg == "kcals"] if isinstance(v, ast.Call) else []
                if not (isinstance(k, ast.Constant) and len(kc) == 1 and isinstance(kc[0], ast.Name)):
                    raise TranslatorRejected(path, st.lineno, "unrecognised dictionary entry")
                keymap.append((k.value, kc[0].id))
    if keymap is None:
        raise TranslatorRejected(path, fn.lineno, "human_food_consumption dict literal not found")
    if [v for _, v in keymap] != [v for v, _ in seq]:
        raise TranslatorRejected(path, fn.lineno, "dictionary order differs from the order of the consume() calls")
    order = [(k, a) for (k, _), (_, a) in zip(keymap, seq)]
    # validator table
    vpath = os.path.join(repo, "src/optimizer/validate_results.py")
    vtree = ast.parse(open(vpath).read())
    vt = None
    for node in ast.walk(vtree):
        if isinstance(node, ast.FunctionDef) and node.name == "verify_food_usage_priorities_round2":
            for sub in ast.walk(node):
                if (isinstance(sub, ast.For) and isinstance(sub.iter, ast.Call) and isinstance(sub.iter.func, ast.Name)
                        and sub.iter.func.id == "zip" and len(sub.iter.args) == 2
                        and all(isinstance(a, ast.List) for a in sub.iter.args)):
                    a, b = sub.iter.args
                    if not all(isinstance(e, ast.Constant) for e in a.elts + b.elts) or len(a.elts) != len(b.elts):
                        raise TranslatorRejected(vpath, sub.lineno, "validator lists are not equal-length literals")
                    vt = [(x.value, y.value) for x, y in zip(a.elts, b.elts)]
    if vt is None:
        raise TranslatorRejected(vpath, 0, "validator priority table not found")
    return order, vt


# ------------------------------------------------------------------ generators

def dy(rng, hi, neg=False):
    v = rng.randint(0, int(hi * 64)) / 64.0
    return -v if neg else v


def gen_len(rng):
    r = rng.random()
    if r < 0.35:
        return rng.randint(1, 6)
    if r < 0.8:
        return rng.randint(7, 40)
    return rng.randint(41, 120)


def gen_fill(rng, dyadic):
    n = gen_len(rng)
    mode = rng.choice(["pos_sum", "pos_sum", "neg_sum", "all_neg", "no_neg", "zero_sum", "sparse", "one_big"])

    def val(hi=64.0):
        return dy(rng, hi) if dyadic else rng.uniform(0, hi) * rng.choice([1, 1e-3, 1e3])
    arr = []
    for _ in range(n):
        r = rng.random()
        if mode == "no_neg":
            arr.append(val() if r < 0.8 else 0.0)
        elif mode == "all_neg":
            arr.append(-val() if r < 0.9 else 0.0)
        elif mode == "sparse":
            arr.append(0.0 if r < 0.6 else (val() if r < 0.8 else -val()))
        else:
            arr.append(val() if r < 0.5 else (-val() if r < 0.9 else 0.0))
    s = sum(arr)
    k = rng.randrange(n)
    if mode in ("pos_sum", "one_big") and s < 0:
        arr[k] = arr[k] - s + (val(8.0) if mode == "pos_sum" else 0.0)
    if mode == "neg_sum" and s >= 0:
        arr[k] = arr[k] - s - (val(8.0) + 1 / 64.0)
    if mode == "zero_sum":
        arr[k] = arr[k] - sum(arr)
    return {"kind": "fill", "arr": arr, "mode": mode, "dyadic": dyadic, "as_list": rng.random() < 0.2}


def gen_near_equal(rng, dyadic):
    """round2 = round1 * (1 + eps_m), |eps_m| in [1e-6, 1e-2] of mixed sign, sum(round2) >= sum(round1):
    variants: several lower months, a single slightly lower month, exactly equal totals, identical series"""
    n = max(2, gen_len(rng))
    variant = rng.choice(["mixed", "mixed", "single_lower", "exact_tie_total", "all_within_1e-4", "identical_but_one"])
    if dyadic:
        r1 = [float(rng.randint(256 * 64, 4096 * 64)) / 64.0 for _ in range(n)]
    else:
        r1 = [rng.uniform(5.0, 5000.0) for _ in range(n)]

    def delta(v, hi=1e-2):
        lo = 1e-6
        if variant == "all_within_1e-4":
            hi = 1e-4
        e = 10 ** rng.uniform(-6, -2) if hi >= 1e-2 else 10 ** rng.uniform(-6, -4)
        e = min(max(e, lo), hi * 0.99)
        if dyadic:
            return max(1, int(v * e * 64)) / 64.0
        return v * e
    sign = [rng.choice([1, 1, -1]) for _ in range(n)]
    if variant in ("single_lower", "identical_but_one"):
        sign = [1] * n
        sign[rng.randrange(n)] = -1
    if all(x > 0 for x in sign):
        sign[rng.randrange(n)] = -1
    d = [delta(v) for v in r1]
    if variant == "identical_but_one":
        k = sign.index(-1)
        up = rng.choice([j for j in range(n) if j != k])
        d = [(d[j] if j in (k, up) else 0.0) for j in range(n)]
        d[up] = max(d[up], d[k]) if dyadic else max(d[up], d[k] * 1.5)
        d[up] = min(d[up], r1[up] / 128.0)
        d[k] = min(d[k], d[up])
    r2 = [v + sg * dv for v, sg, dv in zip(r1, sign, d)]
    if variant == "exact_tie_total" and dyadic:
        # move exactly what the lower months lose into one higher month: totals are equal
        lost = sum(dv for sg, dv in zip(sign, d) if sg < 0)
        ups = [j for j in range(n) if sign[j] > 0] or [0]
        r2 = [v - dv if sg < 0 else v for v, sg, dv in zip(r1, sign, d)]
        share = int(lost * 64) // len(ups)
        for j in ups:
            r2[j] += share / 64.0
        r2[ups[0]] += lost - (share / 64.0) * len(ups)
    margin = 0.0 if dyadic else 1e-7 * sum(r1)   # floats: stay clear of a float-vs-exact tie of the sum test
    tries = 0
    while sum(r2) < sum(r1) + margin and tries < 4 * n:
        tries += 1
        neg = [j for j in range(n) if r2[j] < r1[j]]
        if len(neg) <= 1:
            j = max(range(n), key=lambda q: r1[q] if r2[q] >= r1[q] else -1)
            r2[j] = r1[j] + min(r1[j] / 128.0, (sum(r1) - sum(r2)) + (1 / 64.0 if dyadic else 1e-6 * r1[j] + margin) + (r2[j] - r1[j]))
            break
        j = rng.choice(neg)
        r2[j] = r1[j] + (r1[j] - r2[j])
    if sum(r2) < sum(r1) + margin:
        k = min(range(n), key=lambda q: r2[q] - r1[q])
        r2 = [max(a, b) for a, b in zip(r1, r2)]
        r2[k] = r1[k]
    return {"kind": "redist", "r1": r1, "r2": r2, "mode": "near_equal:" + variant, "dyadic": dyadic}


def gen_near_tie_total(rng, dyadic):
    """round-2 total below OR above the round-1 total by a relative 1e-6 .. 1e-3 (timing differs freely): just below
    -> the code must abandon round 2 (None), just above -> it must re-time and keep the round-2 total"""
    n = max(2, gen_len(rng))
    if dyadic:
        r1 = [float(rng.randint(256 * 64, 4096 * 64)) / 64.0 if rng.random() < 0.9 else 0.0 for _ in range(n)]
        r1[0] = max(r1[0], 256.0)
    else:
        r1 = [rng.uniform(5.0, 5000.0) if rng.random() < 0.9 else 0.0 for _ in range(n)]
        r1[0] = max(r1[0], 5.0)
    r2 = list(r1)
    rng.shuffle(r2)
    s1 = sum(r1)
    rel = 10 ** rng.uniform(-6, -3)
    side = rng.choice(["below", "below", "above"])
    d = rel * s1
    if dyadic:
        d = max(1, int(d * 64)) / 64.0
    k = max(range(n), key=lambda q: r2[q])
    r2[k] = r2[k] - d if side == "below" else r2[k] + d
    return {"kind": "redist", "r1": r1, "r2": r2, "mode": "near_tie_total:" + side, "dyadic": dyadic}


def gen_redist(rng, dyadic):
    u = rng.random()
    if u < 0.25:
        return gen_near_equal(rng, dyadic)
    if u < 0.45:
        return gen_near_tie_total(rng, dyadic)
    n = gen_len(rng)
    mode = rng.choice(["retimed_more", "retimed_more", "retimed_equal", "less", "identical", "random", "late_peak"])

    def val(hi=64.0):
        return dy(rng, hi) if dyadic else rng.uniform(0, hi) * rng.choice([1, 1e-2, 1e3])
    r1 = [val() if rng.random() < 0.8 else 0.0 for _ in range(n)]
    if mode == "identical":
        r2 = list(r1)
    elif mode == "random":
        r2 = [val() if rng.random() < 0.8 else 0.0 for _ in range(n)]
    elif mode == "late_peak":
        r2 = [0.0] * n
        r2[-1] = sum(r1) + (val(16.0) if dyadic else 1.0)
        if not dyadic:
            r2[-1] *= 1.01
    else:
        r2 = list(r1)
        rng.shuffle(r2)
        if mode == "retimed_more":
            for _ in range(rng.randint(1, 3)):
                r2[rng.randrange(n)] += val(16.0) + (0 if dyadic else 1e-3 * (1 + sum(r1)))
        elif mode == "less":
            k = max(range(n), key=lambda i: r2[i])
            if r2[k] > 0:
                r2[k] = r2[k] / 2 if dyadic else r2[k] * 0.5
            else:
                r1[0] += 1.0
    if not dyadic and mode in ("retimed_equal", "identical", "random"):
        # keep float sums away from an exact-vs-float tie of the `sum1 > sum2` branch
        r2[0] += 1e-3 * (1 + sum(r1)) * rng.choice([1, -1] if r2[0] > 1e-2 * (1 + sum(r1)) else [1])
    if rng.random() < 0.02 and n >= 2:
        r2 = r2 + [1.0, 2.0]  # shape error (a length-1 series would be broadcast by numpy: not generated)
    return {"kind": "redist", "r1": r1, "r2": r2, "mode": mode, "dyadic": dyadic}


def gen_bump(rng, dyadic, small):
    n = gen_len(rng) if not small else rng.randint(1, 12)
    hi = 16.0 if small else 4096.0
    out = {k: [] for k in ("b", "f", "inc", "maxb", "maxf", "avail")}
    mode = rng.choice(["domain"] * 5 + ["out_of_domain"])
    for _ in range(n):
        def val(h=hi):
            return dy(rng, h) if dyadic else rng.uniform(0, h)
        maxb, maxf = (val() if rng.random() < 0.85 else 0.0), (val() if rng.random() < 0.9 else 0.0)
        r = rng.random()
        b = 0.0 if r < 0.25 else (maxb if r < 0.4 else (min(val(), maxb)))
        r = rng.random()
        f = 0.0 if r < 0.25 else (maxf if r < 0.4 else (min(val(), maxf)))
        r = rng.random()
        inc = 0.0 if r < 0.15 else (val(hi / 4) if r < 0.7 else val(2 * hi))
        r = rng.random()
        if r < 0.45:
            avail = b + f + 2 * hi + val()
        elif r < 0.8:
            avail = b + f + val(hi / 4)
        elif r < 0.9:
            avail = b + f
        else:
            avail = max(0.0, b + f - val(hi / 8))
        if rng.random() < 0.12:
            # the configuration that exposed the regulariser leak: equal potential increases, nothing used yet
            b = f = 0.0
            maxb = maxf = inc = (rng.randint(1, int(hi)) if dyadic else rng.uniform(1, hi)) * 1.0
            avail = 10.0 * maxb
        if mode == "out_of_domain":
            r = rng.random()
            if r < 0.3:
                b = maxb + val(hi / 4) + 1.0
            elif r < 0.6:
                f = maxf + val(hi / 4) + 1.0
            elif r < 0.8:
                inc = -val(hi / 4) - 1 / 64.0
            avail = val(2 * hi) if rng.random() < 0.5 else avail
        for k, v in (("b", b), ("f", f), ("inc", inc), ("maxb", maxb), ("maxf", maxf), ("avail", avail)):
            out[k].append(float(v))
    out.update({"kind": "bump", "mode": mode, "dyadic": dyadic, "small": small})
    return out


def gen_minneeds(rng, dyadic):
    n = gen_len(rng)
    K = rng.choice([2100.0, 2100.0, 2000.0, 1800.5, 2560.0])
    T = rng.choice([90.0, 90.0, 100.0, 75.0, 50.0, 12.5, 80.0])
    mode = rng.choice(["realistic", "realistic", "pf_above_T", "pf_free", "scarce", "malformed"])
    present = [rng.random() < p for p in (0.8, 0.9, 0.8, 0.5, 0.9, 0.7, 0.8, 0.4, 0.4, 0.4)]
    series = {}
    for a, pr in zip(ATTRS, present):
        hi = rng.choice([16.0, 128.0, 512.0, 1500.0])
        series[a] = [((dy(rng, hi) if dyadic else rng.uniform(0, hi)) if (pr and rng.random() < 0.9) else 0.0)
                     for _ in range(n)]
    totals = [sum(series[a][m] for a in ATTRS) for m in range(n)]
    if mode == "realistic":        # percent fed = worst month of round 1
        pf = 100.0 * min(totals) / K
    elif mode == "pf_above_T":
        pf = T + rng.choice([0.0, 1 / 64.0, 5.0, 40.0])
    elif mode == "scarce":
        pf = rng.choice([0.0, 1.5, 6.25])
    else:
        pf = rng.choice([25.0, 50.0, 62.5, 75.0, 87.5, 100.0, 3.125]) if dyadic else rng.uniform(0, 130)
    Kconv, N = K, n
    if mode == "malformed":
        r = rng.random()
        if r < 0.3:
            N = n + rng.randint(1, 3)
        elif r < 0.55:
            T, pf = rng.choice([120.0, 150.0]), 160.0     # ceiling above the validator's daily need
        elif r < 0.8:
            a = rng.choice(ATTRS)
            series[a][rng.randrange(n)] = -(dy(rng, 64.0) + 1.0)   # negative "eaten" amount
            pf = 50.0
        else:
            Kconv = K / 2
            pf = 87.5
    # fat / protein tracked flags on the stub round-1 results: all four combinations (the clauses are about kcals)
    fl = rng.choice([(False, False), (False, False), (True, False), (False, True), (True, True)])
    return {"kind": "minneeds", "K": K, "T": T, "pf": float(pf), "Kconv": Kconv, "N": N, "series": series, "mode": mode,
            "dyadic": dyadic, "inc_fat": fl[0], "inc_protein": fl[1]}


def boundary_minneeds(rng):
    """always generated (both tiers, correspondence and audit): threshold exactly 0 (int and float), exactly 100,
    and threshold == no-feed result (the strict `>` boundary), each on a dyadic and a float instance"""
    out = []
    for dyadic in (True, False):
        for what in ("T=0(int)", "T=0.0", "T=100", "T=pf", "T=0,pf=0"):
            c = gen_minneeds(rng, dyadic)
            while c["mode"] == "malformed" or min(sum(c["series"][a][m] for a in ATTRS) for m in range(c["N"])) <= 0:
                c = gen_minneeds(rng, dyadic)
            c["pf"] = float(100.0 * min(sum(c["series"][a][m] for a in ATTRS) for m in range(c["N"])) / c["K"])
            while what == "T=pf" and c["pf"] > 100.0:
                # a threshold above 100 % is (rightly) refused by the function's own validator: keep T = pf legal
                for a in ATTRS:
                    c["series"][a] = [v / 2 for v in c["series"][a]]
                c["pf"] = float(100.0 * min(sum(c["series"][a][m] for a in ATTRS) for m in range(c["N"])) / c["K"])
            if what == "T=0(int)":
                c["T"], c["T_int"] = 0.0, True
            elif what == "T=0.0":
                c["T"] = 0.0
            elif what == "T=100":
                c["T"] = 100.0
                c["T_int"] = dyadic
            elif what == "T=pf":
                c["T"] = c["pf"]
            else:
                c["T"], c["pf"] = 0.0, 0.0
            c["mode"] = "boundary:" + what
            out.append(c)
    # always: all four flag combinations with a no-feed result BELOW the threshold (and one above it)
    for k, (fat, prot) in enumerate([(False, False), (True, False), (False, True), (True, True)] * 2):
        dyadic = k < 4
        c = gen_minneeds(rng, dyadic)
        while c["mode"] == "malformed" or min(sum(c["series"][a][m] for a in ATTRS) for m in range(c["N"])) <= 0:
            c = gen_minneeds(rng, dyadic)
        c["T"] = 100.0 if k % 2 == 0 else 90.0
        worst = float(100.0 * min(sum(c["series"][a][m] for a in ATTRS) for m in range(c["N"])) / c["K"])
        while worst > 80.0:
            for a in ATTRS:
                c["series"][a] = [v / 2 for v in c["series"][a]]
            worst = float(100.0 * min(sum(c["series"][a][m] for a in ATTRS) for m in range(c["N"])) / c["K"])
        c["pf"] = worst
        c["inc_fat"], c["inc_protein"] = fat, prot
        c["mode"] = "flags:pf<T"
        out.append(c)
    return out


def corpus_cases():
    out = []
    for fn in sorted(glob.glob(os.path.join(lib.VERIF, "corpus", "C18", "*.json"))):
        d = json.load(open(fn))
        for c in d.get("cases", []):
            c = dict(c)
            c["corpus"] = os.path.basename(fn)
            out.append(c)
    return out


# ------------------------------------------------------------------ Coq terms

def hexed(case):
    """the payload for the implementation: floats as hex strings (exact)"""
    def h(v):
        if isinstance(v, list):
            return [h(x) for x in v]
        if isinstance(v, dict):
            return {k: h(x) for k, x in v.items()}
        if isinstance(v, float):
            return v.hex()
        return v
    return {k: (h(v) if k in ("arr", "r1", "r2", "b", "f", "inc", "maxb", "maxf", "avail", "series", "K", "T", "pf", "Kconv")
                else v) for k, v in case.items()}


def unhex(x):
    if isinstance(x, list):
        return [unhex(v) for v in x]
    return float.fromhex(x) if isinstance(x, str) else float(x)


def maxabs(*ls):
    m = 0.0
    for l in ls:
        for v in l:
            m = max(m, abs(v))
    return m


def term_for(case, r):
    """Coq term (nat) comparing model and observation for one case"""
    tight = case.get("dyadic", False)
    tol = TIGHT if tight else LOOSE
    k = case["kind"]
    raised = "err" in r
    if k == "fill":
        if raised:
            return None
        scale = 0.0 if tight else maxabs(case["arr"])
        return f"check_fill {tol} {fq(scale)} {fql(case['arr'])} {fql(unhex(r['out']))}"
    if k == "redist":
        obs = "ORaised" if raised else ("ONone" if r["out"] is None else f"(OVal {fql(unhex(r['out']))})")
        scale = 0.0 if tight else maxabs(case["r1"], case["r2"])
        return f"check_redist {tol} {fq(scale)} {fql(case['r1'])} {fql(case['r2'])} {obs}"
    if k == "bump":
        if raised:
            return None
        scale = 0.0 if (tight and case.get("small")) else maxabs(*[case[x] for x in ("b", "f", "inc", "maxb", "maxf", "avail")])
        tol = TIGHT if tight else LOOSE
        args = " ".join(fql(case[x]) for x in ("b", "f", "inc", "maxb", "maxf", "avail"))
        return f"check_bump {tol} {fq(scale)} {args} {fql(unhex(r['b']))} {fql(unhex(r['f']))}"
    if k == "increase":
        return (f"check_increase {LOOSE} {TIGHT} {fq(case['population'])} {fq(case['days'])} {fq(case['const'])} "
                f"{fql(case['meat1'])} {fql(case['meat3'])} {fql(unhex(r['inc']))}")
    if k == "minneeds":
        if raised:
            obs = "ORaised"
        else:
            obs = "(OVal " + clist([f"({cstr(kk)}, {fql(unhex(r['out'][kk]))})" for kk in r["keys"]]) + ")"
        scale = 0.0 if tight else maxabs(*case["series"].values())
        ser = " ".join(fql(case["series"][a]) for a in ATTRS)
        tracked = "true" if (case.get("inc_fat") or case.get("inc_protein")) else "false"
        return (f"check_min_needs {LOOSE if not tight else '(1#100000000000)'} {fq(scale)} {tracked} {fq(case['K'])} {fq(case['T'])} "
                f"{fq(case['pf'])} {fq(case['Kconv'])} {cnat(case['N'])} (mk_r1 {ser}) {obs}")
    raise ValueError(k)


MISMATCH = {"fill": {1: "values differ"},
            "redist": {1: "values differ", 2: "model re-times, implementation skips round 2",
                       3: "model skips round 2, implementation re-times", 4: "model rejects, implementation returns",
                       5: "model returns, implementation raises"},
            "bump": {1: "biofuel differs", 2: "feed differs"},
            "increase": {1: "requested increase differs from the meat gain of the final round", 3: "lengths differ"},
            "minneeds": {1: "values differ", 2: "dictionary keys/order differ", 3: "number of keys differs",
                         4: "model accepts, implementation raises", 5: "model rejects, implementation returns"}}


def branch_tags(case, r):
    """which branches of the code a case exercises (computed from inputs/outputs; counted in ctx.notes)"""
    k = case["kind"]
    t = []
    if k == "fill":
        a = case["arr"]
        nneg = sum(1 for v in a if v < 0)
        t.append("fill:no_negatives" if nneg == 0 else "fill:has_negatives")
        if nneg:
            out = unhex(r["out"]) if "out" in r else []
            t.append("fill:all_compensated(break taken)" if out and min(out) >= 0 else "fill:deficit_remains(loop exhausted)")
            if any(v > 0 for v in a):
                t.append("fill:transfer")
        if nneg > 1:
            t.append("fill:several_negatives")
    elif k == "redist":
        if "err" in r:
            t.append("redist:shape_error")
        elif r["out"] is None:
            t.append("redist:None(sum1>sum2)")
            if len(case["r1"]) == len(case["r2"]) and 0 < sum(case["r1"]) - sum(case["r2"]) < 1e-4 * sum(case["r1"]):
                t.append("redist:None,shortfall<0.01%")
        else:
            t.append("redist:retimed" if any(x < y for x, y in zip(case["r2"], case["r1"])) else "redist:nothing_to_move")
            if (len(case["r1"]) == len(case["r2"]) and any(x < y for x, y in zip(case["r2"], case["r1"]))
                    and all(abs(x - y) <= 1e-8 + 1e-2 * abs(y) for x, y in zip(case["r2"], case["r1"]))):
                t.append("redist:retimed,all_months_within_1%")
            if abs(sum(case["r1"]) - sum(case["r2"])) == 0:
                t.append("redist:equal_sums")
    elif k == "bump":
        for b, f, inc, mb, mf, av in zip(*[case[x] for x in ("b", "f", "inc", "maxb", "maxf", "avail")]):
            pb, pf = min(b + inc, mb) - b, min(f + inc, mf) - f
            tp = pb + pf
            t.append("bump:within_availability" if tp + b + f <= av else "bump:availability_binding")
            if b + inc >= mb:
                t.append("bump:biofuel_ceiling_binding")
            if f + inc >= mf:
                t.append("bump:feed_ceiling_binding")
            if tp == 0:
                t.append("bump:zero_potential")
            if av - b - f < 0:
                t.append("bump:negative_allowed(max0 clamps)")
            if b == 0 and f == 0 and pb == pf and pb > 0 and tp <= av:
                t.append("bump:b=f=0,equal_potentials(5ea9ff8 witness)")
            if b > mb or f > mf or inc < 0:
                t.append("bump:start_above_demand_or_negative_increase")
    elif k == "increase":
        t.append("increase:some_month_positive" if any(v > 0 for v in unhex(r["inc"])) else "increase:all_zero")
    elif k == "minneeds":
        t.append("min:pf>T" if case["pf"] > case["T"] else "min:pf<=T")
        t.append(f"min:flags(fat={bool(case.get('inc_fat'))},protein={bool(case.get('inc_protein'))})"
                 + (",pf<T" if case["pf"] < case["T"] else ""))
        if case["T"] == 0:
            t.append("min:T==0" + ("(int)" if case.get("T_int") else ""))
        if case["T"] == 100:
            t.append("min:T==100")
        if case["T"] == case["pf"]:
            t.append("min:T==pf")
        if "err" in r:
            t.append("min:raised:" + r["err"])
        else:
            n = case["N"]
            cap = case["K"] * min(case["pf"], case["T"]) / 100
            tot = [sum(case["series"][a][m] for a in ATTRS) for m in range(n)]
            if any(x > cap for x in tot):
                t.append("min:ceiling_reached")
            if any(x <= cap for x in tot):
                t.append("min:everything_eaten")
            o = r["out"]
            if any(unhex(o["seaweed"])[m] > 0 for m in range(n)):
                t.append("min:last_food_used")
    return t


# ------------------------------------------------------------------ run

def run(ctx):
    ctx.level = "proof"
    ctx.rule = ("case = one call of a hand-off helper (fill_negatives_with_positives, meat re-timing, "
                "increase_biofuels_then_feed, calculate_human_consumption_for_min_needs) on generated series, or one "
                "captured hand-off of a real three-round run; non-trivial = the call exercises a transfer / a binding "
                "ceiling / a partially eaten food (not the identity); distinct = hash of (helper, exact inputs)")
    ctx.trusted += ["hand model coq/Model/Helpers.v (tied by correspondence, not generated)",
                    "AST extraction of the priority table in harness/props/c18.py::extract_order",
                    "modelled, not verified: numpy elementwise arithmetic, np.where / np.minimum / np.maximum, "
                    "ndarray.sum (exact rationals in the model; float rounding measured, not modelled)"]
    ctx.assumptions += ["series handed to the min-needs hand-off are non-negative, the ceiling is non-negative",
                        "meat series of the two rounds have equal length",
                        "no hypothesis on the inputs of increase_biofuels_then_feed: the never-lowers and the two ceiling "
                        "clauses are proved and audited for arbitrary series (any sign, quantities already above demand)"]
    ctx.check_props()
    bok, bad, out = ctx.build(["Model/HelpersCheck.vo"])
    if not bok:
        ctx.tie_ok = False
        ctx.broken.append(f"model does not compile: {bad}")
        return
    order_tie(ctx)
    real = correspondence(ctx)
    audit(ctx, real)


def order_tie(ctx):
    from pyexpr import TranslatorRejected
    try:
        order, vt = extract_order(lib.REPO)
    except TranslatorRejected as e:
        ctx.tie_ok = False
        ctx.broken.append(f"priority table extraction rejected: {e}")
        ctx.violation("C18:tie:order-extraction", f"cannot read the priority order from the source: {e}",
                      {"kind": "tie-broken", "what": str(e)}, no_input=True)
        return
    t1 = clist([f"({cstr(k)}, {clist([cstr(a) for a in attrs])})" for k, attrs in order])
    t2 = clist([f"({cstr(a)}, {cstr(b)})" for a, b in vt])
    code = ctx.coq_codes("c18_order", IMPORTS, [f"check_order {t1} {t2}"])[0]
    ctx.notes["priority_table_from_source"] = {"order": order, "validator": vt, "documented": DOC_ORDER}
    ctx.count(("order", order, vt))
    if code != 0 or [k for k, _ in order] != DOC_ORDER:
        ctx.tie_ok = False
        what = {1: "order of the consume() calls", 2: "validator table"}.get(code, "documented order")
        ctx.broken.append("priority table of the source differs from the model: " + what)
        ctx.violation("C18:tie:priority-order", f"the source fills foods in the order {[k for k, _ in order]} "
                      f"(attributes {[a for _, a in order]}); documented / modelled order is {DOC_ORDER}",
                      {"kind": "tie-broken", "source_order": order, "validator": vt, "documented": DOC_ORDER})


def build_cases(ctx):
    rng = ctx.rng
    q = ctx.quick
    cases = corpus_cases()
    ncorpus = len(cases)
    cases += boundary_minneeds(rng)
    plan = [("fill", 260 if q else 6000), ("redist", 220 if q else 5000), ("bump", 300 if q else 8000),
            ("minneeds", 160 if q else 2500)]
    for kind, n in plan:
        for i in range(n):
            dyadic = i % 4 != 3
            if kind == "fill":
                cases.append(gen_fill(rng, dyadic))
            elif kind == "redist":
                cases.append(gen_redist(rng, dyadic))
            elif kind == "bump":
                cases.append(gen_bump(rng, dyadic, small=(i % 2 == 0)))
            else:
                cases.append(gen_minneeds(rng, dyadic))
    return cases, ncorpus


def real_runs(ctx):
    pool = list(REAL_POOL)
    if ctx.quick:
        # USA (plain), NZL (the special-cased constant), MNG twice (shipped nuclear-winter options; ruminants only +
        # short shut-off): the two MNG runs are ones where the re-timing moves meat
        nostore = [p for p in pool if p[0] == "ARG" and "stored_between_years" in p[1].get("ratio_stocks_untouched", "")]
        topup = [p for p in pool if p[0] == "CRI"]
        fixed = [pool[0], pool[5], pool[8], pool[9]] + nostore + topup   # + ARG without storage (both spellings), CRI
        rest = [p for p in pool if p not in fixed and len(p) == 2]
        ctx.rng.shuffle(rest)
        pool = fixed + rest[:1]
    return [{"country": p[0], "option": p[1], "threshold": (p[2] if len(p) > 2 else None)} for p in pool]


def real_cases(real):
    """captured hand-offs of real runs as ordinary cases (+ the observed result)"""
    out = []
    for r in real:
        tag = f"{r['country']}:{json.dumps(r.get('option', {}), sort_keys=True)}:T={r.get('threshold')}"
        for rec in r.get("redist", []):
            out.append(({"kind": "redist", "r1": unhex(rec["r1"]), "r2": unhex(rec["r2"]), "mode": "real", "real": tag},
                        {"out": rec["out"]}))
            d = [b - a for a, b in zip(unhex(rec["r1"]), unhex(rec["r2"]))]
        for rec in r.get("minneeds", []):
            c = {"kind": "minneeds", "K": unhex(rec["K"]), "T": unhex(rec["T"]), "pf": unhex(rec["pf"]),
                 "Kconv": unhex(rec["Kconv"]), "N": rec["N"], "series": {a: unhex(rec["series"][a]) for a in ATTRS},
                 "mode": "real", "real": tag}
            out.append((c, {"keys": rec["keys"], "out": rec["out"]}))
        for rec in r.get("bump", []):
            c = {k: unhex(rec[k]) for k in ("b", "f", "inc", "maxb", "maxf", "avail")}
            c.update({"kind": "bump", "mode": "real", "real": tag})
            out.append((c, {"b": rec["nb"], "f": rec["nf"]}))
            th = r.get("third")
            if th and th.get("had_round1"):
                # the `increase` argument of the real call against the model of the round-3 top-up
                out.append(({"kind": "increase", "mode": "real", "real": tag, "country": r["country"],
                             "option": r.get("option", {}), "threshold": r.get("threshold"),
                             "population": unhex(th["population"]), "days": unhex(th["days"]),
                             "const": 100.0 if th.get("country") == "NZL" else 20.0,
                             "meat1": unhex(th["meat1"]), "meat3": unhex(th["meat3"])}, {"inc": rec["inc"]}))
    return out


def correspondence(ctx):
    cases, ncorpus = build_cases(ctx)
    runs = real_runs(ctx)
    ctx.log(f"correspondence: {len(cases)} generated/corpus cases, {len(runs)} real runs")
    res = ctx.run_impl("c18_impl", {"cases": [hexed(c) for c in cases], "real": runs, "trace_first": 4000})
    results = res["results"]
    real = res.get("real", [])
    pairs = list(zip(cases, results)) + real_cases(real)
    terms, meta = [], []
    tags = {}
    dist = {}
    modified = 0
    for case, r in pairs:
        for t in set(branch_tags(case, r)):
            tags[t] = tags.get(t, 0) + 1
        key = case["kind"] + ":" + case.get("mode", "?") + (":dyadic" if case.get("dyadic") else ":float")
        dist[key] = dist.get(key, 0) + 1
        if r.get("input_unchanged") is False:
            modified += 1
            ctx.violation("C18:operand-modified@" + case["kind"], "the helper modified its input array",
                          {"kind": "counterexample", "case": hexed(case)})
        t = term_for(case, r)
        if t is None:
            ctx.tie_ok = False
            ctx.broken.append(f"implementation raised {r.get('err')} on a well-formed {case['kind']} case")
            ctx.violation(f"C18:tie:{case['kind']}:raised", f"helper raised {r.get('err')}: {r.get('msg')}",
                          {"kind": "tie-broken", "case": hexed(case), "observed": r})
            continue
        terms.append(t)
        meta.append((case, r))
        ctx.count((case["kind"], json.dumps(hexed(case), sort_keys=True)), nontrivial=nontrivial(case, r))
    codes = ctx.coq_codes("c18", IMPORTS, terms, per_file=60 if ctx.quick else 120)
    nbad = 0
    for code, (case, r) in zip(codes, meta):
        if code != 0:
            nbad += 1
            if case["kind"] == "increase":
                ctx.tie_ok = False
                ctx.broken.append("real top-up increase vs Model/MeatDairy.increase_of")
                ctx.violation("C18:topup-increase-differs-from-meat-gain@compute_parameters_third_round",
                              f"{case['real']}: the `increase` handed to increase_biofuels_then_feed is not "
                              "max0((meat3 - meat1)/2 * k - const) / k in billion kcals per month "
                              f"(k = 1e9/days/population, population {case['population']:.6g}; max handed "
                              f"{max(unhex(r['inc'])):.6g})",
                              {"kind": "counterexample", "case": {"country": case["country"], "option": case["option"],
                                                                  "threshold": case.get("threshold")},
                               "observed_increase": r["inc"]})
                continue
            if nbad <= 4:
                what = MISMATCH[case["kind"]].get(code, str(code))
                ctx.tie_ok = False
                ctx.broken.append(f"correspondence {case['kind']} vs Model/Helpers.v: {what}")
                ctx.violation(f"C18:tie:{case['kind']}:{what}",
                              f"model and implementation disagree on a {case['kind']} case ({what}; mode {case.get('mode')})",
                              {"kind": "tie-broken", "case": hexed(case), "observed": r, "coq_term": term_for(case, r)[:4000]})
    cov = res.get("coverage", {})
    ctx.notes["correspondence"] = {"cases": len(terms), "corpus_cases": ncorpus, "disagreements": nbad,
                                   "distribution": dist, "branch_counts": dict(sorted(tags.items())),
                                   "line_coverage_of_helpers(first 4000 cases)": cov,
                                   "real_runs": [{"country": r["country"], "option": r.get("option"), "threshold": r.get("threshold"), "err": r.get("err"),
                                                  "needs_ratio": r.get("needs_ratio"),
                                                  "captured": {k: len(r.get(k, [])) for k in ("redist", "minneeds", "bump")},
                                                  "round2_skipped": (r.get("second") or {}).get("skipped")}
                                                 for r in real]}
    seen_kinds = set()
    for c, r in sorted(meta, key=lambda cr: len(json.dumps(hexed(cr[0])))):
        if c["kind"] in seen_kinds or not nontrivial(c, r):
            continue
        seen_kinds.add(c["kind"])
        inputs = {k: v for k, v in c.items() if k in ("arr", "r1", "r2", "b", "f", "inc", "maxb", "maxf", "avail", "K", "T",
                                                      "pf", "N", "series")}
        obs = {k: (unhex(v) if k in ("out", "b", "f") and not isinstance(v, dict) and v is not None else
                   ({kk: unhex(vv) for kk, vv in v.items()} if isinstance(v, dict) else v))
               for k, v in r.items() if k in ("out", "b", "f")}
        ctx.sample({"helper": c["kind"], "mode": c.get("mode"), "inputs": inputs, "observed": obs, "agrees_with_model": True})
    ctx.traces += sum(1 for c, _ in meta if c.get("mode") == "real")
    for r in real:
        if r.get("err"):
            ctx.log("real run failed:", r["country"], r["err"])
    return real


def nontrivial(case, r):
    k = case["kind"]
    if "err" in r:
        return False
    if k == "fill":
        return any(v < 0 for v in case["arr"]) and any(v > 0 for v in case["arr"])
    if k == "redist":
        return r["out"] is not None and any(x < y for x, y in zip(case["r2"], case["r1"]))
    if k == "increase":
        return any(v > 0 for v in unhex(r["inc"]))
    if k == "bump":
        return unhex(r["b"]) != case["b"] or unhex(r["f"]) != case["f"]
    if k == "minneeds":
        return any(any(x != y for x, y in zip(unhex(r["out"][kk]), src))
                   for kk, src in (("seaweed", case["series"]["seaweed"]), ("stored_food", case["series"]["stored_food"]),
                                   ("meat", case["series"]["meat"])))
    return True


# ------------------------------------------------------------------ direct audit

def audit(ctx, real):
    payload = {"seed": ctx.rng.randint(0, 1 << 30), "n": 1500 if ctx.quick else 40000,
               "corpus": [hexed(c) for c in corpus_cases()], "real": real, "doc_order": DOC_ORDER}
    res = ctx.run_impl("c18_audit", payload)
    ctx.notes["audit"] = {k: res[k] for k in res if k not in ("failures",)}
    ctx.count(n=res["evaluated"])
    for i in range(res["distinct_nontrivial"]):
        ctx.nontrivial.add(f"audit{i}")
    ctx.traces += res.get("real_handoffs", 0)
    seen = set()
    for f in res["failures"]:
        if f["key"] in seen:
            continue
        seen.add(f["key"])
        ctx.violation(f["key"], f["what"], {"kind": "counterexample", **f})
        if len(seen) >= 6:
            break
    if res["failures"]:
        ctx.log("audit failures:", len(res["failures"]))


def replay(rep):
    ctx = lib.Ctx("C18", "quick", rep.get("seed", 0))
    if rep.get("kind") == "tie-broken" and "case" in rep:
        case = dict(rep["case"])
        for k in ("arr", "r1", "r2", "b", "f", "inc", "maxb", "maxf", "avail", "K", "T", "pf", "Kconv"):
            if k in case:
                case[k] = unhex(case[k])
        if "series" in case:
            case["series"] = {a: unhex(v) for a, v in case["series"].items()}
        r = ctx.run_impl("c18_impl", {"cases": [hexed(case)]})["results"][0]
        t = term_for(case, r)
        ok, bad, out = ctx.build(["Model/HelpersCheck.vo"])
        code = ctx.coq_codes("c18_replay", IMPORTS, [t])[0] if (t and ok) else 99
        print(f"replayed {case['kind']} case: implementation returned {json.dumps(r)[:600]}")
        print("model/implementation comparison code:", code, MISMATCH.get(case["kind"], {}).get(code, ""))
        return 1 if code != 0 else 0
    if rep.get("kind") == "tie-broken":
        from pyexpr import TranslatorRejected
        try:
            order, vt = extract_order(lib.REPO)
        except TranslatorRejected as e:
            print("priority table extraction rejected:", e)
            return 1
        print("source order:", order)
        return 0 if [k for k, _ in order] == DOC_ORDER and order == rep.get("source_order", order) and \
            [k for k, _ in order] == rep.get("documented") else 1
    res = ctx.run_impl("c18_audit", {"replay": rep, "doc_order": DOC_ORDER})
    print(json.dumps(res.get("failures"), indent=1)[:3000])
    return 1 if res["failures"] else 0
