"""C11 - a food quantity's unit labels always describe its numbers.
proof: Props/C11.v over Model/FoodOps.v (hand transliteration of food.py / unit_conversions.py);
tie: differential testing of constructor calls, operation sequences (1..6 ops), the 16 predicates and the
     label getters against the real Food class, comparison inside Coq (Model/FoodOpsCheck.v), all four
     include_fat / include_protein settings; operands are deep-compared before/after each call;
audit: every clause of the property evaluated directly on the implementation (harness/impl/c11_audit.py)."""
import json
import math
from fractions import Fraction

from lib import fq, fql, cstr, clist, cbool

EACH, PER = " each month", " per month"
TOL = "(1#1000000000)"

KCAL_BARE = ["billion kcals", "billion people fed", "percent people fed", "million dry caloric tons",
             "kcals per person per day"]
FAT_BARE = ["thousand tons", "million tons", "billion people fed", "percent people fed",
            "effective kcals per person per day", "grams per person per day"]
HELPERS = ["in_units_billions_fed", "in_units_percent_fed", "in_units_kcals_equivalent",
           "in_units_kcals_grams_grams_per_person", "in_units_bil_kcals_thou_tons_thou_tons_per_month"]
SYNTH = ["tons of joy", "a", "percent of need", "kcal ratio", "ratio of stocks"]
PREDS = {"eq": "PEq", "ne": "PNe", "never_neg": "PNeverNeg", "all_gt": "PAllGt", "all_lt": "PAllLt",
         "any_gt": "PAnyGt", "any_lt": "PAnyLt", "all_ge": "PAllGe", "all_le": "PAllLe", "any_ge": "PAnyGe",
         "any_le": "PAnyLe", "all_zero": "PAllZero", "any_zero": "PAnyZero", "all_gt_zero": "PAllGtZero",
         "any_gt_zero": "PAnyGtZero", "all_ge_zero": "PAllGeZero"}
BINARY = {"eq", "ne", "all_gt", "all_lt", "any_gt", "any_lt", "all_ge", "all_le", "any_ge", "any_le"}
FLAGS = [(True, True), (True, False), (False, True), (False, False)]
SETTINGS = {"kcals_daily": 2100.0, "fat_daily": 47.0, "protein_daily": 51.0, "population": 7.8e9}
REJ = {"AssertRejected", "TypeRejected", "ValueRejected"}
KEY_TYPES = ["int", "int", "int64", "int32", "0d", "arange", "argmin"]   # Python int and numpy integer index keys
OPS_WITH_UNIT_CHECK = {"add", "sub", "div_food", "min_elem", "min_elem_r"}


# ------------------------------------------------------------------ generators

def grid(rng):
    r = rng.random()
    if r < 0.15:
        return 0.0
    if r < 0.35:
        return -float(rng.randint(1, 2048)) / 64
    return float(rng.randint(1, 4096)) / 64


def gen_labels(rng, monthly):
    r = rng.random()
    if r < 0.5:
        b = ["billion kcals", "thousand tons", "thousand tons"]
    elif r < 0.65:
        b = [rng.choice(KCAL_BARE), rng.choice(FAT_BARE), rng.choice(FAT_BARE)]
    elif r < 0.8:
        b = ["ratio"] * 3
    elif r < 0.9:
        s = rng.choice(SYNTH)
        b = [s, s, s]
    else:
        b = [rng.choice(SYNTH), rng.choice(SYNTH + ["ratio"]), rng.choice(SYNTH)]
    r = rng.random()
    if monthly:
        sfx = EACH if r < 0.6 else "" if r < 0.9 else PER if r < 0.94 else EACH + EACH if r < 0.97 else "each month"
    else:
        sfx = "" if r < 0.55 else PER if r < 0.9 else EACH if r < 0.97 else PER + PER
    out = [x + sfx for x in b]
    if rng.random() < 0.04:
        out[rng.randrange(3)] = b[0] + rng.choice(["", EACH, PER])
    return out


def gen_ctor(rng, monthly=None, malformed=True):
    if monthly is None:
        monthly = rng.random() < 0.6
    lk, lf, lp = gen_labels(rng, monthly)
    if monthly:
        n = rng.randint(1, 6)
        t = rng.choice(["list", "arr", "arr"])

        def side():
            r = rng.random()
            if r < 0.12:
                return {"t": "int", "v": 0}
            if malformed and r < 0.15:
                return {"t": "float", "v": grid(rng)}
            if malformed and r < 0.18:
                return {"t": t, "v": [grid(rng) for _ in range(rng.randint(0, 6))]}
            return {"t": t, "v": [grid(rng) for _ in range(n)]}
        k = {"t": t, "v": [grid(rng) for _ in range(n)]}
        if malformed and rng.random() < 0.02:
            k = {"t": t, "v": []}
        return {"k": k, "f": side(), "p": side(), "lk": lk, "lf": lf, "lp": lp}

    def sc():
        if rng.random() < 0.15:
            return {"t": "int", "v": rng.randint(-3, 5)}
        return {"t": "float", "v": grid(rng)}
    a = {"k": sc(), "f": sc(), "p": sc(), "lk": lk, "lf": lf, "lp": lp}
    if malformed and rng.random() < 0.02:
        a["f"] = {"t": "list", "v": [grid(rng), grid(rng)]}
    return a


def wchoice(rng, table):
    tot = sum(w for _, w in table)
    r = rng.random() * tot
    for x, w in table:
        r -= w
        if r <= 0:
            return x
    return table[-1][0]


MON_OPS = [("add", 8), ("sub", 6), ("neg", 3), ("abs", 2), ("mul_ratio_like", 5), ("rmul_ratio_like", 5),
           ("mul_ratio_scalar", 3), ("rmul_ratio_scalar", 3), ("mul_num", 3), ("rmul_num", 1), ("mul_arr", 2),
           ("div_food", 4), ("div_num", 2), ("index", 4), ("slice", 3), ("month", 5), ("first_month", 2), ("sum", 4),
           ("runsum", 4), ("min_all", 3), ("max_all", 3), ("min_elem", 4), ("min_elem_r", 2), ("round", 3), ("clip", 4),
           ("shift", 3), ("in_units", 4), ("helper", 3), ("set_units", 1), ("set_l2t", 1), ("set_l2e", 1),
           ("set_e2l", 1), ("add_fixed", 2), ("min_fixed", 1), ("mul_like", 1), ("div_fixed", 1), ("one_off", 4)]
SC_OPS = [("add", 8), ("sub", 6), ("neg", 3), ("abs", 2), ("mul_ratio_like", 5), ("rmul_ratio_like", 5),
          ("rmul_ratio_monthly", 3), ("mul_ratio_monthly", 2), ("mul_num", 3), ("rmul_num", 1), ("mul_arr", 4),
          ("div_food", 4), ("div_num", 2), ("index", 1), ("month", 1), ("sum", 1), ("min_all", 1), ("min_elem", 4),
          ("min_elem_r", 2), ("round", 1), ("clip", 4), ("shift", 1), ("in_units", 4), ("helper", 3), ("set_units", 1),
          ("set_l2e", 1), ("set_e2l", 2), ("add_fixed", 2), ("min_fixed", 1), ("mul_like", 1), ("runsum", 1),
          ("one_off", 4)]


def gen_step(rng, mon, n):
    """returns (step json, predicted monthly?, predicted length)"""
    o = wchoice(rng, MON_OPS if mon else SC_OPS)
    like = {"kind": "like"}
    if o == "one_off":      # operand whose labels differ from the current ones in exactly one position: must be refused
        return {"op": rng.choice(["add", "sub", "min_elem", "min_elem_r", "div_food"]),
                "y": {"kind": "like_one_off", "pos": rng.randrange(3), "nonzero": True}}, mon, n
    if o in ("add", "sub"):
        return {"op": o, "y": like}, mon, n
    if o in ("neg", "abs", "clip", "runsum", "set_l2t", "set_l2e", "set_e2l"):
        return {"op": o}, mon, n
    if o == "mul_ratio_like":
        return {"op": "mul_food", "y": {"kind": "ratio_like"}}, mon, n
    if o == "rmul_ratio_like":
        return {"op": "rmul_food", "y": {"kind": "ratio_like"}}, mon, n
    if o == "mul_ratio_scalar":
        return {"op": "mul_food", "y": {"kind": "ratio_scalar"}}, mon, n
    if o == "rmul_ratio_scalar":
        return {"op": "rmul_food", "y": {"kind": "ratio_scalar"}}, mon, n
    if o == "mul_ratio_monthly":
        m = rng.randint(1, 4)
        return {"op": "mul_food", "y": {"kind": "ratio_monthly", "n": m}}, True, m
    if o == "rmul_ratio_monthly":
        m = rng.randint(1, 4)
        return {"op": "rmul_food", "y": {"kind": "ratio_monthly", "n": m}}, True, m
    if o == "mul_like":
        return {"op": rng.choice(["mul_food", "rmul_food"]), "y": like}, mon, n
    if o in ("mul_num", "rmul_num"):
        return {"op": o, "q": grid(rng)}, mon, n
    if o == "mul_arr":
        m = n if (mon and rng.random() < 0.85) else rng.randint(1, 4)
        return {"op": "mul_arr", "l": [grid(rng) for _ in range(m)]}, True, m
    if o == "div_food":
        return {"op": "div_food", "y": {"kind": "like", "nonzero": rng.random() < 0.9}}, mon, n
    if o == "div_fixed":
        return {"op": "div_food", "y": {"kind": "fixed", "args": gen_ctor(rng, mon, False)}}, mon, n
    if o == "div_num":
        q = grid(rng)
        return {"op": "div_num", "q": q if q != 0 or rng.random() < 0.1 else 2.0}, mon, n
    if o == "index":
        return {"op": "index", "i": rng.randint(-n - 1, n) if n else rng.randint(-1, 1),
                "kt": rng.choice(KEY_TYPES)}, False, 0
    if o == "slice":
        a = rng.randint(0, max(n, 1))
        b = rng.randint(a, n + 1) if rng.random() < 0.85 else rng.randint(0, a)
        return {"op": "slice", "a": a, "b": b}, True, max(0, min(b, n) - a)
    if o == "month":
        return {"op": "month", "i": rng.randint(-1, n) if n else 0}, False, 0
    if o in ("first_month", "sum", "min_all", "max_all"):
        return {"op": o}, False, 0
    if o in ("min_elem", "min_elem_r"):
        return {"op": o, "y": {"kind": "like", "near": True}}, mon, n
    if o == "add_fixed":
        return {"op": rng.choice(["add", "sub"]), "y": {"kind": "fixed", "args": gen_ctor(rng, mon, False)}}, mon, n
    if o == "min_fixed":
        return {"op": rng.choice(["min_elem", "min_elem_r"]),
                "y": {"kind": "fixed", "args": gen_ctor(rng, mon if rng.random() < 0.8 else not mon, False)}}, mon, n
    if o == "round":
        return {"op": "round", "d": rng.choice([0, 1, 1, 2, 3])}, mon, n
    if o == "shift":
        return {"op": "shift", "n": rng.randint(0, n + 1)}, mon, n
    if o == "in_units":
        return {"op": "in_units", "to": [rng.choice(KCAL_BARE), rng.choice(FAT_BARE), rng.choice(FAT_BARE)]}, mon, n
    if o == "helper":
        return {"op": "helper", "name": rng.choice(HELPERS)}, mon, n
    if o == "set_units":
        return {"op": "set_units", "to": gen_labels(rng, mon)}, mon, n
    raise ValueError(o)


def vary_settings(rng, cur):
    """a reassignment of the nutrition requirements relative to the current ones"""
    s = dict(cur)
    r = rng.random()
    if r < 0.45:        # same population and kcals, different fat / protein requirement
        s["fat_daily"] = float(rng.choice([20, 35, 47, 60, 94, 300]))
        s["protein_daily"] = float(rng.choice([25, 40, 51, 53, 102, 400]))
    elif r < 0.65:
        s["population"] = float(rng.choice([1e4, 3.2e5, 4.5e7, 3.3e8, 1.4e9, 7.8e9]))
    elif r < 0.85:
        s["kcals_daily"] = float(rng.choice([500, 1800, 2100, 2500, 3000]))
    elif r < 0.93:
        s = {"kcals_daily": float(rng.choice([1800, 2100, 2625])), "fat_daily": float(rng.choice([30, 47, 70])),
             "protein_daily": float(rng.choice([45, 51, 80])), "population": float(rng.choice([1e6, 7.8e9]))}
    # else: only the flags are toggled
    return s


def gen_set_req(rng, cur):
    return {"op": "set_req", "settings": vary_settings(rng, cur), "flags": [rng.random() < 0.5, rng.random() < 0.5]}


def gen_settings_seq(rng):
    """history of requirement reassignments interleaved with conversions and round trips"""
    mon = rng.random() < 0.5
    sfx = EACH if mon else rng.choice(["", PER])
    n = rng.randint(1, 4)

    def vals():
        return {"t": "arr", "v": [float(rng.randint(1, 4096)) / 64 for _ in range(n)]} if mon else \
            {"t": "float", "v": float(rng.randint(1, 4096)) / 64}
    init = {"k": vals(), "f": vals(), "p": vals(), "lk": "billion kcals" + sfx, "lf": "thousand tons" + sfx,
            "lp": "thousand tons" + sfx}
    cur = dict(SETTINGS)
    steps = []
    for _ in range(rng.randint(2, 4)):
        r = rng.random()
        if r < 0.5:
            steps.append({"op": "helper", "name": rng.choice(HELPERS)})
        else:
            steps.append({"op": "in_units", "to": [rng.choice(KCAL_BARE), rng.choice(FAT_BARE), rng.choice(FAT_BARE)]})
        st = gen_set_req(rng, cur)
        cur = st["settings"]
        steps.append(st)
        if rng.random() < 0.6:       # back to the base units under the new requirements (round trip across a change)
            steps.append({"op": "helper", "name": "in_units_bil_kcals_thou_tons_thou_tons_per_month"})
    steps.append({"op": "helper", "name": rng.choice(HELPERS)})
    return {"init": init, "steps": steps, "seed": rng.randint(0, 1 << 30), "getters": False}


def gen_seq(rng, getters):
    init = gen_ctor(rng)
    mon = init["k"]["t"] in ("list", "arr")
    n = len(init["k"]["v"]) if mon else 0
    steps = []
    cur = dict(SETTINGS)
    for _ in range(rng.randint(1, 6)):
        if rng.random() < 0.06:
            st = gen_set_req(rng, cur)
            cur = st["settings"]
        else:
            st, mon, n = gen_step(rng, mon, n)
        steps.append(st)
    return {"init": init, "steps": steps, "seed": rng.randint(0, 1 << 30), "getters": getters}


TINY = [m * 1e-9 * sg for m in (0.3, 0.49, 0.51, 0.7, 0.99, 1.01, 1.6) for sg in (1.0, -1.0)]


def tiny_ctor(rng):
    """a quantity whose values sit around the 0.5e-9 / 1e-9 tolerance boundaries (never on one)"""
    mon = rng.random() < 0.5
    n = rng.randint(1, 3)

    def one():
        r = rng.random()
        return 0.0 if r < 0.5 else rng.choice(TINY) if r < 0.9 else float(rng.randint(1, 64)) / 64

    def side():
        return {"t": "arr", "v": [one() for _ in range(n)]} if mon else {"t": "float", "v": one()}
    sfx = EACH if mon else ""
    return {"k": side(), "f": side(), "p": side(), "lk": "billion kcals" + sfx, "lf": "thousand tons" + sfx,
            "lp": "thousand tons" + sfx}


def gen_pred(rng):
    p = rng.choice(sorted(PREDS))
    x = gen_ctor(rng, malformed=False)
    if p not in BINARY and rng.random() < (0.8 if p == "all_zero" else 0.3):
        x = tiny_ctor(rng)
    pc = {"pred": p, "x": x, "seed": rng.randint(0, 1 << 30)}
    if p == "all_ge_zero" and rng.random() < 0.6:
        pc["kw"] = {"threshold": float(rng.choice([0.0, 0.5, 2.0, 40.0]))}
    if p in BINARY:
        r = rng.random()
        if r < 0.15:
            pc["y"] = {"kind": "like_one_off", "pos": rng.randrange(3)}
        elif r < 0.8:
            pc["y"] = {"kind": "like", "near": True}
        elif r < 0.9:
            pc["y"] = gen_ctor(rng, x["k"]["t"] in ("list", "arr"), False)
        else:
            pc["y"] = gen_ctor(rng, malformed=False)
    return pc


# ------------------------------------------------------------------ Coq terms

def finite_food(fd):
    if any(isinstance(fd[k], list) != bool(fd["monthly"]) for k in ("kcals", "fat", "protein")):
        return False        # mixed scalar / array object: outside the model
    vs = []
    for key in ("kcals", "fat", "protein"):
        v = fd[key]
        vs += v if isinstance(v, list) else [v]
    return all(not (math.isnan(v) or math.isinf(v)) for v in vs)


def all_vals(fd):
    vs = []
    for key in ("kcals", "fat", "protein"):
        v = fd[key]
        vs += v if isinstance(v, list) else [v]
    return vs


def coq_vals(fd):
    if fd["monthly"]:
        return f"(Monthly {fql(fd['kcals'])} {fql(fd['fat'])} {fql(fd['protein'])})"
    return f"(Scalar {fq(fd['kcals'])} {fq(fd['fat'])} {fq(fd['protein'])})"


def coq_obs(fd):
    return (f"({coq_vals(fd)}, ({cstr(fd['ku'])}, {cstr(fd['fu'])}, {cstr(fd['pu'])}), "
            f"{clist([cstr(u) for u in fd['units']])})")


def coq_food(fd):
    return f"(food_of_obs {coq_obs(fd)})"


def coq_expected(r):
    if "err" in r:
        return f"(EErr {r['err']})" if r["err"] in REJ else "EOther"
    return f"(EOk {coq_obs(r)})"


def coq_num(n):
    if n["t"] == "int":
        return f"(NInt ({int(n['v'])})%Z)"
    if n["t"] == "float":
        return f"(NFloat {fq(n['v'])})"
    return f"(NList {fql(n['v'])})"


def coq_op(st, y):
    o = st["op"]
    Y = coq_food(y) if y is not None else None
    if o == "add":
        return f"(OAdd {Y})"
    if o == "sub":
        return f"(OSub {Y})"
    if o == "neg":
        return "ONeg"
    if o == "abs":
        return "OAbs"
    if o == "mul_food":
        return f"(OMul (MFood {Y}))"
    if o == "rmul_food":
        return f"(ORMul {Y})"
    if o in ("mul_num", "rmul_num"):
        return f"(OMul (MNum {fq(st['q'])}))"
    if o == "mul_arr":
        return f"(OMul (MArr {fql(st['l'])}))"
    if o == "div_food":
        return f"(ODivFood {Y})"
    if o == "div_num":
        return f"(ODivNum {fq(st['q'])})"
    if o == "index":
        return f"(OIndex ({int(st['i'])})%Z)"
    if o == "slice":
        return f"(OSlice {int(st['a'])}%nat {int(st['b'])}%nat)"
    if o == "month":
        return f"(OMonth ({int(st['i'])})%Z)"
    if o == "first_month":
        return "OFirstMonth"
    if o == "sum":
        return "OSum"
    if o == "runsum":
        return "ORunSum"
    if o == "min_all":
        return "OMinAll"
    if o == "max_all":
        return "OMaxAll"
    if o == "min_elem":
        return f"(OMinElem {Y})"
    if o == "min_elem_r":
        return f"(OMinElemR {Y})"
    if o == "round":
        return f"(ORound {int(st['d'])}%nat)"
    if o == "clip":
        return "OClip"
    if o == "shift":
        return f"(OShift {int(st['n'])}%nat)"
    if o == "in_units":
        return f"(OInUnits {cstr(st['to'][0])} {cstr(st['to'][1])} {cstr(st['to'][2])})"
    if o == "helper":
        return f"(OHelper {cstr(st['name'])})"
    if o == "set_units":
        return f"(OSetUnits {cstr(st['to'][0])} {cstr(st['to'][1])} {cstr(st['to'][2])})"
    return {"set_l2t": "OSetL2T", "set_l2e": "OSetL2E", "set_e2l": "OSetE2L"}[o]


def coq_getters(fd, g):
    items = []
    for name, con in (("l2t", "GL2T"), ("l2e", "GL2E"), ("e2l", "GE2L"), ("units", "GUnits"),
                      ("is_ratio", "GIsRatio"), ("is_percent", "GIsPercent")):
        v = g[name]
        if isinstance(v, dict):
            e = f"(GErr {v['err']})" if v["err"] in REJ else "GOther"
        elif isinstance(v, bool):
            e = f"(GBool {cbool(v)})"
        else:
            e = f"(GStrs {clist([cstr(u) for u in v])})"
        items.append(f"({con}, {e})")
    return f"check_getters {coq_food(fd)} {clist(items)}"


def round_safe(fd, d):
    """np.round(x, d) computes rint(x * 10**d) / 10**d IN FLOATS; the model rounds the exact rational x * 10^d half-even.
    The two agree unless the float product is inexact AND the exact product is within float error of a tie (k + 1/2):
    such near-boundary cases are skipped (and counted)."""
    for v in all_vals(fd):
        fr = Fraction(v) * 10 ** d
        frac = fr - (fr.numerator // fr.denominator)
        near_tie = abs(frac - Fraction(1, 2)) <= max(Fraction(1, 10 ** 9), abs(fr) / (1 << 48))
        if near_tie and Fraction(float(v) * float(10 ** d)) != fr:
            return False
        if abs(fr) >= (1 << 52):
            return False
    return True


def conv_term(s):
    return (f"{{| kcals_daily := {fq(s['kcals_daily'])}; fat_daily := {fq(s['fat_daily'])}; "
            f"protein_daily := {fq(s['protein_daily'])}; population := {fq(s['population'])} |}}")


def scale_of(*foods):
    m = 1.0
    for fd in foods:
        if fd is not None and "err" not in fd:
            for v in all_vals(fd):
                if not (math.isnan(v) or math.isinf(v)):
                    m = max(m, abs(v))
    return m


def seq_terms(seq, res, conv):
    """Coq terms for one executed sequence.  Returns (list of (term, what)), stats"""
    terms = []
    stats = {"steps": 0, "accepted": 0, "rejected": 0, "truncated": 0, "ops": {}}
    init = seq["init"]
    st0 = res["start"]
    mixed = "err" not in st0 and not finite_food(st0)
    if not mixed:
        sc0 = scale_of(st0)
        terms.append((f"check_ctor {TOL} {fq(sc0)} {coq_num(init['k'])} {coq_num(init['f'])} {coq_num(init['p'])} "
                      f"{cstr(init['lk'])} {cstr(init['lf'])} {cstr(init['lp'])} {coq_expected(st0)}", ("ctor", None)))
    if "err" in st0 or not finite_food(st0):
        return terms, stats
    if "start_getters" in res:
        terms.append((coq_getters(st0, res["start_getters"]), ("getters", -1)))
    cur = st0
    items = []
    seg_start, seg_off = st0, 0

    def flush():
        if items:
            terms.append((f"check_seq {TOL} {conv} {seg_off}%nat {coq_food(seg_start)} {clist(items)}", ("seq", None)))
    for i, (st, r) in enumerate(zip(seq["steps"], res["steps"])):
        if st["op"] == "set_req":
            # the model is given the CURRENT requirements: close the segment, continue with the new conv record
            flush()
            items = []
            conv = conv_term(st["settings"])
            seg_start, seg_off = cur, i + 1
            stats["ops"]["set_req"] = stats["ops"].get("set_req", 0) + 1
            if r["res"] != cur:
                terms.append(("1%nat", ("set_req", i)))      # reassigning the requirements changed the quantity
            continue
        y = r.get("y")
        if y is not None and ("err" in y or not finite_food(y)):
            stats["truncated"] += 1
            break
        rr = r["res"]
        if "err" not in rr and not finite_food(rr):
            stats["truncated"] += 1
            break
        if st["op"] == "round" and not round_safe(cur, st["d"]):
            stats["truncated"] += 1
            stats["near_rounding_boundary"] = 1
            break
        sc = scale_of(cur, y, rr)
        if st["op"] in ("mul_num", "rmul_num", "div_num"):
            sc = max(sc, abs(st["q"]))
        stc = dict(st, i=r["key"]) if "key" in r else st       # the integer the (numpy) key denotes
        items.append(f"({coq_op(stc, y)}, {coq_expected(rr)}, {fq(sc)})")
        stats["steps"] += 1
        stats["ops"][st["op"]] = stats["ops"].get(st["op"], 0) + 1
        if "err" in rr:
            stats["rejected"] += 1
            break
        stats["accepted"] += 1
        if "getters" in r:
            terms.append((coq_getters(rr, r["getters"]), ("getters", i)))
        cur = rr
    flush()
    return terms, stats


def pred_term(pc, r, flags):
    if "err" in r["x"]:
        return None
    x, y = r["x"], r.get("y")
    if not finite_food(x) or (y is not None and not finite_food(y)):
        return None
    v = r["val"]
    if isinstance(v, dict):
        e = f"(PErr {v['err']})" if v["err"] in REJ else "POther"
    else:
        e = f"(PVal {cbool(v)})"
    Y = coq_food(y) if y is not None else coq_food(x)
    pname = PREDS[pc["pred"]]
    if pc.get("kw", {}).get("threshold") is not None:
        pname = f"(PAllGeZeroThr {fq(pc['kw']['threshold'])})"
    return f"check_pred {cbool(flags[0])} {cbool(flags[1])} {pname} {coq_food(x)} {Y} {e}"


# ------------------------------------------------------------------ correspondence

IMPORTS = "From Coq Require Import ZArith.\nFrom Allfed Require Import Gen.UnitTables Model.Units Model.FoodOps Model.FoodOpsCheck."
CODE_NAMES = {1: "values differ", 2: "labels differ", 3: "units list differs", 4: "model accepts, implementation rejects",
              5: "model rejects, implementation accepts", 7: "scalar/series shape differs",
              8: "rejection kind differs", 9: "unclassified exception"}


def build_groups(ctx, nseq, npred):
    rng = ctx.rng
    groups = []
    for gi, fl in enumerate(FLAGS):
        seqs = [gen_seq(rng, getters=(j % 4 == 0)) for j in range(nseq // 4)]
        seqs += [gen_settings_seq(rng) for _ in range(max(1, nseq // 32))]
        preds = [gen_pred(rng) for _ in range(npred // 4)]
        groups.append({"flags": list(fl), "settings": SETTINGS, "seed": rng.randint(0, 1 << 30), "seqs": seqs,
                       "preds": preds})
    return groups


def evaluate(ctx, groups, results, name="c11"):
    """write Coq terms for executed groups, evaluate, return list of disagreement dicts + stats"""
    conv = conv_term(SETTINGS)
    terms, meta = [], []
    tot = {"sequences": 0, "steps": 0, "accepted": 0, "rejected": 0, "truncated": 0, "ops": {}, "ctor_rejected": 0,
           "pred_cases": 0, "pred_rejected": 0, "getter_states": 0}
    py_viol = []
    for g, rg in zip(groups, results):
        fl = tuple(g["flags"])
        for seq, res in zip(g["seqs"], rg["seqs"]):
            tt, stt = seq_terms(seq, res, conv)
            tot["sequences"] += 1
            for k in ("steps", "accepted", "rejected", "truncated"):
                tot[k] += stt[k]
            tot["near_rounding_boundary_skipped"] = tot.get("near_rounding_boundary_skipped", 0) + stt.get("near_rounding_boundary", 0)
            for k, v in stt["ops"].items():
                tot["ops"][k] = tot["ops"].get(k, 0) + v
            if "err" in res["start"]:
                tot["ctor_rejected"] += 1
            for t, what in tt:
                terms.append(t)
                meta.append({"flags": fl, "seq": seq, "what": what, "res": res})
                if what[0] == "getters":
                    tot["getter_states"] += 1
            for st, r in zip(seq["steps"], res["steps"]):
                if "res" not in r:
                    continue
                if not r.get("unchanged", True):
                    py_viol.append(("C11:operand-modified@" + st["op"], "an operand was modified by " + st["op"],
                                    {"flags": fl, "seq": seq}))
                if r.get("alias") and not st["op"].startswith("set_"):
                    # sharing storage is not modification: an evidence note, unless an in-place Food operation on the
                    # result really changes the operand (tried by the runner)
                    tot["alias_cases"] = tot.get("alias_cases", 0) + 1
                    tot.setdefault("alias_first_example", {"op": st["op"], "flags": list(fl), "seq": seq,
                                                           "in_place_operations_tried": r.get("alias_tried")})
                    if r.get("alias_mutation"):
                        py_viol.append(("C11:operand-modified@" + st["op"] + ":through-shared-storage",
                                        f"the result of {st['op']} shares storage with an operand and {r['alias_mutation']} on "
                                        "the result changed the operand", {"flags": fl, "seq": seq}))
            ctx.count(("seq", fl, json.dumps(seq, sort_keys=True)), nontrivial=stt["accepted"] > 0)
        for pc, r in zip(g["preds"], rg["preds"]):
            t = pred_term(pc, r, fl)
            if t is None:
                continue
            terms.append(t)
            meta.append({"flags": fl, "pred": pc, "what": ("pred", None), "res": r})
            tot["pred_cases"] += 1
            if isinstance(r["val"], dict):
                tot["pred_rejected"] += 1
            if not r.get("unchanged", True):
                py_viol.append(("C11:operand-modified@" + pc["pred"], "an operand was modified by predicate " + pc["pred"],
                                {"flags": fl, "pred": pc}))
            ctx.count(("pred", fl, json.dumps(pc, sort_keys=True)), nontrivial=not isinstance(r["val"], dict))
    codes = ctx.coq_codes(name, IMPORTS, terms, per_file=150)
    bad, skipped = [], 0
    for code, m in zip(codes, meta):
        c = code % 100 if m["what"][0] == "seq" else code
        if c == 0:
            continue
        if c == 50:
            skipped += 1
            continue
        m = dict(m)
        m["code"] = code
        bad.append(m)
    tot["outside_model_skipped"] = skipped
    tot["coq_terms"] = len(terms)
    return bad, tot, py_viol


def describe(m):
    kind = m["what"][0]
    code = m["code"]
    if kind == "seq":
        i, c = code // 100, code % 100
        st = m["seq"]["steps"][i]
        kt = f" key={st['kt']}" if "kt" in st else ""
        return st["op"], f"step {i} ({st['op']}{kt}): {CODE_NAMES.get(c, c)}"
    if kind == "ctor":
        return "ctor", f"constructor: {CODE_NAMES.get(code, code)}"
    if kind == "set_req":
        return "set_req", f"step {m['what'][1]}: set_nutrition_requirements changed the quantity"
    if kind == "getters":
        return "getters", f"label getter #{code // 10} after step {m['what'][1]}: code {code % 10}"
    return m["pred"]["pred"], f"predicate {m['pred']['pred']}: {CODE_NAMES.get(code, code)}"


def correspondence(ctx):
    nseq = 1800 if ctx.quick else 24000
    npred = 1200 if ctx.quick else 16000
    groups = build_groups(ctx, nseq, npred)
    ctx.log("running implementation on", nseq, "sequences,", npred, "predicate cases")
    results = ctx.run_impl("c11_impl", {"groups": groups})["groups"]
    ctx.log("evaluating model")
    bad, tot, py_viol = evaluate(ctx, groups, results)
    for key, what, rep in py_viol[:5]:
        ctx.violation(key, what, {"kind": "counterexample", "replay_kind": "tie", "settings": SETTINGS, **rep})
    seen = set()
    for m in bad:
        opn, what = describe(m)
        key = "C11:tie:" + opn
        if key in seen or len(seen) >= 4:
            continue
        seen.add(key)
        ctx.tie_ok = False
        ctx.broken.append("correspondence Food vs Model/FoodOps: " + what)
        rep = {"kind": "tie-broken", "replay_kind": "tie", "flags": list(m["flags"]), "settings": SETTINGS,
               "observed": m["res"], "code": m["code"]}
        if "seq" in m:
            rep["seq"] = m["seq"]
        else:
            rep["pred"] = m["pred"]
        ctx.violation(key, "model and implementation disagree: " + what, rep)
    tot["disagreements"] = len(bad)
    if tot["steps"]:
        tot["accepted_fraction"] = round(tot["accepted"] / tot["steps"], 3)
    ctx.notes["correspondence"] = tot
    ctx.traces += tot["coq_terms"]
    g0, r0 = groups[0], results[0]
    for j in range(2):
        ctx.sample({"flags": g0["flags"], "sequence": g0["seqs"][j], "observed": r0["seqs"][j]})
    ctx.sample({"flags": g0["flags"], "predicate": g0["preds"][0], "observed": r0["preds"][0]})


# ------------------------------------------------------------------ direct audit

def audit(ctx):
    rng = ctx.rng
    nseq = 900 if ctx.quick else 12000
    seqs = []
    for j in range(nseq):
        s = gen_seq(rng, getters=False) if j % 6 else gen_settings_seq(rng)
        seqs.append(s)
    payload = {"settings": SETTINGS, "seqs": seqs, "seed": rng.randint(0, 1 << 30),
               "grid": "quick" if ctx.quick else "thorough"}
    res = ctx.run_impl("c11_audit", payload)
    ctx.notes["audit"] = res["counts"]
    ctx.count(n=sum(v for v in res["counts"].values() if isinstance(v, int)))
    for i in range(res.get("distinct", 0)):
        ctx.nontrivial.add(f"audit{i}")
    shown = set()
    for f in res["failures"]:
        if f["key"] in shown:
            continue
        shown.add(f["key"])
        ctx.violation(f["key"], f["what"], {"kind": "counterexample", "replay_kind": "audit", "settings": SETTINGS,
                                            "case": f["case"]})
    if res["failures"]:
        ctx.log("audit failures:", len(res["failures"]), "distinct keys:", sorted(shown))
    ctx.notes["audit_failure_keys"] = sorted(shown)


# ------------------------------------------------------------------ entry points

def run(ctx):
    ctx.level = "proof"
    ctx.rule = ("case = (flag setting, constructor arguments, sequence of 1..6 Food operations with generated operands) "
                "or (flag setting, predicate, operands); non-trivial = at least one operation of the sequence was "
                "accepted / the predicate returned a value; distinct = hash of the generated case")
    ctx.trusted += ["hand transliteration Model/FoodOps.v of food.py / unit_conversions.py (tied by differential testing "
                    "only, compared inside Coq)",
                    "modelled, not verified: numpy elementwise arithmetic, broadcasting of length-1 arrays, np.roll, "
                    "np.round (half-even on x*10^d), np.where, Python list/str semantics of `in`, split, replace",
                    "translator harness/gen_units.py for the in_units branches and tables (shared with C10)"]
    ctx.assumptions += ["numbers are read as exact rationals; correspondence tolerance 1e-9 * max(1,|value|,input scale)",
                        "division by a zero component (inf/nan), Python min() of a scalar and an array, and mixed "
                        "scalar/array constructor arguments are outside the model and skipped (counted)"]
    ok = ctx.regen(["gen_units"])
    ctx.check_props()
    audit(ctx)
    if ok:
        bok, bad, out = ctx.build(["Model/FoodOpsCheck.vo"])
        if not bok:
            ctx.tie_ok = False
            ctx.broken.append(f"model does not compile: {bad}")
        else:
            correspondence(ctx)


def replay(rep):
    import lib
    ctx = lib.Ctx("C11", "quick", rep.get("seed", 0))
    if rep.get("replay_kind") == "audit":
        res = ctx.run_impl("c11_audit", {"settings": rep["settings"], "replay": rep["case"]})
        fails = [f for f in res["failures"] if f["key"] == rep.get("key")] or res["failures"]
        for f in fails[:5]:
            print("REPRODUCED:", f["key"], "-", f["what"])
        return 1 if fails else 0
    g = {"flags": rep["flags"], "settings": rep["settings"], "seed": 0,
         "seqs": [rep["seq"]] if "seq" in rep else [], "preds": [rep["pred"]] if "pred" in rep else []}
    results = ctx.run_impl("c11_impl", {"groups": [g]})["groups"]
    bad, tot, py_viol = evaluate(ctx, [g], results, name="replay")
    for m in bad:
        print("REPRODUCED: model and implementation disagree:", describe(m)[1])
    for key, what, _ in py_viol:
        print("REPRODUCED:", key, what)
    print(json.dumps(results, indent=1)[:3000])
    return 1 if (bad or py_viol) else 0
