"""C15 - aggregate fed fraction is a capped, population-weighted mean over exactly the selected countries.
proof: Props/C15.v (Model/Aggregate.v over the regenerated Gen/CountryTable*.v);
tie: translator gen_country_table + correspondence of run_model_no_trade (run_optimizer_for_country stubbed harness-side)
     with Model/Aggregate.run_no_trade, compared inside Coq;
audit: every clause of the property evaluated directly on the implementation's return value with an independent
     reading of the selection syntax and exact Fractions."""
import csv
import json
import math
import os
from fractions import Fraction

import lib
from lib import fq, cstr, clist, cbool, cnat

KEY = "C15"
IMPORTS = "From Allfed Require Import Base.StrUtil Model.Tables Model.Aggregate Gen.CountryTable."
# a plain definition: the VM evaluates the constant once per Eval; pre-normalising it costs 30 s of re-typechecking
DEFS = "Definition trows : list row := map (decode_row columns) raw_rows.\n"
NAMES = {1: "model rejects, implementation accepts", 2: "model accepts, implementation rejects", 3: "net_pop differs",
         4: "net_pop_fed differs", 5: "result keys differ"}


def load_table(repo):
    with open(os.path.join(repo, "data/no_food_trade/computer_readable_combined.csv"), newline="") as f:
        rows = list(csv.reader(f))
    h = rows[0]
    ip = h.index("population")
    return [(r[0], r[1], r[ip]) for r in rows[1:]]


# ------------------------------------------------------------------ generators

def gen_frac(rng):
    r = rng.random()
    if r < 0.10:
        return 1.0
    if r < 0.18:
        return 0.0
    if r < 0.40:
        return rng.randint(65, 192) / 64          # > 1, dyadic, up to 3
    if r < 0.70:
        return rng.randint(1, 63) / 64            # < 1, dyadic
    if r < 0.76:
        return rng.choice([1e-300, 5e-324, 1e-12, 2.0 ** -40])
    if r < 0.80:
        return rng.choice([1 - 2.0 ** -53, 1 + 2.0 ** -52, 3.0])
    if r < 0.82:
        return "nan"
    return rng.uniform(0, 3)


def gen_list(rng, codes):
    """returns (kind, list)"""
    r = rng.random()
    unknown = ["XXX", "usa", "", "EU27", "SWZ", "U S"]
    if r < 0.05:
        return "empty", []
    if r < 0.40:
        n = rng.choice([1, 1, 2, 3, 5, 8, 20, 60])
        l = [rng.choice(codes) for _ in range(n)]
        if rng.random() < 0.3:
            l.insert(rng.randint(0, len(l)), rng.choice(unknown))
        if rng.random() < 0.3:
            l.append(rng.choice(l))
        return "inclusion", l
    if r < 0.70:
        n = rng.choice([1, 2, 3, 10, 40, 100, 130, 150, 160, 160, 163, 164])
        l = ["!" + c for c in rng.sample(codes, min(n, len(codes)))]
        if rng.random() < 0.3:
            l.insert(rng.randint(0, len(l)), "!" + rng.choice(unknown))
        if rng.random() < 0.3:
            l.append(rng.choice(l))
        return "exclusion", l
    if r < 0.88:
        a = [rng.choice(codes) for _ in range(rng.choice([1, 2, 4, 10]))]
        b = ["!" + rng.choice(codes) for _ in range(rng.choice([1, 2, 4, 10]))]
        if rng.random() < 0.35:
            b.append("!" + rng.choice(a))           # contradictory: named and excluded
        l = a + b
        rng.shuffle(l)
        return "mixed", l
    # odd spellings: "!" elsewhere than in front, doubled, alone
    c = rng.choice(codes)
    d = rng.choice(codes)
    forms = [[c[:2] + "!" + c[2:]], ["!!" + c], [c + "!"], ["!"], ["!" + c, d[:1] + "!" + d[1:]], [c + "!", d], ["!" + c + "!" + d]]
    return "odd", rng.choice(forms)


def gen_case(rng, table):
    codes = [t[0] for t in table]
    kind, l = gen_list(rng, codes)
    case = {"kind": kind, "list": l, "scenario_option": {"scale": "country"}, "ret": True, "overrides": []}
    fr = {c: gen_frac(rng) for c in codes}
    r = rng.random()
    if r < 0.06:
        fr = {c: rng.choice([1.0, 1.5, 2.0]) for c in codes}      # everybody fed
    elif r < 0.10:
        fr = {c: 0.0 for c in codes}
    case["fracs_all"] = fr
    r = rng.random()
    if r < 0.04:
        case["scenario_option"] = {}
    elif r < 0.10:
        case["scenario_option"] = {"scale": "country", "population": float(rng.choice([20000, 1 << 20, 123456789, 5000, 2e10]))}
    elif r < 0.13:
        case["scenario_option"] = {"scale": "country", "dairy": float(rng.choice([0, 5, -1]))}
    if rng.random() < 0.08:
        case["ret"] = False
    # flag combinations: (return_results, save_all_results) in (T,F) mostly, (T,T) = web interface, (F,T), (F,F)
    case["save"] = rng.random() < 0.30
    # deep stub (the real run_optimizer_for_country runs; only what it calls is replaced): dyadic fractions so that
    # percent / 100 is exact; in half of these the per-country computation RAISES for one selected country
    if rng.random() < 0.12 and case["scenario_option"] and not case["overrides"]:
        case["deep"] = True
        case["scenario_option"] = {"scale": "country"}
        case["fracs_all"] = {c: rng.choice([0.0, 1.0, "nan", rng.randint(1, 192) / 64, rng.randint(1, 192) / 64])
                             for c in codes}
        if rng.random() < 0.5:
            plain = [c for c in l if c in codes]
            case["raise_for"] = rng.choice(plain) if plain else rng.choice(codes)
    # sequences on ONE runner object: about half of the calls reuse the previous case's runner (runs of 2-3 and more),
    # some go through run_many_options (two inner calls on the same object; the second is the one compared)
    case["reuse"] = rng.random() < 0.55
    if rng.random() < 0.10 and case["scenario_option"]:
        case["via_many"] = True
        case["save"] = False
        case["ret"] = False          # run_many_options passes return_results=False
    r = rng.random()
    if r < 0.10:
        c = rng.choice(codes)
        v = rng.choice(["nan", 5000.0, 10000.0, 10001.0, 2e10, 1e10, 12345678.0])
        case["overrides"].append([c, "population", v])
    elif r < 0.14:
        c = rng.choice(codes)
        case["overrides"].append([c, rng.choice(["dairy", "kg_meat_per_pig", "grasses_reduction_year3", "seasonality_m7"]),
                                  rng.choice(["nan", -1.5, 0.25, 300.0])])
    return case


def impl_payload(case):
    return {"list": case["list"], "fracs": case["fracs_all"], "default": 0.0, "scenario_option": case["scenario_option"],
            "overrides": case["overrides"], "ret": case["ret"], "reuse": case.get("reuse", False),
            "via_many": case.get("via_many", False), "save": case.get("save", False), "deep": case.get("deep", False),
            "raise_for": case.get("raise_for")}


# ------------------------------------------------------------------ Coq term of a case

def oq(v):
    return "None" if v == "nan" else f"(Some {fq(v)})"


def coq_case(case, res):
    called = res.get("calls", [])
    fr = case["fracs_all"]
    seen = []
    for c in called:
        if c not in seen:
            seen.append(c)
    frl = clist([f"({cstr(c)}, {oq(fr[c])})" for c in seen])
    so = case["scenario_option"]
    opts = clist([f"({cstr(k)}, {fq(v)})" for k, v in so.items() if not isinstance(v, str)])
    ovs = clist([f"({cstr(c)}, {cstr(k)}, {oq(v)})" for c, k, v in case["overrides"]])
    if "err" in res:
        obs = "None"
    else:
        obs = f"(Some ({fq(res['net_pop'])}, {fq(res['net_fed'])}, {clist([cstr(k) for k in res['keys']])}))"
    return (f"check_agg (1#1000000000) trows {ovs} {cnat(len(so))} {opts} {clist([cstr(c) for c in case['list']])} "
            f"(Some 0) {frl} {cbool(case['ret'])} {obs}")


# ------------------------------------------------------------------ direct audit of one result (no model)

def expected_selection(l, codes):
    """independent reading of the property text; returns (set, well_formed)"""
    if not l:
        return set(codes), True
    pref = [c for c in l if c.startswith("!")]
    plain = [c for c in l if not c.startswith("!")]
    odd = any("!" in c[1:] for c in l)
    if odd:
        return None, False
    if len(pref) == len(l):
        return set(codes) - {c[1:] for c in pref}, True
    contradictory = any(("!" + c) in l for c in plain)
    return {c for c in plain if c in codes}, not contradictory


def audit_case(ctx, case, res, table):
    """checks every clause of C15 on the implementation's answer; returns list of (key, what)"""
    fails = []
    rf = case.get("raise_for")
    if rf and "err" not in res and rf in res.get("calls", []):
        fails.append(("C15:failed-country-silently-skipped@run_optimizer_for_country",
                      f"the computation for {rf} raised, yet run_model_no_trade(return_results={case['ret']}, "
                      f"save_all_results={case.get('save', False)}) returned normally without it "
                      f"({len(res['keys'])} result keys, net_pop {res['net_pop']})"))
        return fails
    if "err" in res:
        return fails  # rejected runs return nothing; acceptance is the correspondence's business
    if case["overrides"] or any(k != "scale" for k in case["scenario_option"]):
        pops = None
    else:
        pops = {t[0]: Fraction(t[2]) for t in table}
    codes = [t[0] for t in table]
    names = {t[0]: t[1] for t in table}
    exp, wf = expected_selection(case["list"], codes)
    calls = res["calls"]
    if len(set(calls)) != len(calls):
        fails.append(("C15:once@run_model_no_trade", f"a country was run more than once: {sorted(c for c in set(calls) if calls.count(c) > 1)[:5]}"))
    if exp is not None and wf and set(calls) != exp:
        fails.append(("C15:selection@get_countries_to_run_and_skip",
                      f"list {case['list'][:8]} ran {len(calls)} countries, expected {len(exp)}; "
                      f"extra {sorted(set(calls) - exp)[:5]} missing {sorted(exp - set(calls))[:5]}"))
    fr = case["fracs_all"]
    counted = [c for c in calls if fr[c] != "nan"]
    if case["ret"]:
        if res["keys"] != [names[c] for c in counted]:
            fails.append(("C15:once@run_model_no_trade", "result keys are not exactly the names of the countries run (each once)"))
    if "saved_files" in res:
        want = sorted(f"verif_c15_{names[c]}_{kind}.csv" for c in counted
                      for kind in ("animal_populations", "biofuels", "feed", "meat")) if (case.get("save") and case["ret"]) else []
        if res["saved_files"] != want:
            fails.append(("C15:saved-files@save_all_results_to_csv",
                          f"{len(res['saved_files'])} files written, expected {len(want)} (4 per country run)"))
    if pops is not None:
        np_ = sum(pops[c] for c in counted)
        nf_ = sum(pops[c] * min(Fraction(1), Fraction(fr[c])) for c in counted)
        if abs(Fraction(res["net_pop"]) - np_) > Fraction(1, 10 ** 9) * max(1, np_):
            fails.append(("C15:value@run_model_no_trade", f"net_pop {res['net_pop']} != sum of populations {float(np_)}"))
        if abs(Fraction(res["net_fed"]) - nf_) > Fraction(1, 10 ** 9) * max(1, nf_):
            fails.append(("C15:value@run_model_no_trade", f"net_pop_fed {res['net_fed']} != sum pop*min(1,frac) {float(nf_)}"))
    if res["net_pop"] > 0:
        ratio = Fraction(res["net_fed"]) / Fraction(res["net_pop"])
        if not (0 <= ratio <= 1):
            fails.append(("C15:range@run_model_no_trade", f"aggregate fraction {float(ratio)} outside [0,1]"))
    # the map frame: capped ratio for every country that was run and is on the map
    for c in counted:
        cm = "SWZ" if c == "SWT" else c
        if cm in res["world"]:
            want = min(1.0, float(fr[c]))
            if res["world"][cm] != want:
                fails.append(("C15:world@fill_data_for_map", f"map value of {c} is {res['world'][cm]}, expected {want}"))
                break
    if set(res["world"]) - {("SWZ" if c == "SWT" else c) for c in counted}:
        fails.append(("C15:world@fill_data_for_map", "map has a value for a country that was not run"))
    return fails


# ------------------------------------------------------------------ run

def run(ctx):
    ctx.level = "proof"
    ctx.rule = ("case = (countries_list, fraction per country returned by the stubbed optimiser, scenario_option, table "
                "overrides, return_results x save_all_results, same-runner-object / via run_many_options); evaluation = one call of run_model_no_trade compared with the model inside Coq "
                "and audited clause by clause; non-trivial = the run was accepted, ran at least one country and the list is "
                "non-empty or some fraction is capped; distinct = hash of (list, fractions of the countries run, options, overrides)")
    ctx.trusted += ["translator harness/gen_country_table.py (csv module + decimal.Decimal; AST of ImportUtilities country lists)",
                    "run_optimizer_for_country is replaced by a stub (the property is about the aggregation, not the optimiser); "
                    "pandas.read_csv / geopandas.read_file are wrapped only to cache and to inject table overrides",
                    "modelled, not verified: pandas row iteration order = file order; dict insertion order"]
    ctx.assumptions += ["fractions are non-negative and the selected population is positive for the 0 <= aggregate <= 1 clause "
                        "(hypotheses of c15_aggregate_range; verify_country_data enforces population > 10000)",
                        "scenario_option values that name a table column are numeric (apply_custom_parameters calls float())"]
    ok = ctx.regen(["gen_country_table"])
    if ok:
        import gen_country_table
        ok = gen_country_table.ensure_built(ctx)
    ctx.check_props()
    table = load_table(lib.REPO)
    ctx.log("props checked")
    rng = ctx.rng
    n = 260 if ctx.quick else 4000
    cases = corpus_cases(table) + [gen_case(rng, table) for _ in range(n)]
    real = real_cases(ctx, table)
    out = ctx.run_impl("c15_impl", {"cases": [impl_payload(c) for c in cases], "real": real})
    res = out["results"]
    audit_real(ctx, real, out.get("real", []), table)
    ctx.log("implementation ran", len(cases), "cases")
    # the implementation's own reading of the population column must be the table's (ties csv/Decimal to pandas)
    for (c, nm, p), (c2, nm2, p2) in zip(table, out["table"]):
        if c != c2 or nm != nm2 or abs(float(p) - p2) > 1e-12 * abs(p2):
            ctx.tie_ok = False
            ctx.broken.append(f"pandas reads row {c2} differently from the translator")
            ctx.violation("C15:tie:table", f"row {c}/{c2}: population {p} vs {p2}", {"kind": "tie-broken", "row": [c, c2, p, p2]})
            break
    dist = {}
    nfail = 0
    for case, r in zip(cases, res):
        dist[case["kind"]] = dist.get(case["kind"], 0) + 1
        dist["rejected" if "err" in r else "accepted"] = dist.get("rejected" if "err" in r else "accepted", 0) + 1
        called = r.get("calls", [])
        nontriv = "err" not in r and len(called) > 0 and (len(case["list"]) > 0 or any(
            case["fracs_all"][c] != "nan" and case["fracs_all"][c] > 1 for c in called))
        ctx.count((case["list"], [(c, case["fracs_all"][c]) for c in called], sorted(case["scenario_option"].items()),
                   case["overrides"], case["ret"]), nontrivial=nontriv)
        for key, what in audit_case(ctx, case, r, table):
            nfail += 1
            if nfail <= 5:
                ctx.violation(key, what, {"kind": "counterexample", "call": "run_model_no_trade (stubbed optimiser)",
                                          "case": impl_payload(case), "observed": {k: v for k, v in r.items() if k != "world"},
                                          "requires": "C15 clause " + key})
    ctx.notes["audit"] = {"cases": len(cases), "failures": nfail}
    ctx.notes["distribution"] = dist
    if ok:
        bok, bad, _ = ctx.build(["Model/Aggregate.vo", "Gen/CountryTable.vo"])
        if not bok:
            ctx.tie_ok = False
            ctx.broken.append(f"model does not compile against the regenerated table: {bad}")
        else:
            # a propagated failure of the (deep-)stubbed optimiser is outside the model: audited only
            pairs = [(c, r) for c, r in zip(cases, res)
                     if not (c.get("raise_for") and r.get("err", "").startswith("Other:RuntimeError"))]
            raised = len(cases) - len(pairs)
            ctx.notes["raising_country_cases"] = {
                "cases": sum(1 for c in cases if c.get("raise_for")), "exception_propagated": raised,
                "by_mode": {f"ret={c['ret']},save={c.get('save', False)}": r.get("err", "returned")
                            for c, r in zip(cases, res) if c.get("kind") == "raises"}}
            terms = [coq_case(c, r) for c, r in pairs]
            codes = ctx.coq_codes("c15", IMPORTS, terms, per_file=24 if ctx.quick else 100, defs=DEFS)
            nbad = 0
            for code, (case, r) in zip(codes, pairs):
                if code != 0:
                    nbad += 1
                    if nbad <= 3:
                        ctx.tie_ok = False
                        what = NAMES.get(code, str(code))
                        ctx.broken.append(f"correspondence run_model_no_trade vs Model/Aggregate.run_no_trade: {what}")
                        ctx.violation("C15:tie:" + what, f"model and implementation disagree ({what}) on list {case['list'][:10]}",
                                      {"kind": "tie-broken", "case": impl_payload(case),
                                       "observed": {k: v for k, v in r.items() if k != "world"}})
            ctx.notes["correspondence"] = {"cases": len(terms), "disagreements": nbad}
            ctx.traces += len(terms)
    for c, r in list(zip(cases, res))[len(corpus_cases(table)):][:3]:
        ctx.sample({"list": c["list"][:12], "scenario_option": c["scenario_option"], "overrides": c["overrides"],
                    "observed": {k: (v if k != "keys" and k != "calls" else v[:4]) for k, v in r.items() if k not in ("world", "run_skip")}})


REAL_OPTION = {
    "title": "verif", "scale": "country", "seasonality": "country", "grasses": "country_nuclear_winter",
    "crop_disruption": "country_nuclear_winter", "scenario": "no_resilient_foods", "fish": "nuclear_winter",
    "waste": "baseline_in_country", "nutrition": "catastrophe", "intake_constraints": "enabled",
    "stored_food": "baseline", "ratio_stocks_untouched": "zero", "shutoff": "long_delayed_shutoff",
    "cull": "do_eat_culled", "fat": "not_required", "protein": "not_required",
    "meat_strategy": "reduce_breeding", "NMONTHS": 120,
}
REAL_POOL = ["USA", "IND", "BRA", "NZL", "JPN", "NGA", "FRA", "ARG", "EGY", "MNG", "CHE", "KEN"]


def real_cases(ctx, table):
    """un-stubbed multi-country runs (real optimiser): one inclusion list; thorough adds an exclusion list"""
    rng = ctx.rng
    codes = [t[0] for t in table]
    inc = rng.sample(REAL_POOL, 3)
    cases = [{"list": inc, "scenario_option": dict(REAL_OPTION)}]
    if not ctx.quick:
        keep = set(rng.sample(REAL_POOL, 4))
        cases.append({"list": ["!" + c for c in codes if c not in keep],
                      "scenario_option": dict(REAL_OPTION, grasses="baseline", crop_disruption="zero", fish="baseline",
                                              nutrition="baseline", shutoff="continued", meat_strategy="baseline_breeding",
                                              ratio_stocks_untouched="baseline")})
    return cases


def audit_real(ctx, cases, results, table):
    codes = [t[0] for t in table]
    names = {t[0]: t[1] for t in table}
    info = []
    for case, r in zip(cases, results):
        rep = {"kind": "counterexample", "call": "run_model_no_trade (real optimiser)", "list": case["list"][:12],
               "scenario_option": case["scenario_option"], "observed": r}
        if "err" in r:
            ctx.violation("C15:real-run-failed@run_model_no_trade", f"un-stubbed run failed: {r['err']} {r.get('msg', '')[:200]}", rep)
            continue
        exp, _ = expected_selection(case["list"], codes)
        ran = [x[0] for x in r["rec"]]
        ok = True
        if set(ran) != exp or len(ran) != len(set(ran)):
            ok = False
            ctx.violation("C15:selection@get_countries_to_run_and_skip", f"real run: ran {ran}, expected {sorted(exp)}", rep)
        good = [x for x in r["rec"] if x[3] != "nan"]
        if r["keys"] != [names[x[0]] for x in good]:
            ok = False
            ctx.violation("C15:once@run_model_no_trade", f"real run: result keys {r['keys']} for countries {ran}", rep)
        np_ = sum(Fraction(x[2]) for x in good)
        nf_ = sum(Fraction(x[2]) * min(Fraction(1), Fraction(x[3])) for x in good)
        if abs(Fraction(r["net_pop"]) - np_) > Fraction(1, 10 ** 9) * max(1, np_) or \
                abs(Fraction(r["net_fed"]) - nf_) > Fraction(1, 10 ** 9) * max(1, nf_):
            ok = False
            ctx.violation("C15:value@run_model_no_trade", f"real run: totals {r['net_pop']}, {r['net_fed']} != {float(np_)}, {float(nf_)}", rep)
        for x in good:
            pf = r["percent_people_fed"].get(names[x[0]])
            if pf is None or pf == "nan" or abs(pf / 100 - x[3]) > 1e-12 * max(1, abs(x[3])):
                ok = False
                ctx.violation("C15:value@run_optimizer_for_country", f"real run: {x[0]} ratio {x[3]} but percent_people_fed {pf}", rep)
        if r["net_pop"] > 0 and not 0 <= r["net_fed"] / r["net_pop"] <= 1:
            ok = False
            ctx.violation("C15:range@run_model_no_trade", f"real run: aggregate {r['net_fed'] / r['net_pop']}", rep)
        ctx.count(("real", case["list"], sorted(case["scenario_option"].items())), nontrivial=ok and len(good) > 0)
        ctx.traces += 1
        info.append({"countries": ran, "ratios": [x[3] for x in r["rec"]], "net_pop": r["net_pop"], "net_fed": r["net_fed"]})
    ctx.notes["real_runs"] = info
    if info:
        ctx.sample({"real_run": info[0]})


def corpus_cases(table):
    """fixed cases run first: the shapes the docstring talks about"""
    codes = [t[0] for t in table]
    half = {c: 0.5 for c in codes}
    base = {"scenario_option": {"scale": "country"}, "ret": True, "overrides": []}
    out = []
    for kind, l in [("empty", []), ("inclusion", ["USA"]), ("exclusion", ["!USA", "!CHN"]), ("mixed", ["USA", "!CHN"]),
                    ("mixed", ["USA", "!USA"]), ("inclusion", ["USA", "USA"]), ("inclusion", ["XXX"]), ("odd", ["US!A"]),
                    ("exclusion", ["!" + c for c in codes]), ("inclusion", ["SWT", "SWZ"])]:
        fr = dict(half)
        fr["USA"] = 1.5
        fr["CHN"] = 1.0
        out.append({"kind": kind, "list": l, "fracs_all": fr, "reuse": len(out) % 3 != 0, **base})
    # web-interface combination and the other flag settings
    for ret, save in ((True, True), (False, True), (True, True)):
        out.append({"kind": "flags", "list": ["USA", "CHN", "NZL"] if ret else ["!USA"], "fracs_all": dict(half), "reuse": False,
                    "save": save, **dict(base, ret=ret)})
    # the per-country computation raises for one selected country, in every flag mode (reference: it propagates)
    for ret in (True, False):
        for save in (False, True):
            fr = {c: 0.5 for c in codes}
            out.append({"kind": "raises", "list": ["USA", "CHN", "NZL"], "fracs_all": fr, "reuse": False, "save": save,
                        "deep": True, "raise_for": "CHN", **dict(base, ret=ret)})
    out.append({"kind": "raises", "list": ["!USA"], "fracs_all": {c: 0.25 for c in codes}, "reuse": False, "save": True,
                "deep": True, "raise_for": "NZL", **base})
    out.append({"kind": "deep", "list": ["USA", "CHN", "NZL"], "fracs_all": {c: 1.5 for c in codes}, "reuse": False, "save": True,
                "deep": True, **base})
    # the same selection twice and through run_many_options on one runner object
    for l in (["USA", "CHN"], ["!USA"]):
        fr = dict(half)
        out.append({"kind": "sequence", "list": l, "fracs_all": fr, "reuse": True, **base})
        out.append({"kind": "sequence", "list": l, "fracs_all": fr, "reuse": True, "via_many": True, **dict(base, ret=False)})
    return out


def replay(rep):
    ctx = lib.Ctx(KEY, "quick", rep.get("seed", 0))
    table = load_table(lib.REPO)
    case = dict(rep["case"])
    case["fracs_all"] = {t[0]: case["fracs"].get(t[0], case.get("default", 0.0)) for t in table}
    case.setdefault("kind", "replay")
    r = ctx.run_impl("c15_impl", {"cases": [rep["case"]]})["results"][0]
    fails = audit_case(ctx, case, r, table)
    print(json.dumps({k: v for k, v in r.items() if k != "world"}, indent=1)[:2000])
    if rep.get("kind") == "tie-broken":
        ctx.regen(["gen_country_table"])
        bok, _, _ = ctx.build(["Model/Aggregate.vo", "Gen/CountryTable.vo"])
        code = ctx.coq_codes("c15r", IMPORTS, [coq_case(case, r)], defs=DEFS)[0] if bok else 99
        if code != 0:
            print("model and implementation disagree:", NAMES.get(code, code))
            return 1
    for key, what in fails:
        print("FAILED", key, what)
    return 1 if fails else 0
