"""C10 - unit conversions consistent and anchored.
proof: Props/C10.v over Gen/UnitTables.v (regenerated from the source);
tie: translator + correspondence of Food.in_units / helpers with Model/Units.in_units;
search/audit: round trip, triangle, anchors, shape evaluated directly on the implementation."""
import math
from lib import fq, fql, cstr, clist

SUFFIXES = ["", " each month", " per month"]


def base_of(u):
    for s in SUFFIXES[1:]:
        if u.endswith(s):
            return u[: -len(s)]
    return u


def sfx_of(u):
    for s in SUFFIXES[1:]:
        if u.endswith(s):
            return s
    return ""


def coq_vals(fd):
    if fd["monthly"]:
        return f"(Monthly {fql(fd['kcals'])} {fql(fd['fat'])} {fql(fd['protein'])})"
    return f"(Scalar {fq(fd['kcals'])} {fq(fd['fat'])} {fq(fd['protein'])})"


def coq_obs(fd):
    if fd is None or "err" in fd:
        return "None"
    return (f"(Some ({coq_vals(fd)}, ({cstr(fd['ku'])}, {cstr(fd['fu'])}, {cstr(fd['pu'])}), "
            f"{clist([cstr(u) for u in fd['units']])}))")


def gen_settings(rng, n):
    out = [{"kcals_daily": 2100.0, "fat_daily": 47.0, "protein_daily": 51.0, "population": 7.8e9}]
    while len(out) < n:
        out.append({"kcals_daily": float(rng.choice([1, 500, 1800, 2100, 2500, 10000]) * rng.choice([1, 1, 1.25])),
                    "fat_daily": float(rng.choice([1, 20, 47, 60, 300])),
                    "protein_daily": float(rng.choice([1, 30, 51, 53, 400])),
                    "population": float(rng.choice([1e4, 3.2e5, 4.5e7, 3.3e8, 1.4e9, 7.8e9, 1e10]))})
    return out


def gen_values(rng, monthly):
    def one():
        r = rng.random()
        if r < 0.1:
            return 0.0
        if r < 0.2:
            return -float(rng.randint(1, 4096)) / 64
        if r < 0.6:
            return float(rng.randint(1, 1 << 20)) / 64
        return rng.uniform(1e-6, 1e7)
    if monthly:
        n = rng.randint(1, 6)
        return [one() for _ in range(n)], [one() for _ in range(n)], [one() for _ in range(n)]
    return one(), one(), one()


def run(ctx):
    ctx.level = "proof"
    ctx.rule = ("case = (settings, food with known unit labels, chain of in_units/helper conversions); pairs of "
                "(source unit, bare target unit) are enumerated exhaustively per nutrient table, settings and values "
                "are drawn from the seed; non-trivial = the chain was accepted and at least one value is non-zero; "
                "distinct = hash of (settings, labels, targets, values)")
    ctx.trusted += ["translator harness/gen_units.py (AST shapes of set_nutrition_requirements, get_*_multipliers, "
                    "get_conversion, in_units, in_units_* helpers)",
                    "modelled, not verified: numpy elementwise multiplication, Food.__init__ label normalisation"]
    ctx.assumptions += ["population and daily requirements are positive (hypothesis positive_settings of every theorem)"]
    ok = ctx.regen(["gen_units"])
    info = ctx.notes.get("translators", {}).get("gen_units") if ok else None
    ctx.check_props()
    if info is None:
        # cannot enumerate keys from the source: use the implementation's own tables in the audit
        keys = None
    else:
        keys = info["keys"]
    audit(ctx, keys)
    if ok:
        bok, bad, out = ctx.build(["Model/UnitsCheck.vo"])
        if not bok:
            ctx.tie_ok = False
            ctx.broken.append(f"model does not compile against regenerated tables: {bad}")
        else:
            correspondence(ctx, info)


# ------------------------------------------------------------------ correspondence

def build_cases(ctx, info):
    rng = ctx.rng
    keys = info["keys"]
    K, F, P = keys["kcal"], keys["fat"], keys["protein"]
    bare = {n: [k for k in keys[n] if sfx_of(k) == ""] for n in keys}
    nset = 3 if ctx.quick else 12
    settings = gen_settings(rng, nset)
    groups = []
    for si, s in enumerate(settings):
        cases = []
        # exhaustive pair enumeration: every source unit of every table x every bare target
        npairs = max(len(K) * len(bare["kcal"]), len(F) * len(bare["fat"]), len(P) * len(bare["protein"]))
        for i in range(npairs):
            fk = K[(i // len(bare["kcal"])) % len(K)]
            tk = bare["kcal"][i % len(bare["kcal"])]
            sfx = sfx_of(fk)
            # fat / protein sources in the same suffix class as the kcal label (a well-formed food)
            fbases = bare["fat"]
            ff = fbases[(i // len(bare["fat"])) % len(fbases)] + sfx
            tf = bare["fat"][i % len(bare["fat"])]
            pbases = bare["protein"]
            fp = pbases[(i // len(bare["protein"]) + si) % len(pbases)] + sfx
            tp = bare["protein"][(i + si) % len(bare["protein"])]
            monthly = sfx == " each month"
            k, f, p = gen_values(rng, monthly)
            food = {"monthly": monthly, "kcals": k, "fat": f, "protein": p, "ku": fk, "fu": ff, "pu": fp}
            # chain: convert, convert via second target, convert back to the source bases
            tk2 = rng.choice(bare["kcal"]); tf2 = rng.choice(bare["fat"]); tp2 = rng.choice(bare["protein"])
            steps = [{"to": [tk, tf, tp]}, {"to": [tk2, tf2, tp2]}, {"to": [base_of(fk), base_of(ff), base_of(fp)]}]
            cases.append({"food": food, "steps": steps, "kind": "pairs"})
        # helpers
        for h, (a, b, c) in info["helper_targets"].items():
            for sfx in SUFFIXES:
                monthly = sfx == " each month"
                k, f, p = gen_values(rng, monthly)
                food = {"monthly": monthly, "kcals": k, "fat": f, "protein": p, "ku": "billion kcals" + sfx,
                        "fu": "thousand tons" + sfx, "pu": "thousand tons" + sfx}
                cases.append({"food": food, "steps": [{"helper": h, "to": [a, b, c]}], "kind": "helper"})
        # malformed stream: unknown units, mixed suffix classes, monthly values with bare labels
        for j in range(12 if ctx.quick else 60):
            monthly = rng.random() < 0.5
            k, f, p = gen_values(rng, monthly)
            r = rng.random()
            if r < 0.35:
                lab = [rng.choice(K), rng.choice(F), rng.choice(P)]
            elif r < 0.6:
                lab = ["tons of joy" + rng.choice(SUFFIXES), rng.choice(F), rng.choice(P)]
            elif r < 0.8:
                lab = [rng.choice(K), rng.choice(K), rng.choice(P)]
            else:
                lab = [rng.choice(bare["kcal"]), rng.choice(bare["fat"]), rng.choice(bare["protein"])]
            to = [rng.choice(bare["kcal"] + ["bogus"]), rng.choice(bare["fat"]), rng.choice(bare["protein"] + K[:2])]
            food = {"monthly": monthly, "kcals": k, "fat": f, "protein": p, "ku": lab[0], "fu": lab[1], "pu": lab[2]}
            cases.append({"food": food, "steps": [{"to": to}], "kind": "malformed"})
        groups.append({"settings": s, "cases": cases})
    return groups


def correspondence(ctx, info):
    groups = build_cases(ctx, info)
    res = ctx.run_impl("c10_impl", {"groups": groups})["results"]
    terms, meta = [], []
    i = 0
    dist = {"pairs": 0, "helper": 0, "malformed": 0, "accepted_chains": 0, "rejected_chains": 0}
    for g in groups:
        s = g["settings"]
        conv = (f"{{| kcals_daily := {fq(s['kcals_daily'])}; fat_daily := {fq(s['fat_daily'])}; "
                f"protein_daily := {fq(s['protein_daily'])}; population := {fq(s['population'])} |}}")
        for case in g["cases"]:
            r = res[i]
            i += 1
            dist[case["kind"]] += 1
            if r["start"] is None:
                continue
            st = r["start"]
            steps = clist([f"({cstr(x['to'][0])}, {cstr(x['to'][1])}, {cstr(x['to'][2])})" for x in case["steps"]][:len(r["steps"])])
            observed = clist([coq_obs(x) for x in r["steps"]])
            start = (f"(raw_food {coq_vals(st)} {cstr(st['ku'])} {cstr(st['fu'])} {cstr(st['pu'])} "
                     f"{clist([cstr(u) for u in st['units']])})")
            terms.append(f"check_chain (1#1000000000000) {conv} {start} {steps} {observed}")
            meta.append((s, case, r))
            accepted = all("err" not in x for x in r["steps"])
            dist["accepted_chains" if accepted else "rejected_chains"] += 1
            nz = accepted and any(v != 0 for v in (st["kcals"] if isinstance(st["kcals"], list) else [st["kcals"]]))
            ctx.count((s, case["food"], [x.get("to") for x in case["steps"]]), nontrivial=nz)
            if not r["operand_unchanged"]:
                ctx.violation("C10:operand-modified", "in_units modified its operand", {"kind": "counterexample", "case": case, "settings": s})
    codes = ctx.coq_codes("c10", "From Allfed Require Import Gen.UnitTables Model.Units Model.UnitsCheck.", terms)
    names = {1: "values differ", 2: "labels differ", 3: "units list differs", 4: "model accepts, implementation rejects",
             5: "model rejects, implementation accepts", 6: "chain length mismatch"}
    nbad = 0
    for code, (s, case, r) in zip(codes, meta):
        if code != 0:
            nbad += 1
            if nbad <= 3:
                ctx.tie_ok = False
                ctx.broken.append(f"correspondence Food.in_units vs Model/Units.in_units: {names.get(code, code)}")
                ctx.violation("C10:tie:" + names.get(code, str(code)),
                              f"model and implementation disagree ({names.get(code, code)}) on {case['food']['ku']} -> {case['steps']}",
                              {"kind": "tie-broken", "settings": s, "case": case, "observed": r})
    ctx.notes["correspondence"] = {"cases": len(terms), "disagreements": nbad, "distribution": dist}
    ctx.sample({"settings": meta[0][0], "food": meta[0][1]["food"], "steps": meta[0][1]["steps"],
                "observed_final": meta[0][2]["steps"][-1]})
    ctx.sample({"malformed": meta[-1][1]["food"], "steps": meta[-1][1]["steps"], "observed": meta[-1][2]["steps"]})
    ctx.traces += len(terms)


# ------------------------------------------------------------------ direct audit (failing-input search)

def relerr(a, b):
    if a == b:
        return 0.0
    return abs(a - b) / max(abs(a), abs(b), 1e-300)


def audit(ctx, keys):
    """evaluate the property itself on the implementation: exhaustive over unit pairs; triples sampled (quick)
    or exhaustive (thorough)."""
    rng = ctx.rng
    if keys is None:
        keys = {"kcal": None}
    payload = {"settings": gen_settings(rng, 2 if ctx.quick else 6), "triples": "sample" if ctx.quick else "all",
               "seed": rng.randint(0, 1 << 30)}
    res = ctx.run_impl("c10_audit", payload)
    ctx.notes["audit"] = {k: res[k] for k in ("pairs", "triples", "anchors", "shape_cases", "max_rel_err")}
    ctx.count(n=res["pairs"] + res["triples"] + res["anchors"] + res["shape_cases"])
    for i in range(res["distinct"]):
        ctx.nontrivial.add(f"audit{i}")
    shown = set()
    for f in res["failures"]:          # the first failure of every distinct kind (one kind must not hide another)
        if f["kind"] in shown or len(shown) >= 8:
            continue
        shown.add(f["kind"])
        ctx.violation("C10:" + f["kind"], f["what"], {"kind": "counterexample", **f})
    if res["failures"]:
        ctx.log("audit failures:", len(res["failures"]))


def replay(rep):
    import json, lib
    ctx = lib.Ctx("C10", "quick", rep.get("seed", 0))
    res = ctx.run_impl("c10_audit", {"replay": rep})
    print(json.dumps(res, indent=1)[:3000])
    return 1 if res["failures"] else 0
