"""C05 - meat and milk offered to the optimiser match the simulated herds and feed.

proof:  Props/C05.v (Model/MeatDairy.v, Proofs/MeatDairy.v)
tie:    (i) Parameters.calculate_meat_from_feed_results / calculate_non_meat_and_dairy_from_feed_results /
            MeatAndDairy.* on fabricated herds, AnimalPopulation.feed_animals, Parameters.increase_biofuels_then_feed
            against the model (compared inside Coq);
        (ii) real three-round runs: every CalculateFeedAndMeat instance and what every Optimizer was handed are
            captured by wrapping constructors from the runner, the model is evaluated on the captured herd lists
audit:  harness/impl/c05_audit.py recomputes meat / milk with exact Fractions from the captured herd objects and
        checks charge >= eaten, used <= available, zero charge -> unfed herd, the round decision tree."""
import json

from lib import fq, fql, cstr, clist, cbool, cnat

IMPORTS = "From Allfed Require Import Model.MeatDairy Model.MeatDairyCheck."

BASE_OPTION = {
    "title": "verif", "scale": "country", "seasonality": "country", "grasses": "country_nuclear_winter",
    "crop_disruption": "country_nuclear_winter", "scenario": "no_resilient_foods", "fish": "nuclear_winter",
    "waste": "baseline_in_country", "nutrition": "catastrophe", "intake_constraints": "enabled",
    "stored_food": "baseline", "ratio_stocks_untouched": "zero", "shutoff": "long_delayed_shutoff",
    "cull": "do_eat_culled", "fat": "not_required", "protein": "not_required",
    "meat_strategy": "reduce_breeding", "NMONTHS": 120,
}
BASELINE = {"grasses": "baseline", "crop_disruption": "zero", "fish": "baseline", "nutrition": "baseline",
            "ratio_stocks_untouched": "baseline", "shutoff": "continued", "meat_strategy": "baseline_breeding"}

def all_countries():
    """iso3 codes of the shipped country table (164 rows)"""
    import csv, os, lib
    with open(os.path.join(lib.REPO, "data", "no_food_trade", "computer_readable_combined.csv")) as f:
        return [row["iso3"] for row in csv.DictReader(f)]


MEAT_NAMES = {1: "per-head yields differ", 2: "monthly meat differs", 3: "running total differs",
              4: "meat_summed_consumption differs", 5: "accept/reject mismatch", 6: "milk_kcals differs",
              7: "class series differ", 8: "dairy population differs", 9: "last running value is not the herd total",
              10: "grass left differs", 11: "feed left differs", 12: "bumped biofuel differs", 13: "bumped feed differs",
              14: "length mismatch", 15: "round-3 herd source differs from the decision tree",
              16: "round-3 herd feed differs", 17: "round-3 charge differs", 18: "length mismatch"}

TOL = "(1#1000000000)"
TOL_BUMP = "(1#10000000)"


# ------------------------------------------------------------------ generators

SPECIES = [("chicken", "small"), ("pig", "medium"), ("turkey", "small"), ("duck", "small"), ("rabbit", "small"),
           ("goose", "small"), ("other_rodents", "small"), ("meat_goat", "medium"), ("meat_sheep", "medium"),
           ("camelids", "medium"), ("mule", "medium"), ("asses", "medium"), ("milk_sheep", "medium"),
           ("milk_goat", "medium"), ("meat_cattle", "large"), ("milk_cattle", "large"), ("horse", "large"),
           ("meat_camel", "large"), ("milk_camel", "large"), ("meat_buffalo", "large"), ("milk_buffalo", "large")]
ODD = [("chicken", "medium"), ("pig", "small"), ("pig", "large"), ("dragon", "huge"), ("buttermilk_yak", "large"),
       ("milk", "small"), ("Chicken", "small"), ("meat_cattle", "Large"), ("pigeon", "small"), ("chicken", "large")]


def gen_heads(rng, n):
    r = rng.random()
    if r < 0.12:
        return [0.0] * n
    if r < 0.65:
        top = rng.choice([64, 4096, 1 << 20, 1 << 26])
        return [rng.randint(0, top) / 64.0 if rng.random() > 0.15 else 0.0 for _ in range(n)]
    if r < 0.93:
        s = rng.choice([1.0, 1e3, 1e6, 3e8])
        return [rng.random() * s for _ in range(n)]
    return [rng.uniform(-50, 200) for _ in range(n)]


def gen_pct(rng):
    r = rng.random()
    if r < 0.15:
        return 0.0
    if r < 0.5:
        return rng.randint(0, 99 * 64) / 64.0
    if r < 0.6:
        return 99.0
    return rng.uniform(0, 99)


def gen_direct(rng, count):
    cases = []
    # per-head yields exactly 0 and tiny, each alone and together, on a herd that has every species
    for kc, kp, kl in [(0.0, 86.0, None), (1.65, 0.0, None), (1.65, 86.0, 0.0), (0.0, 0.0, 0.0), (0.0, 0.0, None),
                       (1e-9, 86.0, None), (1.65, 1e-9, None), (1.65, 86.0, 1e-9), (1e-9, 1e-9, 1e-9), (0.0, 1e-9, 250.0)]:
        n = rng.choice([2, 3, 5])
        herd = [{"type": t, "size": s, "slaughter": [rng.randint(1, 1 << 16) / 64.0 for _ in range(n)],
                 "population": [rng.randint(1, 1 << 16) / 64.0 for _ in range(n)]} for t, s in SPECIES]
        rng.shuffle(herd)
        cases.append({"NMONTHS": 12, "herd": herd, "kind": "zero-or-tiny-yield", "ADD_MILK": True,
                      "dist_meat": gen_pct(rng), "dist_milk": gen_pct(rng), "retail": gen_pct(rng),
                      "kg_chicken": kc, "kg_pig": kp, "kg_large": kl, "milk_yield": rng.choice([0.0, 1e-9, 1099.6])})
    for i in range(count):
        n = rng.choice([1, 2, 3, 4, 5, 6, 8, 12])
        k = rng.choice([1, 1, 2, 3, 5, 8, 13, 21])
        pool = SPECIES if rng.random() < 0.7 else SPECIES + ODD
        if k >= len(SPECIES) and rng.random() < 0.5:
            chosen = list(SPECIES)
            rng.shuffle(chosen)
        else:
            chosen = [rng.choice(pool) for _ in range(k)]
            if rng.random() < 0.75:   # real herds list each species once
                seen, uniq = set(), []
                for c in chosen:
                    if c[0] not in seen:
                        seen.add(c[0])
                        uniq.append(c)
                chosen = uniq
        herd = [{"type": t, "size": s, "slaughter": gen_heads(rng, n), "population": gen_heads(rng, n)} for t, s in chosen]
        kind = "valid"
        r = rng.random()
        if r < 0.04:
            herd, kind = [], "empty"
        elif r < 0.10 and n >= 2 and len(herd) >= 2:
            j = rng.randrange(1, len(herd))
            a = herd[j]
            m = n + rng.choice([1, 2]) if n < 3 or rng.random() < 0.5 else n - 1
            if a["type"] not in ("chicken", "pig") and a["size"] in ("small", "medium", "large"):
                a["slaughter"] = gen_heads(rng, m)
                kind = "ragged"
            elif "milk" in a["type"]:
                a["population"] = gen_heads(rng, m)
                kind = "ragged"
        cases.append({
            "NMONTHS": 12, "herd": herd, "kind": kind, "ADD_MILK": rng.random() < 0.8,
            "dist_meat": gen_pct(rng), "dist_milk": gen_pct(rng), "retail": gen_pct(rng),
            "kg_chicken": rng.choice([1.65, 3.0, 2.0, rng.uniform(0.5, 5), 0.0, 1e-9]),
            "kg_pig": rng.choice([86.0, 93.0, rng.uniform(20, 150), 0.0, 1e-9]),
            "kg_large": (None if rng.random() < 0.5 else rng.choice([200.0, 350.5, rng.uniform(50, 600), 0.0, 1e-9])),
            "milk_yield": rng.choice([1099.6, 7565.5, rng.uniform(100, 12000), 0.0])})
    return cases


def gen_feed(rng, count):
    cases = []
    for i in range(count):
        k = rng.randint(0, 7)
        eaters = []
        for _ in range(k):
            eaters.append({"lu": rng.choice([0.01, 0.1, 0.5, 1.0, rng.random()]),
                           "lsu_factor": rng.choice([1.0, 0.7, 1.2, rng.uniform(0.3, 1.5)]),
                           "pop": float(rng.choice([0, 0, 1, 1000, rng.randint(0, 10 ** 7), rng.randint(0, 10 ** 9)])),
                           "ruminant": rng.random() < 0.5,
                           "eg": rng.choice([0.6, 0.6, 0.5]), "ef": rng.choice([0.8, 0.8, 0.75])})
        scale = rng.choice([0.0, 1.0, 100.0, 1e4, 1e6])
        cases.append({"eaters": eaters, "grass": rng.choice([0.0, rng.random() * scale, rng.randint(0, 1 << 16) / 64.0]),
                      "feed": rng.choice([0.0, rng.random() * scale, rng.randint(0, 1 << 16) / 64.0])})
    return cases


def gen_bump(rng, count):
    cases = []
    for i in range(count):
        n = rng.randint(1, 6)

        def d():
            return [rng.choice([0.0, rng.randint(0, 1 << 14) / 64.0, rng.randint(0, 1 << 14) / 64.0]) for _ in range(n)]
        feed, bio = d(), d()
        cases.append({"biofuel": bio, "feed": feed, "increase": d(),
                      "max_biofuel": [b + rng.choice([0.0, rng.randint(0, 4096) / 64.0, -1.0]) for b in bio],
                      "max_feed": [f + rng.choice([0.0, rng.randint(0, 4096) / 64.0, -1.0]) for f in feed],
                      "total_crops": [b + f + rng.choice([0.0, rng.randint(0, 8192) / 64.0, -2.0]) for b, f in zip(bio, feed)]})
    return cases


def opt(**kw):
    o = dict(BASE_OPTION)
    o.update(kw)
    return o


def random_option(rng):
    o = dict(BASE_OPTION)
    if rng.random() < 0.5:
        o.update(BASELINE)
    o["shutoff"] = rng.choice(["immediate", "one_month_delayed_shutoff", "short_delayed_shutoff", "long_delayed_shutoff",
                               "continued", "continued", "continued_after_10_percent_fed"])
    o["waste"] = rng.choice(["zero", "tripled_prices_in_country", "doubled_prices_in_country", "baseline_in_country"])
    o["cull"] = rng.choice(["do_eat_culled", "do_eat_culled", "dont_eat_culled"])
    o["meat_strategy"] = rng.choice(["reduce_breeding", "baseline_breeding", "feed_only_ruminants"])
    o["scenario"] = rng.choice(["no_resilient_foods", "no_resilient_foods", "all_resilient_foods", "seaweed", "methane_scp",
                                "cellulosic_sugar", "relocated_crops", "greenhouse", "industrial_foods"])
    o["stored_food"] = rng.choice(["baseline", "baseline", "zero"])
    o["NMONTHS"] = rng.choice([48, 60, 72, 84, 96, 108, 120, 120])
    if rng.random() < 0.25:
        o["kg_meat_per_large_animal"] = rng.choice([200, 320.5, 150])
    return o


def gen_runs(ctx):
    rng = ctx.rng
    anchors = [
        ("ARG", opt()),                                   # three rounds, herds fed for a few months
        ("AUS", opt(**BASELINE)),                         # continued feed, charge bumped above eaten almost every month
        ("MNG", opt()),                                   # round-2 slaughter re-timed
        ("LSO", opt()),                                   # round 2 aborted (less meat with feed)
        ("BHR", opt()),                                   # no feed demand: rounds 1 and 2 skipped
        ("SGP", opt(**BASELINE)),                         # a single species
        ("USA", opt(cull="dont_eat_culled", waste="zero", shutoff="continued")),
        ("SYR", opt()),                                   # the table gives 0 kg per pig, and the country has pigs
        ("DEU", opt(kg_meat_per_pig=0)),                  # numeric overrides through the real option layer: a yield of
        ("BRA", opt(kg_meat_per_chicken=0, NMONTHS=60)),  # exactly 0 must give exactly no meat from that species
        ("IND", opt(NMONTHS=48, waste="doubled_prices_in_country", meat_strategy="feed_only_ruminants",
                    kg_meat_per_large_animal=320.5, shutoff="short_delayed_shutoff")),
    ]
    jobs = [{"iso3": c, "option": o} for c, o in anchors]
    # ordered pairs executed in ONE worker process: the first run must leave nothing behind that the second one reuses
    # (same country / horizon / strategy / shut-off, hence the same feed offered to the herds, different grass ...)
    pairs = [("ARG", opt(NMONTHS=72, grasses="baseline"), opt(NMONTHS=72))]
    if not ctx.quick:
        cs = all_countries()
        for _ in range(10):
            c = rng.choice(cs)
            base = random_option(rng)
            second = dict(base)
            what = rng.choice(["grasses", "grasses", "grasses", "kg", "strategy", "waste"])
            if what == "grasses":
                base["grasses"], second["grasses"] = rng.sample(["baseline", "country_nuclear_winter"], 2)
            elif what == "kg":
                base["kg_meat_per_large_animal"], second["kg_meat_per_large_animal"] = 150, 400
            elif what == "strategy":
                base["meat_strategy"], second["meat_strategy"] = rng.sample(["reduce_breeding", "baseline_breeding", "feed_only_ruminants"], 2)
            else:
                base["waste"], second["waste"] = "zero", "tripled_prices_in_country"
            pairs.append((c, base, second))
    for c, first, second in pairs:
        jobs.append({"iso3": c, "option": second, "prelude": [{"iso3": c, "option": first}]})
    pool = all_countries()
    extra = 2 if ctx.quick else len(pool)
    rng.shuffle(pool)
    for c in pool[:extra]:
        jobs.append({"iso3": c, "option": random_option(rng)})
    return jobs


# ------------------------------------------------------------------ Coq terms

def coq_opt(x):
    return "None" if x is None else f"(Some {fq(x)})"


def coq_herd(animals):
    return clist([f"(mk_animal {cstr(a['type'])} {cstr(a['size'])} {fql(a['slaughter'])} {fql(a['population'])})" for a in animals])


def coq_meat_obs(res):
    if res is None or "err" in res:
        return "None"
    return (f"(Some ({fql(res['yields'])}, {clist([fql(x) for x in res['classes']])}, {fql(res['monthly'])}, "
            f"{fql(res['running'])}, {fq(res['summed'])}))")


def term_direct(c, res):
    milk = fql(res["milk"]) if "err" not in res else "[]"
    return (f"check_round {TOL} {fq(c['kg_chicken'])} {fq(c['kg_pig'])} {coq_opt(c['kg_large'])} {fq(c['dist_meat'])} "
            f"{coq_herd(c['herd'])} {coq_meat_obs(res)} {cbool(c['ADD_MILK'])} {fq(c['milk_yield'])} {fq(c['dist_milk'])} "
            f"{fq(c['retail'])} {milk}")


def term_exact(c, res):
    return f"check_classes_exact {coq_herd(c['herd'])} {clist([fql(x) for x in res['classes']])} {fql(res['dairy'])}"


def term_round2(ev, herd):
    return (f"check_round2 {TOL} {fq(ev['kg_chicken'])} {fq(ev['kg_pig'])} {coq_opt(ev['kg_large'])} {fq(ev['dist_meat'])} "
            f"{coq_herd(herd['animals'])} {fql(ev['monthly'])} {fql(ev['running'])} {fq(ev['summed'])}")


# ------------------------------------------------------------------ the check

def run(ctx):
    ctx.level = "proof"
    ctx.rule = ("case = one fabricated herd handed to the real calculate_meat_from_feed_results / milk code, one month of "
                "feed_animals, one call of increase_biofuels_then_feed, or one optimiser round of a real country run "
                "(herd lists captured at CalculateFeedAndMeat.__init__, offers captured at Optimizer.__init__); "
                "non-trivial = accepted by the implementation and the herd total (or the supply / increase) is non-zero; "
                "distinct = hash of the inputs")
    ctx.trusted += [
        "hand model coq/Model/MeatDairy.v of meat_and_dairy.py / get_meat_produced / calculate_meat_from_feed_results / "
        "feed_the_species (supply side) / increase_biofuels_then_feed / the round decision tree, tied by correspondence only",
        "the herd simulation itself (slaughter counts, populations) is an input here: C06/C07 cover it",
        "the round-2 re-timing helper is covered by C18; here only 'equal sum -> equal total offered' is proved and the "
        "sum is audited on real runs",
        "numpy elementwise arithmetic, np.sum, Food.__setitem__/get_running_total_nutrients_sum read as exact arithmetic",
    ]
    ctx.assumptions += [
        "all monthly lists of a herd have one common length and the herd is non-empty (lengths_ok; the real code raises otherwise)",
        "charge >= eaten needs no hypothesis; eaten >= 0 and 'zero charge -> nothing eaten' assume non-negative energy "
        "requirements, supplies and positive digestion efficiencies",
    ]
    ctx.check_props()
    bok, bad, out = ctx.build(["Model/MeatDairyCheck.vo"])
    if not bok:
        ctx.tie_ok = False
        ctx.broken.append(f"Model/MeatDairyCheck does not compile: {bad}")
        return
    nd, nf, nb = (160, 120, 80) if ctx.quick else (2500, 2500, 1500)
    direct = gen_direct(ctx.rng, nd)
    feed = gen_feed(ctx.rng, nf)
    bump = gen_bump(ctx.rng, nb)
    jobs = gen_runs(ctx)
    res = ctx.run_impl("c05_impl", {"direct": direct, "feed": feed, "bump": bump, "runs": jobs, "nproc": 16},
                       timeout=3000)
    ctx.log("implementation side done")
    terms, meta = [], []
    dist = {"direct_valid": 0, "direct_rejected": 0, "feed": 0, "bump": 0, "run_rounds_monthly": 0, "run_rounds_total": 0,
            "run_round3_source": 0, "run_charge": 0}

    # ---- (i) fabricated herds
    import sys, os
    sys.path.insert(0, os.path.join(os.path.dirname(os.path.dirname(__file__)), "impl"))
    kinds = {}
    for c, r in zip(direct, res["direct"]):
        rejected = "err" in r
        dist["direct_rejected" if rejected else "direct_valid"] += 1
        kinds[c["kind"]] = kinds.get(c["kind"], 0) + 1
        terms.append(term_direct(c, r))
        meta.append(("direct", c, r))
        nz = (not rejected) and (r["summed"] != 0 or any(v != 0 for v in r["milk"]))
        ctx.count(("direct", json.dumps(c, sort_keys=True)), nontrivial=nz)
        dyadic = all(abs(v) < 2 ** 30 and v * 64 == int(v * 64) for a in c["herd"] for v in a["slaughter"] + a["population"])
        if not rejected and dyadic:
            dist["direct_exact_class_sums"] = dist.get("direct_exact_class_sums", 0) + 1
            terms.append(term_exact(c, r))
            meta.append(("direct", c, r))
        if not rejected:
            for f in audit_direct_local(c, r):
                ctx.violation("C05:" + f["kind"] + "@calculate_meat_from_feed_results", f["what"],
                              {"kind": "counterexample", "direct_case": c, "observed": r, "failure": f})
    # ---- feed_animals
    for c, r in zip(feed, res["feed"]):
        if "err" in r:
            ctx.tie_ok = False
            ctx.broken.append("feed_animals raised on a generated case: " + r["err"])
            ctx.violation("C05:tie:feed_animals-raised", r["err"] + " " + r.get("msg", ""), {"kind": "tie-broken", "feed_case": c})
            continue
        eaters = clist([f"(mk_eater {fq(q)} {cbool(e['ruminant'])} {fq(e['eg'])} {fq(e['ef'])})"
                        for e, q in zip(c["eaters"], r["reqs"])])
        terms.append(f"check_feed {TOL} {eaters} {fq(c['grass'])} {fq(c['feed'])} {fq(r['grass_left'])} {fq(r['feed_left'])}")
        meta.append(("feed", c, r))
        dist["feed"] += 1
        ctx.count(("feed", json.dumps(c, sort_keys=True)), nontrivial=(c["grass"] > 0 or c["feed"] > 0) and any(q > 0 for q in r["reqs"]))
        # direct audit of the clause "never eat more than is available" on generated supplies
        if r["grass_left"] < 0 or r["feed_left"] < 0:
            ctx.violation("C05:supply-overeaten@feed_animals",
                          f"feed_animals left grass {r['grass_left']!r}, feed {r['feed_left']!r} (negative: more eaten than available)",
                          {"kind": "counterexample", "feed_case": c, "observed": r})
    # ---- increase_biofuels_then_feed
    for c, r in zip(bump, res["bump"]):
        if "err" in r:
            ctx.tie_ok = False
            ctx.broken.append("increase_biofuels_then_feed raised: " + r["err"])
            continue
        rows = clist([f"({fq(b)}, {fq(f)}, {fq(i)}, {fq(mb)}, {fq(mf)}, {fq(tc)})" for b, f, i, mb, mf, tc in
                      zip(c["biofuel"], c["feed"], c["increase"], c["max_biofuel"], c["max_feed"], c["total_crops"])])
        obs = clist([f"({fq(b)}, {fq(f)})" for b, f in zip(r["biofuel"], r["feed"])])
        terms.append(f"check_bump {TOL_BUMP} {rows} {obs}")
        meta.append(("bump", c, r))
        dist["bump"] += 1
        ctx.count(("bump", json.dumps(c, sort_keys=True)), nontrivial=any(o > f for o, f in zip(r["feed"], c["feed"])))
        if any(o < f for o, f in zip(r["feed"], c["feed"])):
            ctx.violation("C05:bump-lowers-feed@increase_biofuels_then_feed", "the top-up lowered the feed charge",
                          {"kind": "counterexample", "bump_case": c, "observed": r})
    n_small = len(terms)

    # ---- (ii) real runs
    run_stats = {"runs": 0, "crashed": 0, "run_errors": 0, "skip_branch": {}, "bumped_months": 0, "retimed_months": 0,
                 "fed_months_round3": 0, "zero_charge_rounds": 0, "audit_failures": 0, "rounds_by_count": {}}
    big_terms, big_meta = [], []
    for job, r in zip(jobs, res["runs"]):
        run_stats["runs"] += 1
        tag = f"{job['iso3']}" + (" (after an earlier run in the same process)" if job.get("prelude") else "")
        if job.get("prelude"):
            run_stats["sequenced_pairs"] = run_stats.get("sequenced_pairs", 0) + 1
            run_stats["compared_with_solo"] = run_stats.get("compared_with_solo", 0) + (
                1 if r.get("audit", {}).get("stats", {}).get("compared_with_solo") else 0)
        if "err" in r:
            run_stats["crashed"] += 1
            ctx.log("run crashed:", tag, r["err"][:300])
            continue
        if "run_err" in r:
            run_stats["run_errors"] += 1
            ctx.notes.setdefault("run_errors", []).append(f"{tag}: {r['run_err'][:160]}")
        aud = r["audit"]
        st = aud["stats"]
        run_stats["skip_branch"][st.get("skip_branch", "?")] = run_stats["skip_branch"].get(st.get("skip_branch", "?"), 0) + 1
        run_stats["rounds_by_count"][str(st.get("rounds"))] = run_stats["rounds_by_count"].get(str(st.get("rounds")), 0) + 1
        for k in ("bumped_months", "retimed_months", "fed_months_round3", "zero_charge_rounds"):
            run_stats[k] += st.get(k, 0) or 0
        for f in aud["failures"][:3]:
            run_stats["audit_failures"] += 1
            ctx.violation(f"C05:{f['kind']}@run:{job['iso3']}", f"{tag}: {f['what']}",
                          {"kind": "counterexample", "iso3": job["iso3"], "option": job["option"],
                           "prelude": job.get("prelude", []), "failure": f})
        cap = r["capture"]
        herds, events = cap["herds"], cap["events"]
        cur, aborted, r3, last_bump, rnd = None, False, None, None, 0
        for ev in events:
            if ev["ev"] == "imd":
                cur = ev["herd"]
            elif ev["ev"] == "round2_params":
                aborted = ev["aborted"]
            elif ev["ev"] == "bump":
                last_bump = ev
            elif ev["ev"] == "round3_params":
                r3 = ev
            elif ev["ev"] == "opt" and cur is not None and cur >= 0:
                rnd += 1
                if cap.get("row"):
                    ev = dict(ev)
                    ev.update(cap["row"])      # yields of the country row / option, not the code's stored constants
                h = herds[cur]
                ctx.traces += 1
                key = ("round", job["iso3"], json.dumps(job["option"], sort_keys=True), rnd)
                ctx.count(key, nontrivial=ev["summed"] != 0)
                if ev["ty"] == "to_animals":
                    big_terms.append(term_round2(ev, h))
                    dist["run_rounds_total"] += 1
                else:
                    big_terms.append(term_round_monthly(ev, h))
                    dist["run_rounds_monthly"] += 1
                big_meta.append(("run", job, {"round": rnd, "ty": ev["ty"]}))
        if r3 is not None and cur is not None and "charge" in r3:
            h = herds[cur]
            n = len(h["avail_feed"])
            f2 = r3.get("feed2_billion") or []
            big_terms.append(f"check_round3_source {cbool(r3['any_resource'])} {cbool(r3['demand_zero'])} {cbool(aborted)} "
                             f"{cbool(cur == 0)} {cnat(n)} {fql(f2)} (1#1000000000000) {fql(h['avail_feed'])}")
            big_meta.append(("run", job, {"what": "round-3 herd source"}))
            dist["run_round3_source"] += 1
            if r3["ir1_present"] and last_bump is not None:
                bs = clist([f"({fq(b)}, {fq(i)}, {fq(mb)}, {fq(mf)}, {fq(tc)})" for b, i, mb, mf, tc in
                            zip(last_bump["biofuel"], last_bump["increase"], last_bump["max_biofuel"], last_bump["max_feed"],
                                last_bump["total_crops"])])
                big_terms.append(f"check_charge {TOL_BUMP} true {fql(h['feed_used'])} {bs} {fql(r3['charge'])}")
            else:
                bs = clist(["(0, 0, 0, 0, 0)"] * n)
                big_terms.append(f"check_charge {TOL_BUMP} false {fql(h['feed_used'])} {bs} {fql(r3['charge'])}")
            big_meta.append(("run", job, {"what": "round-3 charge"}))
            dist["run_charge"] += 1
    ctx.log(f"evaluating {len(terms)} small and {len(big_terms)} run cases in Coq")
    codes = ctx.coq_codes("c05s", IMPORTS, terms, per_file=120)
    codes += ctx.coq_codes("c05r", IMPORTS, big_terms, per_file=3)
    nbad = 0
    for code, (kind, c, r) in zip(codes, meta + big_meta):
        if code != 0:
            nbad += 1
            name = MEAT_NAMES.get(code, str(code))
            if nbad <= 4:
                ctx.tie_ok = False
                ctx.broken.append(f"correspondence ({kind}) with Model/MeatDairy.v: {name}")
                rep = {"kind": "tie-broken", "mismatch": name}
                if kind == "direct":
                    rep.update({"direct_case": c, "observed": r})
                elif kind == "feed":
                    rep.update({"feed_case": c, "observed": r})
                elif kind == "bump":
                    rep.update({"bump_case": c, "observed": r})
                else:
                    rep.update({"iso3": c["iso3"], "option": c["option"], "prelude": c.get("prelude", []), "where": r})
                ctx.violation(f"C05:tie:{kind}:{name}", f"model and implementation disagree ({name}) on a {kind} case "
                              + (f"{c['iso3']} {r}" if kind == "run" else ""), rep)
    ctx.notes["correspondence"] = {"cases": len(terms) + len(big_terms), "disagreements": nbad, "distribution": dist,
                                   "direct_kinds": kinds, "tolerance": "1e-9 (1e-7 for the top-up, which divides by total+1e-9)"}
    ctx.notes["real_runs"] = run_stats
    ctx.notes["run_pool"] = [f"{j['iso3']}:{j['option']['shutoff']}/{j['option']['meat_strategy']}/{j['option']['cull']}/"
                             f"{j['option']['waste']}/{j['option']['scenario']}/N={j['option']['NMONTHS']}" for j in jobs][:40]
    if direct:
        ctx.sample({"direct_case": {k: v for k, v in direct[0].items() if k != "herd"},
                    "species": [(a["type"], a["size"]) for a in direct[0]["herd"]],
                    "observed_summed": res["direct"][0].get("summed"), "observed_err": res["direct"][0].get("err")})
    for job, r in list(zip(jobs, res["runs"]))[:3]:
        if "audit" in r:
            ctx.sample({"run": job["iso3"], "option": {k: job["option"][k] for k in ("shutoff", "meat_strategy", "cull", "waste", "NMONTHS")},
                        "stats": r["audit"]["stats"], "percent_fed": r.get("percent_fed")})
    if run_stats["crashed"]:
        ctx.notes["crashed_runs"] = run_stats["crashed"]
        if run_stats["crashed"] > max(1, len(jobs) // 4):
            ctx.tie_ok = False
            ctx.broken.append(f"{run_stats['crashed']} of {len(jobs)} real runs could not be captured")


def term_round_monthly(ev, herd):
    """a human-maximising round of a real run, compared month by month (yields / class series are not observable in a
    real run, so only monthly, running, summed and milk are compared: check_round_run)"""
    return (f"check_round_run {TOL} {fq(ev['kg_chicken'])} {fq(ev['kg_pig'])} {coq_opt(ev['kg_large'])} {fq(ev['dist_meat'])} "
            f"{coq_herd(herd['animals'])} {fql(ev['monthly'])} {fql(ev['running'])} {fq(ev['summed'])} "
            f"{cbool(ev['add_milk'])} {fq(ev['milk_yield'])} {fq(ev['dist_milk'])} {fq(ev['retail'])} {fql(ev['milk'])}")


def audit_direct_local(case, res):
    import c05_audit
    return c05_audit.audit_direct(case, res)


def replay(rep):
    import lib
    ctx = lib.Ctx("C05", "quick", rep.get("seed", 0))
    res = ctx.run_impl("c05_audit", {"replay": rep})
    print(json.dumps(res, indent=1, default=str)[:4000])
    if res.get("failures"):
        print("REPRODUCED:", res["failures"][0].get("what"))
        return 1
    if rep.get("kind") == "tie-broken" and "observed" in rep and "observed" in res:
        same = res["observed"] == rep["observed"]
        print("implementation output", "unchanged since the replay was written (model/implementation disagreement stands)"
              if same else "differs from the recorded one")
        return 1 if same else 0
    return 0
