"""C14 - a run's result depends only on its own inputs.

proof   : Props/C14.v (abstract store / run-program model, Model/Isolation.v): a run whose recorded trace is
          disciplined (every read of a process-global cell is preceded, in the same run, by a write of that cell)
          returns the same result and issues the same events from ANY initial store; corollary over histories.
tie     : every real run is executed with a recording proxy in place of `Food.conversions`; its event trace goes
          into a Coq case file where `disciplined`, `coherent` and "same trace as alone" are DECIDED by vm_compute;
          all other module-level state of src.* (module globals, class attributes, function defaults) is snapshotted
          before/after each run, a changed cell becomes a conservative write + read-by-every-later-run event.
audit   : histories of (country, scenario) runs in different orders in ONE process, interleaved with calls that
          overwrite the global settings, versus each run alone in a fresh process; SHA-256 over headline, every
          monthly series and herd trajectories (floats via .hex()), bit for bit.
level   : other (partial) - see ctx.notes["explanation"]."""
import copy
import hashlib
import json
import os
import subprocess
from concurrent.futures import ThreadPoolExecutor

import lib

BASE = dict(scale="country", seasonality="country", grasses="baseline", crop_disruption="zero", scenario="no_resilient_foods",
            fish="baseline", waste="baseline_in_country", nutrition="baseline", intake_constraints="enabled", buffer="baseline",
            shutoff="continued", cull="do_eat_culled", fat="not_required", protein="not_required",
            meat_strategy="baseline_breeding", stored_food="baseline", ratio_stocks_untouched="baseline", NMONTHS=120)
NW = dict(BASE, grasses="country_nuclear_winter", crop_disruption="country_nuclear_winter", fish="nuclear_winter",
          nutrition="catastrophe", ratio_stocks_untouched="zero", meat_strategy="reduce_breeding")
PRESETS = {
    "baseline": BASE,
    "gross": dict(BASE, waste="zero", shutoff="immediate", cull="dont_eat_culled"),
    "nw_plain": NW,
    "nw_resilient": dict(NW, scenario="all_resilient_foods", waste="doubled_prices_in_country", shutoff="long_delayed_shutoff"),
    "nw_seaweed": dict(NW, scenario="seaweed", waste="tripled_prices_in_country", shutoff="short_delayed_shutoff"),
    "catastrophe_diet": dict(BASE, nutrition="catastrophe", intake_constraints="disabled_for_humans",
                             meat_strategy="feed_only_ruminants"),
    "popx": dict(BASE, population=41234567, shutoff="one_month_delayed_shutoff"),
    "short": dict(NW, NMONTHS=36, scenario="methane_scp", shutoff="continued_after_10_percent_fed"),
    # a user-supplied starting head count ("<species>_head") and two presets that enable cellulosic sugar
    "heads": dict(NW, meat_cattle_head=20000000, pig_head=1234567, shutoff="long_delayed_shutoff"),
    "cs_only": dict(NW, scenario="cellulosic_sugar", waste="doubled_prices_in_country", shutoff="short_delayed_shutoff"),
    "industrial": dict(NW, scenario="industrial_foods", shutoff="continued"),
    "scp_ruminants": dict(BASE, scenario="methane_scp", meat_strategy="feed_only_ruminants", shutoff="long_delayed_shutoff"),
}
COUNTRIES = ["USA", "IND", "ARG", "BRA", "CHN", "FRA", "NGA", "AUS", "JPN", "LSO", "DEU", "IDN", "SLV", "ALB", "ECU"]
# (country, preset) pairs for which run_scenario.alter_scenario_if_known_to_fail rewrites an option (on a copy)
PATCHED = [("SLV", "nw_resilient"), ("SLV", "nw_seaweed"), ("ALB", "nw_resilient"), ("ALB", "nw_seaweed"), ("ECU", "scp_ruminants")]
OVERWRITES = [
    {"how": "set_nutrition", "args": {"kcals_daily": 1.0, "fat_daily": 300.0, "protein_daily": 400.0, "include_fat": True,
                                      "include_protein": True, "population": 12345.0}},
    {"how": "unassigned"},
    {"how": "sum_many"},
    {"how": "new_unitconv", "args": {"kcals_daily": 9000.0, "fat_daily": 1.0, "protein_daily": 1.0, "include_fat": True,
                                     "include_protein": False, "population": 9.9e9}},
    {"how": "set_nutrition", "args": {"kcals_daily": 2100.0, "fat_daily": 47.0, "protein_daily": 51.0, "include_fat": False,
                                      "include_protein": True, "population": 7.8e9}},
]
TRACKED = "src.food_system.food:Food.conversions"      # the object the proxy records attribute by attribute


# ----------------------------------------------------------------------------- launching the implementation

def launch(ctx, tag, payload, hashseed="0", timeout=3000):
    """one FRESH /venv/bin/python process executing the history in payload (thread-safe variant of ctx.run_impl)"""
    inp = os.path.join(ctx.work, f"in_{tag}.json")
    outp = os.path.join(ctx.work, f"out_{tag}.json")
    json.dump(payload, open(inp, "w"))
    env = dict(os.environ)
    env.update({"PYTHONPATH": lib.REPO + ":" + os.path.join(lib.HARNESS, "impl"), "PYTHONHASHSEED": hashseed, "MPLBACKEND": "Agg",
                lib.GUARD: "1", "VERIF_WORK": ctx.work, "OMP_NUM_THREADS": "1", "OPENBLAS_NUM_THREADS": "1"})
    p = subprocess.run([lib.IMPL_PY, os.path.join(lib.HARNESS, "impl", "c14_impl.py"), inp, outp], cwd=lib.REPO, env=env,
                       stdout=subprocess.PIPE, stderr=subprocess.STDOUT, text=True, timeout=timeout)
    with open(os.path.join(ctx.work, "log_c14_impl.txt"), "a") as f:
        f.write(f"--- {tag}\n{p.stdout[-4000:]}\n")
    if p.returncode != 0 or not os.path.exists(outp):
        raise lib.ImplCrashed("c14_impl:" + tag, p.stdout[-3000:])
    return json.load(open(outp))


def launch_all(ctx, jobs, workers=None):
    """jobs: list of (tag, payload, hashseed) -> dict tag -> output"""
    with ThreadPoolExecutor(max_workers=workers or lib.NCPU) as ex:
        outs = list(ex.map(lambda j: (j[0], launch(ctx, *j)), jobs))
    return dict(outs)


# ----------------------------------------------------------------------------- histories

def run_step(n, countries, preset, yaml_group=None):
    st = {"kind": "run", "id": f"s{n}", "countries": list(countries), "preset": preset}
    if yaml_group is not None:
        # consecutive steps of one group are executed by ONE call of run_scenarios_from_yaml (one simulation each)
        st["yaml_group"] = yaml_group
        st["nmonths"] = PRESETS[preset]["NMONTHS"]
    return st


def ow_step(n, k):
    return dict(OVERWRITES[k % len(OVERWRITES)], kind="overwrite", id=f"o{n}")


def overrides_preset(iso):
    """custom column overrides as a scenario YAML can give them: the country's crop_kcals halved, another population,
    another carcass weight (keys equal to a csv column + kg_meat_per_large_animal)"""
    import csv
    row = [r for r in csv.DictReader(open(os.path.join(lib.REPO, "data", "no_food_trade", "computer_readable_combined.csv")))
           if r["iso3"] == iso][0]
    return dict(NW, crop_kcals=float(row["crop_kcals"]) / 2, population=round(float(row["population"]) * 1.5),
                kg_meat_per_large_animal=250, shutoff="short_delayed_shutoff")


def make_plan(ctx):
    rng = ctx.rng
    others = [p for p in PRESETS if p != "baseline"]
    if ctx.quick:
        c1, c2 = rng.sample([c for c in COUNTRIES if c not in ("SLV", "ALB", "ECU")], 2)
        pt = rng.choice(PATCHED)
        # the fourth pair reuses the patched pair's preset (hence, in a history, the same caller dictionary)
        # NZL is special-cased in compute_parameters_third_round (rule-of-thumb constant): it always precedes a run that
        # reaches the same branch (ARG, nuclear winter, non-immediate shut-off)
        # a head-count override always precedes runs of other countries; two runs with cellulosic sugar enabled follow
        # each other in both orders (module-level tables scaled in place would compound)
        pairs = [pt, (c1, "baseline"), (c2, "baseline"), (c1, pt[1]), ("NZL", "baseline"), ("ARG", "nw_plain"),
                 (c2, "heads"), (c1, rng.choice(["cs_only", "industrial"])), ("ARG", "nw_resilient"), (c2, "overrides")]
        PRESETS["overrides"] = overrides_preset(c2)
    else:
        cs = rng.sample([c for c in COUNTRIES if c not in ("SLV", "ALB", "ECU")], 5)
        pairs = rng.sample(PATCHED[:4], 2) + [PATCHED[4]] + [(c, "baseline") for c in cs[:3]]
        pairs += [("NZL", "baseline"), ("ARG", "nw_plain"), (cs[0], "heads"), (cs[1], "cs_only"), ("ARG", "nw_resilient"),
                  (cs[2], "industrial"), (cs[3], "overrides")]
        PRESETS["overrides"] = overrides_preset(cs[3])
        while len(pairs) < 19:
            cand = (rng.choice(cs + ["SLV", "ECU"]), rng.choice(others))
            if cand not in pairs:
                pairs.append(cand)
    batches = []
    if ctx.quick:
        p = pairs
        batches.append([run_step(i, [x[0]], x[1]) for i, x in enumerate([p[6], p[4], p[5]] + p[:4] + [p[7], p[8]])])
        b, n = [], 0
        for i, x in enumerate(reversed(p)):
            b.append(ow_step(n, i)); n += 1
            b.append(run_step(n, [x[0]], x[1])); n += 1
        b.append(run_step(n, [p[3][0]], p[3][1]))            # repeated, after every other run
        batches.append(b)
        order = p[:4]
        rng.shuffle(order)
        order = [p[8]] + order[:2] + [p[4], p[6]] + order[2:] + [p[5], p[7]]
        b = [ow_step(0, rng.randrange(5)), run_step(1, [p[1][0], p[2][0]], "baseline")]   # two countries in ONE call
        n = 2
        for x in order:
            if rng.random() < 0.5:
                b.append(ow_step(n, rng.randrange(5))); n += 1
            b.append(run_step(n, [x[0]], x[1])); n += 1
        b.append(run_step(n, [order[0][0]], order[0][1])); n += 1
        b.append(run_step(n, [order[0][0]], order[0][1])); n += 1    # the same run twice in a row
        # the real YAML driver on a temporary file: two simulations, one country; the first simulation carries its own
        # NMONTHS (36), the second none (it must get the NMONTHS of "settings", as when it is run alone)
        b.append(dict(run_step(n, [p[1][0]], "baseline", yaml_group="y0"), own_nmonths=36, nocompare=True)); n += 1
        b.append(run_step(n, [p[1][0]], p[3][1], yaml_group="y0"))
        batches.append(b)
        # ONE ScenarioRunnerNoTrade object reused by every run of the history (as run_many_options does); a run with custom
        # column overrides precedes runs without them
        seq = [p[9], p[5], p[1], p[2], p[9], p[4], p[5]]
        batches.append([dict(run_step(i, [x[0]], x[1]), runner="shared") for i, x in enumerate(seq)])
    else:
        nb = 40
        for k in range(nb):
            b, n = [], 0
            picks = [rng.choice(pairs) for _ in range(6)]
            if k < len(pairs):
                picks[-1] = pairs[k]                          # every pair occurs last in some history
                picks[0] = pairs[(k + 5) % len(pairs)]        # and first in another
            for x in picks:
                if rng.random() < 0.5:
                    b.append(ow_step(n, rng.randrange(5))); n += 1
                cl = [x[0]]
                if rng.random() < 0.3:
                    cl += [y[0] for y in pairs if y[1] == x[1] and y[0] != x[0]][:2]
                b.append(run_step(n, cl, x[1])); n += 1
            if rng.random() < 0.5:
                b.append(run_step(n, [picks[0][0]], picks[0][1])); n += 1
            if k % 3 == 0:
                # a yaml loop over every simulation (120 months) known for one country
                c = rng.choice(sorted({x[0] for x in pairs}))
                sims = [x[1] for x in pairs if x[0] == c and PRESETS[x[1]]["NMONTHS"] == 120]
                pos = rng.randrange(len(b) + 1)
                grp = [run_step(n + i, [c], pz, yaml_group=f"y{k}") for i, pz in enumerate(sims)]
                if len(grp) > 1 and k % 2 == 0:
                    grp[0] = dict(grp[0], own_nmonths=rng.choice([24, 36, 60]), nocompare=True)
                b[pos:pos] = grp
            if k % 4 == 1:
                # the whole history on one reused runner object, an overrides run somewhere before the end
                ov = [x for x in pairs if x[1] in ("overrides", "popx")]
                x = rng.choice(ov)
                b.insert(rng.randrange(max(1, len(b) - 2)), run_step(900 + k, [x[0]], x[1]))
                b = [dict(st, runner="shared") if st["kind"] == "run" and "yaml_group" not in st else st for st in b]
            batches.append(b)
    return pairs, batches


def payload_of(steps, trace=True, snapshot=True):
    used = {s["preset"] for s in steps if s["kind"] == "run"}
    return {"presets": {k: PRESETS[k] for k in used}, "steps": steps, "trace": trace, "snapshot": snapshot}


def sig_of(step, cname):
    """what is compared bit for bit: headline + monthly series + herd trajectories (+ the remaining attributes)"""
    if not step["ok"]:
        return "ERR:" + step.get("err", "?")
    r = step["results"].get(cname)
    if r is None:
        return "MISSING"
    return r["digest"]["all"] + "/" + r["digest"]["rest"]


def differing_parts(a, b):
    if a is None or b is None:
        return ["<no result>"]
    out = []
    if a["headline"] != b["headline"]:
        out.append(f"headline {a['headline']} vs {b['headline']}")
    for g in ("series", "herd", "rest"):
        for k in sorted(set(a["keys"][g]) | set(b["keys"][g])):
            if a["keys"][g].get(k) != b["keys"][g].get(k):
                out.append(g + "." + k)
    return out[:12]


# ----------------------------------------------------------------------------- trace -> Coq

def coq_trace(events, cmap, vmap, chunk=4000):
    """Coq term (list rev_); long traces are written as an append of chunks (coqc overflows its stack on one huge literal)"""
    items = [("Rv " if k == "R" else "Wv ") + f"{cmap[c]} {vmap[v]}" for k, c, v in events]
    if not items:
        return "[]"
    parts = ["[" + "; ".join(items[i:i + chunk]) + "]" for i in range(0, len(items), chunk)]
    return "(" + "\n ++ ".join(parts) + ")" if len(parts) > 1 else parts[0]


class Canon:
    """numbering of cells / values shared by all processes of one check (names, exact reprs)"""

    def __init__(self):
        self.cells, self.values = {}, {}

    def c(self, name):
        return self.cells.setdefault(name, len(self.cells))

    def v(self, r):
        return self.values.setdefault(r, len(self.values))

    def maps(self, out):
        return [self.c(n) for n in out["cells"]], [self.v(r) for r in out["values"]]


def analyse_batch(ctx, bname, out, steps, alone, canon, name_of):
    """returns (terms, meta, problems).  terms are Coq nat terms, one per run occurrence plus one for the whole log"""
    cmap, vmap = canon.maps(out)
    by_tag = {}
    order = []
    for t, evs in out["segments"]:
        if t not in by_tag:
            by_tag[t] = []
            order.append(t)
        by_tag[t].extend(evs)
    defs = [f"(* batch {bname}; cells: " + ", ".join(f"{i}={n}" for n, i in sorted(canon.cells.items(), key=lambda kv: kv[1])) + " *)"]
    idx = {t: i for i, t in enumerate(order)}
    for t in order:
        defs.append(f"Definition tr_{idx[t]} : list rev_ := {coq_trace(by_tag[t], cmap, vmap)}.")
    terms, meta, problems = [], [], []
    pending = []            # unmodelled cells changed by earlier runs: (cell name, fingerprint)
    run_tags = []
    al_defs = {}
    for si, s in enumerate(out["steps"]):
        if s["kind"] != "run":
            continue
        preset = steps[si]["preset"]
        cnames = list(s["results"].keys()) if s["ok"] else []
        extra = [d for d in s.get("snapdiff", []) if d["cell"] != TRACKED]
        for ci, cname in enumerate(cnames):
            r = s["results"][cname]
            tag = r["tag"]
            iso = name_of.get(cname, cname)
            pre = "[" + "; ".join(f"Rv {canon.c(c)} {canon.v(f)}" for c, f in pending) + "]"
            post_cells = extra if ci == len(cnames) - 1 else []
            post = "[" + "; ".join(f"Wv {canon.c(d['cell'])} {canon.v(d['after'])}" for d in post_cells) + "]"
            a = None if steps[si].get("nocompare") else alone.get((iso, preset))
            if a is not None and a.get("al_name") is not None:
                al = a["al_name"]          # defined once in the compiled file c14_alone_0.v
            else:
                al = f"tr_{idx[tag]}" if tag in idx else "[]"
            tr = f"tr_{idx[tag]}" if tag in idx else "[]"
            terms.append(f"check_case {pre} {tr} {post} {al}")
            meta.append({"batch": bname, "step": si, "country": iso, "preset": preset, "tag": tag, "events": len(by_tag.get(tag, [])),
                         "pending": [c for c, _ in pending], "kind": "run"})
            if tag in idx:
                run_tags.append(idx[tag])
        for d in extra:
            pending = [(c, f) for c, f in pending if c != d["cell"]] + [(d["cell"], d["after"])]
            problems.append({"kind": "shared-state", "batch": bname, "step": si, "cell": d["cell"], "before": d["before"],
                             "after": d["after"]})
        if not s["options_unchanged"]:
            problems.append({"kind": "options-mutated", "batch": bname, "step": si, "diff": s.get("options_diff")})
        for cname, r in s["results"].items():
            if r["late_digest"] != r["digest"]["all"]:
                problems.append({"kind": "result-modified-later", "batch": bname, "step": si, "country": cname})
    segs = "[" + "; ".join(f"({idx[t]}%nat, tr_{idx[t]})" for t in order) + "]"
    terms.append(f"check_log [{'; '.join(str(t) + '%nat' for t in run_tags)}] {segs}")
    meta.append({"batch": bname, "kind": "log", "events": sum(len(v) for v in by_tag.values())})
    return terms, meta, problems, "\n".join(defs)


def _segments_in_order(out, idx):
    seen = []
    for t, _ in out["segments"]:
        if t not in [x for x, _ in seen]:
            seen.append((t, None))
    return seen


def alone_trace_def(out, canon):
    """Coq literal of the single run's trace recorded in a fresh process"""
    cmap, vmap = canon.maps(out)
    s = out["steps"][0]
    if not s["ok"] or not s["results"]:
        return None
    tag = list(s["results"].values())[0]["tag"]
    evs = []
    for t, e in out["segments"]:
        if t == tag:
            evs.extend(e)
    return coq_trace(evs, cmap, vmap)


# ----------------------------------------------------------------------------- saved artifacts (web-interface mode)

ART_KEY = "C14:saved-files-depend-on-batch-composition@run_model_no_trade"
ART_SMALL = ["URY", "LSO", "SLV", "ALB", "NZL", "JPN", "FRA", "DEU", "ECU", "AUS"]


def art_payload(countries, preset):
    return {"mode": "artifacts", "presets": {preset: PRESETS[preset]}, "preset": preset, "countries": list(countries)}


def art_plan(ctx):
    """groups (a, b, preset): run_model_no_trade(return_results=True, save_all_results=True) for [a, b] in one call versus
    [a] and [b] each alone, every one in its own fresh process and results directory"""
    rng = ctx.rng
    groups = [("ARG", "URY", "nw_plain")]
    n = 2 if ctx.quick else 5
    while len(groups) < n:
        a, b = rng.sample(ART_SMALL, 2)
        g = (a, b, rng.choice(["baseline", "nw_plain", "nw_resilient", "heads", "cs_only"]))
        if g not in groups:
            groups.append(g)
    return groups


def first_line_difference(ta, tb):
    la, lb = ta.splitlines(), tb.splitlines()
    for i, (x, y) in enumerate(zip(la, lb)):
        if x != y:
            return {"line": i + 1, "alone": x[:160], "together": y[:160]}
    return {"line": min(len(la), len(lb)) + 1, "alone": f"<{len(la)} lines>", "together": f"<{len(lb)} lines>"}


def compare_artifacts(alone, both):
    """alone: output for [c]; both: output for [a, b].  -> (country name, list of differences)"""
    if not alone["ok"] or not both["ok"]:
        if alone["ok"] != both["ok"] or alone.get("err") != both.get("err"):
            return None, [{"what": "one of the calls failed", "alone": alone.get("err", "completes"), "together": both.get("err", "completes")}]
        return None, []
    name = alone["order"][0]
    diffs = []
    mark = "_" + name + "_"
    fa = {k: v for k, v in alone["files"].items() if mark in k}
    fb = {k: v for k, v in both["files"].items() if mark in k}
    for fn in sorted(set(fa) | set(fb)):
        if fn not in fa or fn not in fb:
            diffs.append({"file": fn, "what": "written only " + ("alone" if fn in fa else "together")})
        elif fa[fn]["sha256"] != fb[fn]["sha256"]:
            diffs.append(dict(first_line_difference(fa[fn]["text"], fb[fn]["text"]), file=fn, what="contents differ"))
    ra, rb = alone["results"].get(name), both["results"].get(name)
    if rb is None or ra["digest"] != rb["digest"]:
        diffs.append({"what": "returned in-memory result differs", "parts": differing_parts(ra, rb)})
    return name, diffs


def artifact_audit(ctx, groups, outs):
    nfiles, ncmp = 0, 0
    reported = False
    for gi, (a, b, preset) in enumerate(groups):
        both = outs[f"art{gi}_both"]
        for c, tag in ((a, "a"), (b, "b")):
            alone = outs[f"art{gi}_{tag}"]
            name, diffs = compare_artifacts(alone, both)
            last = both["ok"] and alone["ok"] and both["order"][-1] == alone["order"][0]
            ctx.count(("artifacts", a, b, preset, c), nontrivial=bool(alone["ok"] and both["ok"] and not last))
            ncmp += 1
            if name:
                nfiles += sum(1 for k in alone["files"] if "_" + name + "_" in k)
            if diffs and not reported:
                reported = True
                d0 = diffs[0]
                ctx.violation(ART_KEY,
                              f"what run_model_no_trade(return_results=True, save_all_results=True) saves/returns for {c} ({name}) "
                              f"under preset {preset} depends on the other countries of the same call: countries_list=[{c}] vs "
                              f"[{a}, {b}]: {len(diffs)} difference(s), first: {json.dumps(d0)[:400]}",
                              {"kind": "counterexample", "check": "artifacts", "presets": PRESETS, "preset": preset, "country": c,
                               "history_A": {"countries_list": [a, b], "return_results": True, "save_all_results": True},
                               "history_B": {"countries_list": [c], "return_results": True, "save_all_results": True},
                               "differences": diffs[:10],
                               "requires": "every csv whose name carries the country, and the returned result, identical"})
    ctx.notes["saved_artifacts_audit"] = {"groups": [list(g) for g in groups], "comparisons": ncmp, "csv_files_compared": nfiles}


# ----------------------------------------------------------------------------- the check

EXPLANATION = (
    "Partial. PROVED (Coq, closed under the global context): in the abstract model of a process-global store and of runs as "
    "deterministic read/write programs, a run whose trace is disciplined (each read of a cell is preceded in the same run by "
    "a write of that cell) returns the same result and issues the same events from any two initial stores "
    "(c14_noninterference); hence in any history, in any order and with any repetition and any interleaved other programs, "
    "the i-th run's result equals its result alone (c14_history, c14_any_order); the whole-log form 'no read of a cell last "
    "written by another run' implies the per-run form (c14_log_discipline). CHECKED PER RUN (decided inside Coq by vm_compute on "
    "the recorded trace of every real run of the audit): the trace of Food.conversions attribute reads/writes is disciplined, "
    "coherent (each read returns the run's own last write: nothing modified the object behind the proxy) and identical to "
    "the trace of the same run alone in a fresh process; a before/after snapshot of every module global, class attribute and "
    "function default of all loaded src.* modules finds no other state changed by a run (any change would enter the trace as "
    "a conservative write + read by each later run); the caller's option dictionary is unchanged. ONLY SAMPLED: that the "
    "recorded cells are all the shared state that matters (state in C extensions, PuLP/CBC, numpy, pandas, the file system "
    "is outside the snapshot) - this rests on the differential runs: sampled histories (orders, repetitions, two countries "
    "in one call, interleaved overwrites of the global settings) compared bit for bit (SHA-256 over headline, every monthly "
    "series, herd trajectories, remaining result attributes) with each run alone in a fresh process; and, in web-interface "
    "mode (return_results and save_all_results), every csv file saved for a country in a two-country call compared byte for "
    "byte with the files of the same country run alone.")


def run(ctx):
    ctx.level = "other"
    ctx.notes["explanation"] = EXPLANATION
    ctx.rule = ("case = one occurrence of a (country, scenario preset) run inside a history executed in one process; compared "
                "with the same run alone in a fresh process; non-trivial = the run completed AND at least one earlier step of "
                "the history left different global settings behind (another country / nutrition profile / include flags / an "
                "explicit overwrite); distinct = hash of (pair, all preceding steps)")
    ctx.trusted += ["recording proxy harness/impl/c14_trace.py (subclass of UnitConversions substituted for Food.conversions; "
                    "reads through instance.__dict__ or C code would bypass it - the coherence check and the snapshot "
                    "diff are the guard)",
                    "snapshot covers src.* module globals, class attributes, function defaults only; state held by "
                    "numpy/pandas/PuLP/CBC/matplotlib/the file system is covered only by the differential runs",
                    "SHA-256 of canonical serialisation (floats as float.hex()) stands for bit-for-bit equality of results"]
    ctx.assumptions += ["c14_noninterference assumes the run interacts with process-global state only through the recorded "
                        "cells and is otherwise a deterministic function of its input (checked by sampling, not proved)"]
    ctx.check_props()
    ok, bad, _ = ctx.build(["Model/Isolation.vo"])
    if not ok:
        ctx.tie_ok = False
        ctx.broken.append(f"Model/Isolation.v does not compile: {bad}")
        return
    pairs, batches = make_plan(ctx)
    ctx.notes["pairs"] = [list(p) for p in pairs]
    ctx.notes["histories"] = [[(s["countries"], s["preset"] + ("@yaml" if "yaml_group" in s else "") + ("@shared-runner" if s.get("runner") else "")) if s["kind"] == "run"
                               else s["how"] for s in b] for b in batches][:8]
    jobs = []
    for i, (c, p) in enumerate(pairs):
        jobs.append((f"alone{i}", payload_of([run_step(0, [c], p)]), "0"))
    # the interpreter's string-hash seed is not an input of a run: the same run in fresh processes that differ ONLY in
    # PYTHONHASHSEED (the reference `alone` runs use 0) must give bit-identical results.  ARG under the nuclear-winter
    # preset (scarce feed: species priorities matter) always, plus pairs drawn by seed
    hs_targets = [("ARG", "nw_plain")] + ctx.rng.sample([x for x in pairs if x != ("ARG", "nw_plain")], 1 if ctx.quick else 4)
    hs_seeds = ["1", "2", "5"] if ctx.quick else ["1", "2", "5", "7", "4242", "123456789"]
    hs_jobs = [(f"hs{i}_{sd}", pr, sd) for i, pr in enumerate(hs_targets) for sd in hs_seeds]
    for tag, (c, p), sd in hs_jobs:
        jobs.append((tag, payload_of([run_step(0, [c], p)], trace=False, snapshot=False), sd))
    for k, b in enumerate(batches):
        jobs.append((f"batch{k}", payload_of(b), "0"))
    groups = art_plan(ctx)
    for gi, (a, b, preset) in enumerate(groups):
        jobs += [(f"art{gi}_both", art_payload([a, b], preset), "0"), (f"art{gi}_a", art_payload([a], preset), "0"),
                 (f"art{gi}_b", art_payload([b], preset), "0")]
    ctx.log(f"{len(pairs)} pairs, {len(batches)} histories ({sum(len(b) for b in batches)} steps), {len(jobs)} fresh processes")
    outs = launch_all(ctx, jobs, workers=min(len(jobs), 28))
    ctx.log("implementation runs done")

    artifact_audit(ctx, groups, outs)
    canon = Canon()
    alone, name_of = {}, {}
    for i, pr in enumerate(pairs):
        o = outs[f"alone{i}"]
        s = o["steps"][0]
        cname = list(s["results"].keys())[0] if s["results"] else None
        if cname:
            name_of[cname] = pr[0]
        alone[pr] = {"step": s, "cname": cname, "sig": sig_of(s, cname), "res": s["results"].get(cname) if cname else None,
                     "trace_def": alone_trace_def(o, canon)}
        if not s["ok"]:
            ctx.log("note: run alone fails:", pr, s.get("err"))
    hs_reported = set()
    for tag, pr, sd in hs_jobs:
        st = outs[tag]["steps"][0]
        sg = sig_of(st, alone[pr]["cname"])
        ctx.count(("hashseed", pr, sd), nontrivial=bool(st["ok"]))
        if sg != alone[pr]["sig"] and pr not in hs_reported:
            hs_reported.add(pr)
            if st["ok"] and alone[pr]["step"]["ok"]:
                parts = differing_parts(alone[pr]["res"], st["results"].get(alone[pr]["cname"]))
            else:
                parts = [f"outcome {alone[pr]['step'].get('err', 'completes')} vs {st.get('err', 'completes')}"]
            field = (parts[0].split(" ")[0] if parts else "?")
            ctx.violation(f"C14:result-depends-on-hash-seed@{field}",
                          f"{pr[0]}/{pr[1]} computed alone in two fresh processes that differ only in PYTHONHASHSEED (0 vs {sd}) "
                          f"gives different results: {parts[:5]}",
                          {"kind": "counterexample", "check": "differential", "presets": PRESETS,
                           "history_A": [run_step(0, [pr[0]], pr[1])], "hashseed_A": "0",
                           "history_B": [run_step(0, [pr[0]], pr[1])], "hashseed_B": sd, "target": list(pr),
                           "differs": parts, "requires": "identical digests whatever the interpreter's hash seed"})
    ctx.notes["hash_seed_audit"] = {"targets": [list(x) for x in hs_targets], "seeds": ["0"] + hs_seeds,
                                    "fresh_processes": len(hs_jobs), "differences": len(hs_reported)}

    # ---- differential audit (the property itself, on the implementation)
    ndiff = 0
    interleavings = {"overwrite_before": 0, "multi_country_calls": 0, "repeats": 0, "failed_runs": 0,
                     "via_run_scenarios_from_yaml": 0}
    for k, b in enumerate(batches):
        o = outs[f"batch{k}"]
        seen_pairs = set()
        left = None        # settings left behind by the previous step (pair or overwrite id)
        for si, (st, so) in enumerate(zip(b, o["steps"])):
            if st["kind"] != "run":
                left = ("ow", st["how"], si) if so.get("ok") or st["how"] == "sum_many" else left
                continue
            if len(st["countries"]) > 1:
                interleavings["multi_country_calls"] += 1
            if "yaml_group" in st:
                interleavings["via_run_scenarios_from_yaml"] += 1
            for iso in st["countries"]:
                pr = (iso, st["preset"])
                a = alone.get(pr)
                if a is None or st.get("nocompare"):
                    # (a simulation with its own NMONTHS: what the driver makes of it is not C14's business; it is there
                    # for what it leaves behind for the next simulation)
                    left = ("run", "own-nmonths")
                    continue
                sg = sig_of(so, a["cname"])
                if not so["ok"]:
                    interleavings["failed_runs"] += 1
                nontriv = so["ok"] and left is not None and left != ("run", settings_key(pr))
                if left is not None and left[0] == "ow":
                    interleavings["overwrite_before"] += 1
                if pr in seen_pairs:
                    interleavings["repeats"] += 1
                seen_pairs.add(pr)
                ctx.count((pr, json.dumps(b[:si], sort_keys=True), iso), nontrivial=nontriv)
                if sg != a["sig"]:
                    ndiff += 1
                    if ndiff <= 3:
                        report_difference(ctx, b, si, pr, a, so, k)
                left = ("run", settings_key(pr))
    ctx.notes["audit"] = {"pairs": len(pairs), "histories": len(batches), "run_occurrences": ctx.evaluations,
                          "differences": ndiff, "fresh_processes": len(jobs), **interleavings}
    if ndiff:
        ctx.log("differential audit: differences:", ndiff)

    # ---- traces decided in Coq
    all_terms, all_meta = [], []
    problems = []

    # the traces recorded alone are compiled once (work/C14/c14_alone_0.vo) and imported by every batch file
    IMPORTS = "From Coq Require Import NArith.\nFrom Allfed Require Import Model.Isolation."

    def coq_alone(i):
        pr = pairs[i]
        if alone[pr]["trace_def"] is None:
            return None
        code = ctx.coq_codes(f"c14_alone{i}", IMPORTS, [f"check_case [] al_{i} [] al_{i}"], per_file=10 ** 6,
                             defs=f"Definition al_{i} : list rev_ := {alone[pr]['trace_def']}.")[0]
        alone[pr]["al_name"] = f"al_{i}"
        alone[pr]["al_file"] = f"c14_alone{i}_0"
        return code

    with ThreadPoolExecutor(max_workers=lib.NCPU) as ex:
        al_codes = list(ex.map(coq_alone, range(len(pairs))))
    for i, code in enumerate(al_codes):
        pr = pairs[i]
        if code is None:
            continue
        ctx.traces += 1
        if code != 0:
            m = {"batch": "alone", "step": 0, "country": pr[0], "preset": pr[1], "kind": "run", "pending": [],
                 "tag": list(alone[pr]["step"]["results"].values())[0]["tag"]}
            report_trace_problem(ctx, code, m, [run_step(0, [pr[0]], pr[1])], outs[f"alone{i}"], canon)

    def coq_one(k):
        terms, meta, probs, defs = analyse_batch(ctx, f"batch{k}", outs[f"batch{k}"], batches[k], alone, canon, name_of)
        need = sorted({a["al_file"] for a in alone.values() if a.get("al_file") and (a["al_name"] + " ") in " ".join(terms) + " "})
        codes = ctx.coq_codes(f"c14_b{k}", IMPORTS + "".join(f"\nRequire Import {f}." for f in need), terms, per_file=10 ** 6,
                              defs=defs)
        return terms, meta, probs, codes

    with ThreadPoolExecutor(max_workers=lib.NCPU) as ex:
        res = list(ex.map(coq_one, range(len(batches))))
    ntr, nev = 0, 0
    for k, (terms, meta, probs, codes) in enumerate(res):
        problems += probs
        for code, m in zip(codes, meta):
            nev += m["events"] if m["kind"] == "run" else 0
            if m["kind"] == "run":
                ntr += 1
            if code == 0:
                continue
            report_trace_problem(ctx, code, m, batches[k], outs[f"batch{k}"], canon)
    ctx.traces += ntr
    ctx.notes["traces"] = {"runs_with_recorded_trace": ntr, "events": nev, "cells": sorted(canon.cells, key=canon.cells.get),
                           "distinct_values": len(canon.values)}
    inventory = {}
    for pr in problems:
        if pr["kind"] == "shared-state":
            inventory.setdefault(pr["cell"], 0)
            inventory[pr["cell"]] += 1
    ctx.notes["shared_state_inventory"] = {"tracked_by_proxy": TRACKED, "other_cells_changed_by_runs": inventory}
    done = set()
    for pr in problems:
        k = int(pr["batch"][5:])
        hist = batches[k][:pr["step"] + 1]
        if pr["kind"] == "shared-state":
            key = f"C14:unmodelled-shared-state@{pr['cell']}"
            what = (f"a run changed module-level state outside Food.conversions: {pr['cell']} "
                    f"{pr['before'][:80]} -> {pr['after'][:80]}")
        elif pr["kind"] == "options-mutated":
            key = "C14:options-mutated@run_model_no_trade"
            what = (f"the caller's scenario_option dictionary was modified by run {batches[k][pr['step']]['countries']}/"
                    f"{batches[k][pr['step']]['preset']}: {pr['diff']}")
        else:
            key = "C14:result-modified-by-later-step"
            what = f"the Interpreter returned for {pr['country']} was modified by a later step of the history"
        if key in done:
            continue
        done.add(key)
        ctx.violation(key, what, {"kind": "counterexample", "check": pr["kind"], "presets": PRESETS, "history_A": hist,
                                  "detail": pr})
    ctx.notes.pop("_reported", None)
    s0 = [x for x in outs["batch0"]["steps"] if x["kind"] == "run"][0]
    ctx.sample({"history": [(s["countries"], s["preset"]) if s["kind"] == "run" else s["how"] for s in batches[-1]],
                "alone_digest_of_first_pair": alone[pairs[0]]["sig"][:32], "first_step_headline": (list(s0["results"].values()) or [{}])[0].get("headline")})
    ctx.sample({"overwrites_observed": [{k: v for k, v in s.items() if k in ("how", "ok", "err")}
                                        for b in range(len(batches)) for s in outs[f"batch{b}"]["steps"] if s["kind"] != "run"][:5]})


def settings_key(pr):
    p = PRESETS[pr[1]]
    return (pr[0] if "population" not in p else "pop", p["nutrition"])


def report_difference(ctx, hist, si, pr, a, so, k):
    """shrink to a two-step history when possible, then file the violation with both histories"""
    target = run_step(99, [pr[0]], pr[1])
    target_in = dict(target, runner=hist[si]["runner"]) if hist[si].get("runner") else target
    cands = []
    if hist[si].get("yaml_group") is not None:
        # the other simulations of the same YAML file that precede it, then the simulation itself, through the driver
        grp = [x for x in hist[:si] if x.get("yaml_group") == hist[si]["yaml_group"]]
        if grp:
            cands.append(grp + [hist[si]])
    for j in range(si):
        cands.append([dict(hist[j], id=f"p{j}"), target_in])
    if len(hist[si]["countries"]) > 1:
        cands.append([dict(hist[si], id="m")])
    small = None
    try:
        jobs = [(f"shrink{k}_{si}_{j}", payload_of(c, trace=False, snapshot=False), "0") for j, c in enumerate(cands)]
        outs = launch_all(ctx, jobs) if jobs else {}
        for j, c in enumerate(cands):
            o = outs[f"shrink{k}_{si}_{j}"]
            if sig_of(o["steps"][-1], a["cname"]) != a["sig"]:
                small = c
                got = o["steps"][-1]
                break
    except Exception as e:  # shrinking is best effort
        ctx.log("shrink failed:", repr(e)[:200])
    if small is None:
        small, got = hist[:si + 1], so
    if got["ok"]:
        parts = differing_parts(a["res"], got["results"].get(a["cname"]))
    else:
        parts = ["the run fails in history A: " + got.get("err", "?") + (" (alone: " + a["step"].get("err", "completes") + ")")]
    ctx.tie_ok = ctx.tie_ok  # (the tie is judged by the trace checks; a difference with a disciplined trace is reported there)
    reused = any(x.get("runner") for x in small if x["kind"] == "run")
    ctx.violation((f"C14:history-dependence-on-reused-runner:{pr[0]}/{pr[1]}" if reused and hist[si].get("runner") else
                   f"C14:history-dependence:{pr[0]}/{pr[1]}"),
                  f"result of {pr} after {[(s.get('countries'), s.get('preset')) if s['kind'] == 'run' else s['how'] for s in small[:-1]] or 'a multi-country call'} "
                  f"differs from the same run alone in a fresh process: {parts[:4]}",
                  {"kind": "counterexample", "check": "differential", "presets": PRESETS, "history_A": small,
                   "history_B": [target], "target": list(pr), "observed_A": sig_of(got, a["cname"]), "observed_B": a["sig"],
                   "differs": parts, "requires": "identical digests (headline, monthly series, herd trajectories)"})


def report_trace_problem(ctx, code, m, hist, out, canon):
    names = sorted(canon.cells, key=canon.cells.get)
    if m["kind"] == "log":
        if "log" in ctx.notes.setdefault("_reported", []):
            return
        ctx.notes["_reported"].append("log")
        ctx.violation("C14:log-undisciplined", f"{m['batch']}: a run read a cell whose last write was by another step",
                      {"kind": "counterexample", "check": "trace", "presets": PRESETS, "history_A": hist})
        return
    hist_a = hist[:m["step"] + 1]
    base = {"kind": "counterexample", "check": "trace", "presets": PRESETS, "history_A": hist_a,
            "target": [m["country"], m["preset"]], "coq_code": code}
    seen = ctx.notes.setdefault("_reported", [])
    if code & 1:
        cell = first_unwritten_read(out, m, names, canon)
        key = f"C14:read-before-write@{cell}"
        if key not in seen:
            seen.append(key)
            if m["pending"]:
                what = (f"run {m['country']}/{m['preset']} (step {m['step']} of {m['batch']}) starts with module-level cell {cell} "
                        f"already modified by an earlier run of the same process (its reads are not observable: counted as read)")
            else:
                what = (f"run {m['country']}/{m['preset']} (step {m['step']} of {m['batch']}) reads process-global cell {cell} "
                        f"before writing it: its result can depend on what earlier runs left there")
            ctx.violation(key, what, dict(base, cell=cell))
    if code & 2:
        ctx.tie_ok = False
        ctx.broken.append("recorded trace is not coherent: Food.conversions was modified behind the recording proxy")
        ctx.violation("C14:tie:store-modified-behind-proxy", f"{m['batch']} step {m['step']}: a read returned a value that is not "
                      "the run's own last write", dict(base, kind="tie-broken"))
    if code & 4 and sum(1 for x in seen if x.startswith("C14:trace-depends")) < 2:
        seen.append(f"C14:trace-depends-on-history:{m['country']}/{m['preset']}")
        ctx.violation(f"C14:trace-depends-on-history:{m['country']}/{m['preset']}",
                      f"the events issued by {m['country']}/{m['preset']} in {m['batch']} differ from those of the same run alone",
                      base)


def first_unwritten_read(out, m, names, canon):
    if m["pending"]:
        return m["pending"][0]
    written = set()
    for t, evs in out["segments"]:
        if t != m["tag"]:
            continue
        for k, c, v in evs:
            if k == "W":
                written.add(c)
            elif c not in written:
                return "Food.conversions." + out["cells"][c]
    return "?"


# ----------------------------------------------------------------------------- replay

def replay(rep):
    ctx = lib.Ctx("C14", "quick", rep.get("seed", 0))
    global PRESETS
    PRESETS = rep.get("presets", PRESETS)
    check = rep.get("check")
    if check == "differential":
        outs = launch_all(ctx, [("A", payload_of(rep["history_A"], trace=False, snapshot=False), rep.get("hashseed_A", "0")),
                                ("B", payload_of(rep["history_B"], trace=False, snapshot=False), rep.get("hashseed_B", "0"))])
        sb = outs["B"]["steps"][-1]
        cname = list(sb["results"].keys())[0] if sb["results"] else None
        a, b = sig_of(outs["A"]["steps"][-1], cname), sig_of(sb, cname)
        print("history A:", json.dumps(rep["history_A"]))
        print("history B:", json.dumps(rep["history_B"]))
        print("target", rep.get("target"), "\n  result in A:", a, "\n  result in B:", b)
        if a != b:
            ra = outs["A"]["steps"][-1]["results"].get(cname)
            print("  differ on:", differing_parts(sb["results"].get(cname), ra))
            return 1
        print("  identical: not reproduced")
        return 0
    if check == "artifacts":
        a_list, c_list = rep["history_A"]["countries_list"], rep["history_B"]["countries_list"]
        outs = launch_all(ctx, [("both", art_payload(a_list, rep["preset"]), "0"), ("alone", art_payload(c_list, rep["preset"]), "0")])
        name, diffs = compare_artifacts(outs["alone"], outs["both"])
        print("run_model_no_trade(return_results=True, save_all_results=True), preset", rep["preset"])
        print("  together:", a_list, " alone:", c_list, " country:", name)
        for d in diffs[:10]:
            print("  difference:", json.dumps(d)[:400])
        if not diffs:
            print("  saved csv files and returned result identical: not reproduced")
        return 1 if diffs else 0
    out = launch(ctx, "A", payload_of(rep["history_A"]))
    last = [s for s in out["steps"] if s["kind"] == "run"][-1]
    if check == "trace":
        canon = Canon()
        terms, meta, probs, defs = analyse_batch(ctx, "batch0", out, rep["history_A"], {}, canon, {})
        codes = ctx.coq_codes("c14_replay", "From Coq Require Import NArith.\nFrom Allfed Require Import Model.Isolation.", terms,
                              per_file=10 ** 6, defs=defs)
        bad = [(c, m) for c, m in zip(codes, meta) if c != 0]
        print("history A:", json.dumps(rep["history_A"]))
        for c, m in bad:
            print("  Coq: trace check code", c, "for", m)
        return 1 if bad else 0
    if check == "shared-state":
        d = [x for s in out["steps"] if s["kind"] == "run" for x in s.get("snapdiff", []) if x["cell"] != TRACKED]
        print("module-level cells changed by the runs:", json.dumps(d, indent=1)[:2000])
        return 1 if d else 0
    if check == "options-mutated":
        bad = [s for s in out["steps"] if s["kind"] == "run" and not s["options_unchanged"]]
        for s in bad:
            print("options modified by step", s["id"], s["countries"], s.get("options_diff"))
        return 1 if bad else 0
    if check == "result-modified-later":
        bad = [(s["id"], c) for s in out["steps"] if s["kind"] == "run" for c, r in s["results"].items()
               if r["late_digest"] != r["digest"]["all"]]
        print("results modified after they were returned:", bad)
        return 1 if bad else 0
    print("nothing to replay for kind", rep.get("kind"), rep.get("broken"))
    return 0
