"""C02 - percent fed is the true optimum of the allocation problem.
proof : Props/C02.v - the LP the code builds (Model/LP.build) and the independent specification Physical (written from
        the property, no stock variables) have the same achievable objective values for EVERY input and horizon; the
        max-min objective is faithful; a duality-certificate checker is proved sound (Proofs/LPCert.v).
tie   : as C01 (row multiset incl. the objective rows), on fewer instances.
audit : every captured solve (real three-round runs + solved synthetic instances) is re-solved from the supplies with an
        independently written formulation and a different solver (HiGHS); reported optimum must agree to 2e-6 relative.
        Per-instance certificates (when the instance is small enough for the tier) are evaluated by vm_compute."""
import json
import os

import lpcase
import lpgen
import lpspec
import pools
from lib import fq, fql

TOL = 1e-9
REL = 2e-6


def instance_ub(d):
    """a generous bound on every quantity of a feasible allocation of this instance (sum of everything there is)"""
    n = d["NM"]
    tot = d["sf0"] + sum(d["crops_prod"]) + d["meat_total"] + sum(d["meat_monthly"]) + sum(d["scp_prod"]) + sum(d["cs_prod"])
    tot += sum(d["milk"]) + sum(d["greenhouse"]) + sum(d["fish"]) + sum(d["max_feed"]) + sum(d["max_biofuel"])
    tot += sum(d["feed_charge"]) + sum(d["biofuel_charge"]) + max(d["meat_running"] + [0.0])
    tot += sum(d["sw_max_density"] * b * (2 + g / 100.0) + b for b, g in zip(d["built_area"], d["growth"]))
    tot += sum(sum(d["pin_" + t]) for t in ("cr", "sf", "meat", "scp", "cs", "sw")) * 1.0001
    return 2.0 * max(1.0, tot, 100.0 * tot / d["need"])

CERT_IMPORTS = lpcase.IMPORTS + "\nFrom Allfed Require Import Model.LPCert Model.LPBound."


def certificate(rec):
    """duality certificate for one captured solve: multipliers from HiGHS on the code's own rows (rationalised exactly),
    checked by Model/LPCert.check_cert against the MODEL's rows by vm_compute.  -> (defs, term) or None"""
    st, opt, y = lpspec.solve_rows(rec["rows"], want_duals=True)
    if st != 0:
        return None
    rep = rec["percent_fed_from_model"]
    if abs(rep - opt) / (1.0 + abs(opt)) > REL:
        return None           # CBC precision gap (triaged by the audit): nothing to certify at 2e-6
    y = [0.0 if abs(v) < 1e-13 else v for v in y]
    # what is certified: no feasible allocation achieves more than reported x (1 + 5e-6) + 1e-5
    claimed = rep * (1 + 5e-6) + 1e-5
    ty = lpcase.coq_ty(rec["ty"])
    d = rec["lp_in"]
    if d["store_years"] or not d["add_sf"]:
        # unconditional: Model/LPBound.cert_ok computes the bound on every variable itself and checks the input hypotheses;
        # Proofs/LP_Bound.cert_ok_sound then gives optimality for the model's LP AND for the specification Physical
        term = f"(if cert_ok x_in {ty} x_y {fq(claimed)} then 0 else 1)%nat"
        kind = "unconditional"
    else:
        # first-year-only stock regime: SF_end m (m > 12) is genuinely unbounded (first_year_regime_unbounded), so the
        # certificate is conditional on the instance bound computed here
        term = f"(if check_cert (build x_in {ty}) x_y {fq(instance_ub(d))} {fq(claimed)} then 0 else 1)%nat"
        kind = "conditional"
    return (f"Definition x_y : list Q := {fql(y)}.\n", term, kind)


def run(ctx):
    ctx.level = "proof"
    ctx.rule = ("case = one solved linear programme (synthetic: seeded dyadic inputs, all flag subsets, both regimes, both "
                "optimisation types; real: every Optimizer call of three-round country runs); distinct = hash of inputs; "
                "non-trivial = optimum > 0 and finite")
    ctx.trusted += ["hand model coq/Model/LP.v tied by row-multiset comparison; specification coq/Model/Physical.v is read "
                    "by a human against the property text",
                    "CBC is not verified: the equivalence theorem covers 'the LP is the allocation problem' for all "
                    "instances; that the solver solved the LP it was given is checked per instance (HiGHS re-solve of an "
                    "independently written formulation; duality certificate)",
                    "scipy/HiGHS as the independent solver (search/audit only)"]
    ctx.assumptions += ["admissible inputs (waste in [0,100), positive need)", "N >= 1 for the objective statements"]
    ctx.regen(["gen_optimizer_consts"])     # literals of optimizer.py the model repeats (theorem c02_literals_from_source)
    ctx.check_props()
    ok, bad, out = ctx.build(["Model/LPCheck.vo"])
    nsyn = 25 if ctx.quick else 300
    nsolve = 60 if ctx.quick else 1500
    nreal = 5 if ctx.quick else 80
    rng = ctx.rng
    specs = [{"spec": lpgen.gen_spec(rng), "solve": False} for _ in range(nsyn)]
    specs += [{"spec": lpgen.gen_spec(rng, solvable=True, nmax=16), "solve": True} for _ in range(nsolve)]
    specs += [{"spec": lpgen.gen_targeted(rng, k), "solve": True} for k in range(16 if ctx.quick else 240)]
    must = [pools.option(scenario="industrial_foods", shutoff="continued"),
            pools.option(ratio_stocks_untouched="no_stored_between_years", shutoff="continued"), dict(pools.BASELINE_OPTION)]
    real = pools.sample_runs(rng, nreal, must=must, horizons=(120,) if ctx.quick else (48, 96, 120))
    # the 'no cap on human intake' mode together with every capped food (seaweed, SCP, cellulosic sugar), in a coastal
    # country where seaweed is plentiful (the cap would bind), and one country below 10 million people (the code loosens
    # tolerances there)
    real.append({"iso3": "ARG", "option": pools.option(scenario="all_resilient_foods", intake_constraints="disabled_for_humans",
                                                       shutoff="continued")})
    real.append({"iso3": rng.choice(["ALB", "JAM", "URY", "NZL", "IRL"]), "option": dict(pools.BASE_OPTION)})
    res = ctx.run_impl("lp_impl", {"synthetic": specs, "real": real, "rows_for_real": ctx.quick is False or True, "procs": 14})
    dist = {"solved_synthetic": 0, "infeasible_synthetic": 0, "real_solves": 0, "to_humans": 0, "to_animals": 0,
            "max_rel_gap": 0.0, "spec_infeasible": 0}
    file_specs, meta = [], []
    cert_specs, cert_meta = [], []

    def audit(rec, where, rerun):
        """reported optimum vs independent formulation"""
        d = rec["lp_in"]
        if d["add_meat"] and "iso3" in where:
            # the caps handed to the optimiser must be this round's own slaughter (running total, grand total)
            acc, worst = 0.0, 0.0
            for m, x in enumerate(d["meat_monthly"]):
                acc += x
                worst = max(worst, abs(acc - d["meat_running"][m]) / (1.0 + abs(acc)))
            worst = max(worst, abs(d["meat_total"] - acc) / (1.0 + abs(acc)))
            if worst > 1e-9:
                ctx.violation("C02:meat-caps-differ-from-this-rounds-slaughter",
                              f"running total / grand total of meat handed to the optimiser differ from the cumulative monthly "
                              f"slaughter of the same round by {worst:.3g} (relative) on {where}",
                              dict(kind="counterexample", where=where, lp_in=d, **rerun))
        st, opt, _x = lpspec.solve_spec(d, rec["ty"])
        rep = rec["percent_fed_from_model"]
        obj0 = lpspec.first_objective(rec)
        if obj0 is not None and not lpspec.objective_is_pure(obj0):
            # the number the code reports is the value of the FIRST objective: if that is not the fed share alone the
            # reported number is not the optimum of the allocation problem (Model/LP.v maximises the objective variable)
            ctx.tie_ok = False
            ctx.violation("C02:first-objective-is-not-the-fed-share",
                          f"the first solve maximises {obj0['terms'][:6]} (sense {obj0['sense']}), not the fed share alone; "
                          f"reported {rep} vs independent optimum {opt} on {where}",
                          dict(kind="counterexample", where=where, lp_in=d, reported=rep, independent=opt, ty=rec["ty"],
                               objective=obj0, **rerun))
        dist[rec["ty"]] += 1
        if st != 0:
            dist["spec_infeasible"] += 1
            ctx.violation("C02:spec-infeasible-but-solved",
                          f"the code reports optimum {rep} but the specification LP has status {st} on {where}",
                          dict(kind="counterexample", where=where, lp_in=d, reported=rep, **rerun))
            return
        gap = abs(rep - opt) / (1.0 + abs(opt))
        dist["max_rel_gap"] = max(dist["max_rel_gap"], gap)
        ctx.count((json.dumps(d, sort_keys=True)[:4000], rec["ty"]), nontrivial=opt > 0)
        if REL < gap <= 2e-3 and "rows" in rec:
            # ill-conditioned instances (seaweed ledgers growing several hundred percent a month): is it CBC's precision or
            # the formulation?  Re-solve the code's OWN rows with HiGHS: if that agrees with the specification the LP is
            # right and the gap is solver tolerance (recorded, not a violation)
            st2, opt2 = lpspec.solve_rows(rec["rows"], objective=obj0)
            if st2 == 0 and abs(opt2 - opt) / (1.0 + abs(opt)) <= REL:
                dist.setdefault("solver_tolerance_cases", []).append({"where": where, "reported": rep, "independent": opt,
                                                                      "own_rows_highs": opt2, "rel_gap": gap})
                return
        if gap > REL:
            kind = "overstated" if rep > opt else "suboptimal"
            ctx.violation(f"C02:reported-optimum-{kind}",
                          f"reported {rep} vs independent optimum {opt} (rel gap {gap:.3g}) on {where}",
                          dict(kind="counterexample", where=where, lp_in=d, reported=rep, independent=opt, ty=rec["ty"], **rerun))

    for item, rec in zip(specs, res["synthetic"]):
        d = item["spec"]
        if "error" in rec:
            if item["solve"] and rec["error"] == "AssertRejected":
                dist["infeasible_synthetic"] += 1
                # the independent formulation must be infeasible too
                st, opt, _ = lpspec.solve_spec(d, d["ty"])
                if st == 0 and not (d["add_cr"] and d["relocated"] and d["NM"] >= 2 and d["NM"] - 1 <= d["harvest_delay"]):
                    ctx.violation("C02:solver-failed-on-feasible-instance",
                                  f"the implementation failed but the specification LP is feasible (optimum {opt})",
                                  {"kind": "counterexample", "spec": d, "independent": opt})
            continue
        rec["lp_in"]["ty"] = d["ty"]
        if ok:
            scale = lpcase.scale_of(rec["lp_in"])
            file_specs.append((lpcase.instance_defs("x", {k: rec[k] for k in ("lp_in", "rows")}),
                               [f"compare_lp {fq(TOL)} {fq(scale)} x_in {lpcase.coq_ty(rec['ty'])} x_rows"]))
            meta.append(("syn", item))
        if "values" in rec:
            dist["solved_synthetic"] += 1
            audit(rec, {"synthetic": True}, {"spec": d})
            if ok and len(cert_specs) < (6 if ctx.quick else 80) and rec["percent_fed_from_model"] > 0:
                c = certificate(rec)
                if c:
                    cert_specs.append((lpcase.instance_defs("x", {"lp_in": rec["lp_in"]}) + c[0], [c[1]]))
                    cert_meta.append({"synthetic": True, "N": d["NM"], "ty": d["ty"], "certificate": c[2]})
            ctx.sample({"kind": "synthetic", "N": d["NM"], "ty": d["ty"], "reported": rec["percent_fed_from_model"]}, limit=3)
    nreal_cert = [0]
    for run_ in res["real"]:
        if "error" in run_:
            dist.setdefault("real_failed", []).append([run_["iso3"], run_["error"]])
            continue
        for k, rec in enumerate(run_["solves"]):
            if "capture_error" in rec:
                ctx.tie_ok = False
                ctx.broken.append(f"capture failed: {rec['capture_error']}")
                continue
            dist["real_solves"] += 1
            ctx.traces += 1
            where = {"iso3": run_["iso3"], "solve": k, "scenario": run_["option"].get("scenario"),
                     "shutoff": run_["option"].get("shutoff"), "stocks": run_["option"].get("ratio_stocks_untouched")}
            audit(rec, where, {"rerun": {"iso3": run_["iso3"], "option": run_["option"], "solve": k}})
            if ok and "rows" in rec and nreal_cert[0] < (2 if ctx.quick else 40):
                c = certificate(rec)
                if c:
                    nreal_cert[0] += 1
                    cert_specs.append((lpcase.instance_defs("x", {"lp_in": rec["lp_in"]}) + c[0], [c[1]]))
                    cert_meta.append(dict(where, certificate=c[2]))
            if ok and "rows" in rec and (k == 0 or not ctx.quick):
                scale = lpcase.scale_of(rec["lp_in"])
                file_specs.append((lpcase.instance_defs("x", {k2: rec[k2] for k2 in ("lp_in", "rows")}),
                                   [f"compare_lp {fq(TOL)} {fq(scale)} x_in {lpcase.coq_ty(rec['ty'])} x_rows"]))
                meta.append(("real", where))
        ctx.sample({"kind": "real", "iso3": run_["iso3"], "reported": [s.get("percent_fed_from_model") for s in run_["solves"]]}, limit=6)
    ctx.notes["input_distribution"] = dist
    if not ok:
        ctx.tie_ok = False
        ctx.broken.append(f"Model/LPCheck does not compile: {bad}")
        return
    codes = ctx.coq_codes_files("c02", lpcase.IMPORTS, file_specs, timeout=1500)
    nbad = sum(1 for c in codes if c[0] != 0)
    ctx.notes["tie_mismatches"] = nbad
    if nbad:
        ctx.tie_ok = False
        first = next(m for m, c in zip(meta, codes) if c[0] != 0)
        ctx.broken.append(f"correspondence Model/LP.build vs Optimizer rows: {nbad} instances differ, first {first}")
    # ---- per-instance optimality certificates, evaluated in the kernel's VM against the MODEL's rows
    okc, badc, _ = ctx.build(["Proofs/LP_Bound.vo"])
    if okc and cert_specs:
        ccodes = ctx.coq_codes_files("c02cert", CERT_IMPORTS, cert_specs, timeout=2400)
        rejected = [m for m, c in zip(cert_meta, ccodes) if c[0] != 0]
        dist["certificates"] = {"checked": len(ccodes), "accepted": len(ccodes) - len(rejected), "certified_bound": "reported x (1 + 5e-6) + 1e-5",
                                "unconditional": sum(1 for m in cert_meta if m.get("certificate") == "unconditional"),
                                "conditional": sum(1 for m in cert_meta if m.get("certificate") == "conditional")}
        ctx.assumptions.append("certificates in the first-year-only stock regime are conditional on every quantity being below "
                               "2 x max(1, T, 100 T / need) (T = all supplies, charges, ceilings, pins of the instance): there "
                               "SF_end m, m > 12, is unbounded (theorem first_year_regime_unbounded); all other certificates are "
                               "unconditional (cert_ok_sound)")
        for m in rejected[:3]:
            ctx.violation("C02:certificate-rejected", f"the duality certificate for the reported optimum is rejected on {m} "
                          "(the reported value is not certified optimal for the model's LP within 5e-6 relative + 1e-5)",
                          {"kind": "counterexample", "where": m})
    elif not okc:
        ctx.proof_ok = False
        ctx.broken.append(f"Proofs/LPCert does not compile: {badc}")


def replay(rep):
    from lib import Ctx
    ctx = Ctx("C02", "quick", int(rep.get("seed", 0)))
    if "rerun" in rep:
        r = rep["rerun"]
        res = ctx.run_impl("lp_impl", {"synthetic": [], "real": [{"iso3": r["iso3"], "option": r["option"]}], "rows_for_real": False})
        recs = res["real"][0].get("solves", [])
        recs = recs[r["solve"]:r["solve"] + 1]
    elif "spec" in rep:
        res = ctx.run_impl("lp_impl", {"synthetic": [{"spec": rep["spec"], "solve": True}], "real": []})
        recs = [x for x in res["synthetic"] if "values" in x]
        if not recs:
            print("implementation did not solve the instance:", res["synthetic"])
            st, opt, _ = lpspec.solve_spec(rep["spec"], rep["spec"]["ty"])
            return 1 if st == 0 else 0
    else:
        print("replay file names no concrete input:", rep.get("what"), rep.get("broken"))
        return 1
    bad = 0
    for rec in recs:
        st, opt, _ = lpspec.solve_spec(rec["lp_in"], rec["ty"])
        repd = rec["percent_fed_from_model"]
        print("reported", repd, "independent", opt, "status", st)
        if st != 0 or abs(repd - opt) / (1 + abs(opt)) > REL:
            bad = 1
    return bad
