"""C06 - herd head-count ledger balances every month.
proof: Props/C06.v over Model/Herd.v (month_step and its parts: animal_population, slaughter_rate, phase_b_loop, phase_c);
tie: transition-wise correspondence - animal_populations.main() is run on real country codes with generated feed / grass
     series, the carried state is snapshotted at the start and the end of every month (wrapping feed_animals and
     appened_current_populations), and Model/Herd.month_step applied to snapshot m is compared inside Coq with snapshot m+1
     and with every flow appended during the month;
audit: ledger identity, non-negativity, transfer identity, hours budget, availability and target floor evaluated directly on
     the lists returned by main(..., remove_first_month=0)."""
import csv
import os
from concurrent.futures import ThreadPoolExecutor
import lib
from lib import fq, fql, cbool, clist, cnat
from props import c07 as feedmod

IMPORTS = "From Allfed Require Import Base.QRound Model.Herd Model.HerdCheck."
TOL = "(1#1000000000)"
SIZES = {"small": 0, "medium": 1, "large": 2}
SQ = ["livestock_unit", "LSU_factor", "eg", "ef", "animal_slaughter_hours", "baseline_slaughter", "target_population_head",
      "other_animal_death_rate_monthly", "animals_per_pregnancy", "birth_ratio", "gestation", "transfer_culling_fraction",
      "retiring_fraction", "starvation_death_fraction", "reduction_in_animal_breeding", "target_population_fraction"]
FIELD = {1: "population", 2: "slaughter", 3: "pregnant_animals_total", 4: "pregnant_animals_birthing_this_month",
         5: "pregnant_animal_slaughter_fraction", 6: "births_animals_month", 7: "transfer_population",
         8: "other_death_causes_other_than_starving", 9: "slaughtered_pregnant_animals", 10: "population_starving_pre_slaughter",
         11: "homekill_other_death", 12: "homekill_healthy", 13: "homekill_starving", 14: "total_homekill",
         15: "other_death_starving", 16: "other_death_total", 17: "NE_balance", 18: "population_fed", 19: "transfer_births",
         20: "retiring_milk_animals"}


def all_codes():
    p = os.path.join(lib.REPO, "data", "no_food_trade", "computer_readable_combined.csv")
    codes = [r[0] for r in csv.reader(open(p))][1:]
    return codes + ["WOR"]


def static_term(s, spid):
    return (f"(mk_static {cbool(s['milk'])} {cbool(s['ruminant'])} {cnat(spid[s['species']])} {cnat(SIZES[s['size']])} "
            f"{fql([s[k] for k in SQ])})")


def obs_vector(post, fw):
    return [post["pop"], fw["slaughter"], post["ptot"], post["pbirth"], post["pfrac"], fw["births_animals_month"],
            fw["transfer_population"], fw["other_death_causes_other_than_starving"], fw["slaughtered_pregnant_animals"],
            fw["population_starving_pre_slaughter"], fw["homekill_other_death_this_month"], fw["homekill_healthy_this_month"],
            fw["homekill_starving_this_month"], fw["total_homekill_this_month"], fw["other_death_starving"], fw["other_death_total"],
            fw["bal"], fw["fed"], fw["transfer_births"], fw["retiring_milk_animals"]]


def run(ctx):
    ctx.level = "proof"
    ctx.rule = ("case = one month of one herd in a run of animal_populations.main(code, feed, grass, strategy, None, 0, kcal dict) "
                "(real country code, generated series: zero / partial / ample / random / ramp / feed only / grass only); "
                "non-trivial = the herd is non-empty and at least one of slaughter, starvation death, transfer or a clamp is "
                "active that month; distinct = (country, strategy, series shape, seed, month, herd)")
    ctx.trusted += ["hand model Model/Herd.v of the month loop of animal_populations.main(), tied transition-wise by the "
                    "differential check (state snapshots taken by wrapping AnimalPopulation.feed_animals and "
                    "appened_current_populations; tolerance 1e-9 relative to the herd size)",
                    "initial herd attributes (set_*_attributes, append_month_zero) are observed, not modelled, except the meat "
                    "herd's baseline births formula"]
    ctx.assumptions += ["theorems: slaughter hours per head > 0, rates / fractions / targets / baseline slaughter >= 0, homekill "
                        "budget 0 and homekill fraction 0 (the constants in CountryData), current_slaughter is not NaN",
                        "non-negativity of births needs births_baseline >= 0, which fails for the listed (country, herd) pairs "
                        "(known findings C06:negative-births@...)"]
    ctx.check_props()
    bok, bad, out = ctx.build(["Model/HerdCheck.vo"])
    if not bok:
        ctx.tie_ok = False
        ctx.broken.append(f"model does not compile: {bad}")
        return
    rng = ctx.rng
    q = ctx.quick
    nmonths = 24 if q else 120
    runs = feedmod.scale_runs(ctx, feedmod.gen_runs(rng, 6 if q else 60, 4 if q else 8, nmonths, 6 if q else 8,
                                                    fixed=("ARG", "IND", "LSO", "WOR")))
    # every country once (baseline strategy, short horizon): the negative-births scan and the ledger at month 0..2
    scan = [{"code": c, "scenario": "baseline", "shape": "scan", "feed": [0.0, 1e3, 1e6], "grass": [1e6, 1e3, 0.0],
             "kdict": feedmod.KD0, "months": [0] if (q and i % 8) else [0, 1, 2]} for i, c in enumerate(all_codes())]
    res = ctx.run_impl("c06_audit", {"runs": runs + scan})["results"]
    stats = {}
    jobs = []
    negb = {}
    nb_bad = 0
    for rn, r in zip(runs + scan, res):
        tag = f"{rn['code']} {rn['scenario']} {rn['shape']}"
        runinfo = {k: rn[k] for k in ("code", "scenario", "feed", "grass", "kdict")}
        if "error" in r:
            ctx.tie_ok = False
            ctx.broken.append(f"main() raised {r['error']} for {tag}")
            ctx.violation("C06:main-raised@" + rn["code"], f"main() raised {r['error']} for {tag}", {"kind": "counterexample", "run": runinfo})
            continue
        for k, v in r["stats"].items():
            stats[k] = stats.get(k, 0) + v
        for f in r["failures6"]:
            if f["kind"] == "negative-births":
                key = f"C06:negative-births@{rn['code']}:{f['species']}"
                if key not in negb:
                    negb[key] = f
                    ctx.violation(key, f"{rn['code']} {f['species']}: negative monthly births ({f['what']}); baseline births = "
                                  f"{r['baseline_births'].get(f['species'])!r}", {"kind": "counterexample", "run": f["run"], "month": f["month"],
                                                                                "species": f["species"]})
            else:
                nb_bad += 1
                if nb_bad <= 6:
                    ctx.violation(f"C06:{f['kind']}@main", f"{tag}: {f['what']}", {"kind": "counterexample", "run": f["run"], "month": f.get("month"),
                                                                                   "species": f.get("species")})
        for p in r.get("problems", []):
            ctx.violation("C06:trace@main", f"{tag}: {p}", {"kind": "counterexample", "run": runinfo})
        ctx.count(n=r["stats"]["species_months"])
        # ---- correspondence terms of this run
        st = r["statics"]
        if any(s["milk"] != s["milk_in_type"] for s in st):
            ctx.violation("C06:tie:milk-flag", f"{tag}: animal_function and 'milk' in animal_type disagree", {"kind": "tie-broken", "run": runinfo})
        spid = {n: i for i, n in enumerate(sorted(set(s["species"] for s in st)))}
        sname = f"statics_{len(jobs)}"
        defs = f"Definition {sname} : list sstatic := " + clist([static_term(s, spid) for s in st]) + "."
        terms, meta = [], []
        for m, mon in sorted(r["months"].items(), key=lambda kv: int(kv[0])):
            pre = clist([fql([p["pop"], p["sl"], p["ptot"], p["pbirth"], p["pfrac"]]) for p in mon["pre"]])
            obs = clist([fql(obs_vector(po, fw)) for po, fw in zip(mon["post"], mon["flows"])])
            terms.append(f"check_month {TOL} {cnat(int(m))} {sname} {pre} {fq(mon['feed_in'])} {fq(mon['grass_in'])} {obs} "
                         f"{fq(mon['feed_in'] - mon['feed_left'])} {fq(mon['grass_in'] - mon['grass_left'])}")
            meta.append({"run": runinfo, "month": int(m), "names": r["names"]})
            for s, fw, pr in zip(st, mon["flows"], mon["pre"]):
                nz = pr["pop"] > 0 and (fw["slaughter"] > 0 or fw["other_death_starving"] > 0 or fw["transfer_population"] != 0)
                ctx.count((rn["code"], rn["scenario"], rn["shape"], rn.get("seed"), m, s["type"]), nontrivial=nz, n=0)
        # meat herds: baseline births formula (set_species_slaughter_attributes)
        milk_by_species = {s["species"]: s for s in st if s["milk"]}
        for s in st:
            if not s["milk"]:
                mk = milk_by_species.get(s["species"])
                tr = ((mk["births_animals_month_baseline"] + mk["retiring_fraction"] * mk["initital_population"]) *
                      (1 - mk["transfer_culling_fraction"])) if mk else 0.0
                terms.append(f"check_births_baseline {TOL} {fq(s['initital_population'])} {fq(s['other_animal_death_rate_annual'])} "
                             f"{fq(s['initial_slaughter'])} {fq(tr)} {fq(s['births_animals_month_baseline'])}")
                meta.append({"run": runinfo, "what": "baseline births of " + s["type"]})
        jobs.append((len(jobs), defs, terms, meta))
    ctx.traces += stats.get("species_months", 0)

    # several runs per Coq file (each with its own statics definition), files evaluated in parallel
    batches, cur, w = [], [], 0
    for j in jobs:
        cur.append(j)
        w += len(j[2])
        if w >= (40 if q else 120):
            batches.append(cur)
            cur, w = [], 0
    if cur:
        batches.append(cur)
    ctx.log(f"{len(jobs)} runs traced and audited; evaluating the model on {sum(len(j[2]) for j in jobs)} cases in {len(batches)} files")

    def evaluate(kb):
        k, batch = kb
        codes = ctx.coq_codes(f"c06_{k}", IMPORTS, [t for j in batch for t in j[2]], per_file=100000,
                              defs="\n".join(j[1] for j in batch))
        out, i = [], 0
        for j in batch:
            out.append(codes[i:i + len(j[2])])
            i += len(j[2])
        return out

    with ThreadPoolExecutor(max_workers=lib.NCPU) as ex:
        outs = [o for ob in ex.map(evaluate, enumerate(batches)) for o in ob]
    nbad = ncase = 0
    for (k, defs, terms, meta), codes in zip(jobs, outs):
        for code, mt in zip(codes, meta):
            ncase += 1
            if code != 0:
                nbad += 1
                ctx.tie_ok = False
                if "month" in mt and code < 4000:
                    sp, fld = divmod(code, 100)
                    detail = f"month {mt['month']}, herd {mt['names'][sp - 1] if 0 < sp <= len(mt['names']) else sp}, field {FIELD.get(fld, fld)}"
                else:
                    detail = f"{mt.get('what', 'month ' + str(mt.get('month')))} (code {code})"
                if nbad <= 3:
                    ctx.broken.append(f"correspondence main() month step vs Model/Herd.month_step: {detail}")
                    ctx.violation("C06:tie:month_step", f"model and implementation disagree: {mt['run']['code']} {mt['run']['scenario']}: {detail}",
                                  {"kind": "tie-broken", "run": mt["run"], "month": mt.get("month"), "detail": detail})
    ctx.notes["correspondence"] = {"coq_cases_months_and_formulas": ncase, "disagreements": nbad, "runs": len(jobs)}
    ctx.notes["audit"] = {"runs": len(runs), "scan_runs_all_countries": len(scan), "stats": stats,
                          "countries_in_long_runs": sorted(set(r["code"] for r in runs)),
                          "negative_births_pairs": sorted(negb.keys())}
    if jobs:
        ctx.sample({"run": {k: (v if not isinstance(v, list) else v[:3] + ["..."]) for k, v in jobs[0][3][0]["run"].items()},
                    "month": jobs[0][3][0].get("month"), "herds": jobs[0][3][0].get("names")})
    ctx.log("negative births pairs:", sorted(negb.keys()))


def replay(rep):
    ctx = lib.Ctx("C06", "quick", rep.get("seed", 0))
    rn = rep.get("run")
    if not rn:
        print("replay file carries no input (proof or tie broken without a concrete case):", rep.get("what"))
        return 1
    rn = dict(rn)
    rn["months"] = [rep["month"]] if rep.get("month") is not None else []
    r = ctx.run_impl("c06_audit", {"runs": [rn]})["results"][0]
    if "error" in r:
        print("REPRODUCED: main() raised", r["error"])
        return 1
    fails = r["failures6"]
    for f in fails[:10]:
        print("REPRODUCED:", f["kind"], f["what"])
    if not fails and rep.get("kind") == "tie-broken":
        print("no clause of the property fails on this run; the model/implementation disagreement is re-checked by ./check C06")
    return 1 if fails else 0
