"""C06 - herd head-count ledger balances every month.
proof: Props/C06.v over Model/Herd.v (month_step and its parts: animal_population, slaughter_rate, phase_b_loop, phase_c);
tie: transition-wise correspondence - animal_populations.main() is run on real country codes with generated feed / grass
     series, the carried state is snapshotted at the start and the end of every month (wrapping feed_animals and
     appened_current_populations), and Model/Herd.month_step applied to snapshot m is compared inside Coq with snapshot m+1
     and with every flow appended during the month;
audit: ledger identity, non-negativity, transfer identity, hours budget, availability and target floor evaluated directly on
     the lists returned by main(..., remove_first_month=0)."""
import csv
import os
from concurrent.futures import ThreadPoolExecutor
import lib
from lib import fq, fql, cbool, clist, cnat
from props import c07 as feedmod

IMPORTS = "From Allfed Require Import Base.QRound Model.Herd Model.HerdCheck Proofs.Herd."
# initial state (Proofs/Herd.init_state) against the snapshot taken before month 0
CHECK_INIT = ("Definition check_init (tol : Q) (qs obs : list Q) : nat := "
              "let s := init_state (nthq qs 0) (nthq qs 1) (nthq qs 2) (nthq qs 3) (nthq qs 4) (nthq qs 5) (nthq qs 6) in "
              "first_diff tol (Qmax' (Qabs' (nthq qs 0)) (Qabs' (nthq qs 1))) 1 [s_pop s; s_sl s; s_ptot s; s_pbirth s; s_pfrac s] obs.")
TOL = "(1#1000000000)"
SIZES = {"small": 0, "medium": 1, "large": 2}
SQ = ["livestock_unit", "LSU_factor", "eg", "ef", "animal_slaughter_hours", "baseline_slaughter", "target_population_head",
      "other_animal_death_rate_monthly", "animals_per_pregnancy", "birth_ratio", "gestation", "transfer_culling_fraction",
      "retiring_fraction", "starvation_death_fraction", "reduction_in_animal_breeding", "target_population_fraction"]
FIELD = {1: "population", 2: "slaughter", 3: "pregnant_animals_total", 4: "pregnant_animals_birthing_this_month",
         5: "pregnant_animal_slaughter_fraction", 6: "births_animals_month", 7: "transfer_population",
         8: "other_death_causes_other_than_starving", 9: "slaughtered_pregnant_animals", 10: "population_starving_pre_slaughter",
         11: "homekill_other_death", 12: "homekill_healthy", 13: "homekill_starving", 14: "total_homekill",
         15: "other_death_starving", 16: "other_death_total", 17: "NE_balance", 18: "population_fed", 19: "transfer_births",
         20: "retiring_milk_animals"}


def all_codes():
    p = os.path.join(lib.REPO, "data", "no_food_trade", "computer_readable_combined.csv")
    codes = [r[0] for r in csv.reader(open(p))][1:]
    return codes + ["WOR"]


def static_term(s, spid):
    return (f"(mk_static {cbool(s['milk'])} {cbool(s['ruminant'])} {cnat(spid[s['species']])} {cnat(SIZES[s['size']])} "
            f"{fql([s[k] for k in SQ])})")


def obs_vector(post, fw):
    return [post["pop"], fw["slaughter"], post["ptot"], post["pbirth"], post["pfrac"], fw["births_animals_month"],
            fw["transfer_population"], fw["other_death_causes_other_than_starving"], fw["slaughtered_pregnant_animals"],
            fw["population_starving_pre_slaughter"], fw["homekill_other_death_this_month"], fw["homekill_healthy_this_month"],
            fw["homekill_starving_this_month"], fw["total_homekill_this_month"], fw["other_death_starving"], fw["other_death_total"],
            fw["bal"], fw["fed"], fw["transfer_births"], fw["retiring_milk_animals"]]


def run(ctx):
    ctx.level = "proof"
    ctx.rule = ("case = one month of one herd in a run of animal_populations.main(code, feed, grass, strategy, None, 0, kcal dict) "
                "(real country code, generated series: zero / partial / ample / random / ramp / feed only / grass only); "
                "non-trivial = the herd is non-empty and at least one of slaughter, starvation death, transfer or a clamp is "
                "active that month; distinct = (country, strategy, series shape, seed, month, herd)")
    ctx.trusted += ["hand model Model/Herd.v of the month loop of animal_populations.main(), tied transition-wise by the "
                    "differential check (state snapshots taken by wrapping AnimalPopulation.feed_animals and "
                    "appened_current_populations; tolerance 1e-9 relative to the herd size)",
                    "initial herd attributes (set_*_attributes, append_month_zero) are observed, not modelled, except the meat "
                    "herd's baseline births formula"]
    ctx.assumptions += ["theorems: slaughter hours per head > 0, rates / fractions / targets / baseline slaughter >= 0, homekill "
                        "budget 0 and homekill fraction 0 (the constants in CountryData), current_slaughter is not NaN",
                        "non-negativity of births needs births_baseline >= 0, which fails for the listed (country, herd) pairs "
                        "(known findings C06:negative-births@...)"]
    ctx.check_props()
    bok, bad, out = ctx.build(["Model/HerdCheck.vo"])
    if not bok:
        ctx.tie_ok = False
        ctx.broken.append(f"model does not compile: {bad}")
        return
    rng = ctx.rng
    q = ctx.quick
    nmonths = 24 if q else 120
    runs = feedmod.scale_runs(ctx, feedmod.gen_runs(rng, 6 if q else 40, 4 if q else 8, nmonths, 6 if q else 8,
                                                    fixed=("ARG", "IND", "LSO", "WOR"), pool=all_codes()))
    # every country once (baseline strategy, short horizon): the negative-births scan and the ledger at month 0..2
    scan = [{"code": c, "scenario": "baseline", "shape": "scan", "feed": [0.0, 1e3, 1e6], "grass": [1e6, 1e3, 0.0],
             "kdict": feedmod.KD0, "months": [0] if (q and i % 8) else [0, 1, 2]} for i, c in enumerate(all_codes())]
    res = ctx.run_impl("c06_audit", {"runs": runs + scan})["results"]
    stats = {}
    jobs = []
    negb = {}
    init_neg_sl = set()
    nb_bad = 0
    for rn, r in zip(runs + scan, res):
        tag = f"{rn['code']} {rn['scenario']} {rn['shape']}"
        runinfo = {k: rn[k] for k in ("code", "scenario", "feed", "grass", "kdict")}
        if "error" in r:
            ctx.tie_ok = False
            ctx.broken.append(f"main() raised {r['error']} for {tag}")
            ctx.violation("C06:main-raised@" + rn["code"], f"main() raised {r['error']} for {tag}", {"kind": "counterexample", "run": runinfo})
            continue
        for k, v in r["stats"].items():
            stats[k] = stats.get(k, 0) + v
        for f in r["failures6"]:
            if f["kind"] == "negative-births":
                key = f"C06:negative-births@{rn['code']}:{f['species']}"
                if key not in negb:
                    negb[key] = f
                    ctx.violation(key, f"{rn['code']} {f['species']}: negative monthly births ({f['what']}); baseline births = "
                                  f"{r['baseline_births'].get(f['species'])!r}", {"kind": "counterexample", "run": f["run"], "month": f["month"],
                                                                                "species": f["species"]})
            else:
                nb_bad += 1
                if nb_bad <= 6:
                    ctx.violation(f"C06:{f['kind']}@main", f"{tag}: {f['what']}", {"kind": "counterexample", "run": f["run"], "month": f.get("month"),
                                                                                   "species": f.get("species")})
        for p in r.get("problems", []):
            ctx.violation("C06:trace@main", f"{tag}: {p}", {"kind": "counterexample", "run": runinfo})
        ctx.count(n=r["stats"]["species_months"])
        # ---- correspondence terms of this run
        st = r["statics"]
        if any(s["milk"] != s["milk_in_type"] for s in st):
            ctx.violation("C06:tie:milk-flag", f"{tag}: animal_function and 'milk' in animal_type disagree", {"kind": "tie-broken", "run": runinfo})
        spid = {n: i for i, n in enumerate(sorted(set(s["species"] for s in st)))}
        sname = f"statics_{len(jobs)}"
        defs = f"Definition {sname} : list sstatic := " + clist([static_term(s, spid) for s in st]) + "."
        terms, meta = [], []
        for m, mon in sorted(r["months"].items(), key=lambda kv: int(kv[0])):
            pre = clist([fql([p["pop"], p["sl"], p["ptot"], p["pbirth"], p["pfrac"]]) for p in mon["pre"]])
            obs = clist([fql(obs_vector(po, fw)) for po, fw in zip(mon["post"], mon["flows"])])
            terms.append(f"check_month {TOL} {cnat(int(m))} {sname} {pre} {fq(mon['feed_in'])} {fq(mon['grass_in'])} {obs} "
                         f"{fq(mon['feed_in'] - mon['feed_left'])} {fq(mon['grass_in'] - mon['grass_left'])}")
            meta.append({"run": runinfo, "month": int(m), "names": r["names"]})
            for s, fw, pr in zip(st, mon["flows"], mon["pre"]):
                nz = pr["pop"] > 0 and (fw["slaughter"] > 0 or fw["other_death_starving"] > 0 or fw["transfer_population"] != 0)
                ctx.count((rn["code"], rn["scenario"], rn["shape"], rn.get("seed"), m, s["type"]), nontrivial=nz, n=0)
        # initial state of every herd (append_month_zero) = init_state of its attributes
        if "0" in r["months"]:
            for s, pr in zip(st, r["months"]["0"]["pre"]):
                terms.append(f"check_init {TOL} {fql([s['initital_population'], s['initial_slaughter'], s['births_animals_month_baseline'], s['birth_ratio'], s['animals_per_pregnancy'], s['gestation'], pr['pfrac']])} "
                             f"{fql([pr['pop'], pr['sl'], pr['ptot'], pr['pbirth'], pr['pfrac']])}")
                meta.append({"run": runinfo, "what": "initial state of " + s["type"]})
                if s["initial_slaughter"] < 0:
                    init_neg_sl.add(f"{rn['code']}:{s['type']}")
        # meat herds: baseline births formula (set_species_slaughter_attributes)
        milk_by_species = {s["species"]: s for s in st if s["milk"]}
        for s in st:
            if not s["milk"]:
                mk = milk_by_species.get(s["species"])
                tr = ((mk["births_animals_month_baseline"] + mk["retiring_fraction"] * mk["initital_population"]) *
                      (1 - mk["transfer_culling_fraction"])) if mk else 0.0
                terms.append(f"check_births_baseline {TOL} {fq(s['initital_population'])} {fq(s['other_animal_death_rate_annual'])} "
                             f"{fq(s['initial_slaughter'])} {fq(tr)} {fq(s['births_animals_month_baseline'])}")
                meta.append({"run": runinfo, "what": "baseline births of " + s["type"]})
        jobs.append((len(jobs), defs, terms, meta))
    ctx.traces += stats.get("species_months", 0)

    # ---- direct calls of calculate_change_in_population on generated states (binding hours budget, herds above / below
    #      target, last slaughter above the baseline): model agreement + direct audit of the slaughter clauses
    dcases = [{"code": c, "scenario": sc, "kdict": feedmod.KD0, "seed": rng.randint(0, 1 << 30), "n": 60 if q else 400}
              for c in (["ARG", "IND", "WOR"] if q else ["ARG", "IND", "WOR", "LSO", "CHN", "USA", "ETH", "NZL", "MNG", "PAK"])
              for sc in feedmod.SCENARIOS]
    dres = ctx.run_impl("c06_impl", {"direct": dcases})["direct"]
    dterms, dmeta = [], []
    dstat = {"calls": 0, "budget_binding": 0, "no_hours": 0, "target_binding": 0}
    for dc, dr in zip(dcases, dres):
        if "error" in dr:
            ctx.tie_ok = False
            ctx.broken.append(f"main() raised {dr['error']} for {dc['code']}")
            continue
        for rec in dr["cases"]:
            s_, stt = rec["static"], rec["state"]
            rep = {"kind": "counterexample", "direct": {k: rec[k] for k in ("static", "state", "additive", "ret", "remaining", "month", "code", "scenario")}}
            dstat["calls"] += 1
            dstat["float_assert_one_ulp"] = dstat.get("float_assert_one_ulp", 0) + bool(rec.get("float_assert"))
            if "err" in rec:
                ctx.violation("C06:hours@calculate_change_in_population", f"{rec['code']} {s_['type']}: raised {rec['err']}", rep)
                continue
            sl, pop1, _, _, od, _, left = rec["obs"]
            h = s_["animal_slaughter_hours"]
            sc_ = max(1.0, abs(stt[0]), abs(rec["remaining"]), abs(s_["target_population_head"]))
            pre = stt[0] - od - rec["ret"] + rec["additive"]
            planned_cap = stt[1] if rec["month"] else s_["baseline_slaughter"]
            dstat["budget_binding"] += 0 < rec["remaining"] < planned_cap * h
            dstat["no_hours"] += rec["remaining"] == 0
            dstat["target_binding"] += pre >= s_["target_population_head"] and pre - planned_cap < s_["target_population_head"]
            ctx.count((rec["code"], rec["scenario"], s_["type"], tuple(stt), rec["remaining"], rec["additive"], rec["month"]),
                      nontrivial=stt[0] > 0 and rec["remaining"] > 0)
            bad = []
            if not sl * h <= rec["remaining"] + 1e-9 * sc_:
                bad.append(("hours", f"slaughter {sl!r} x {h} hours exceeds the remaining hours {rec['remaining']!r}"))
            if not abs(left - (rec["remaining"] - sl * h)) <= 1e-9 * sc_ or left < -1e-9 * sc_:
                bad.append(("hours", f"hours left {left!r} != remaining {rec['remaining']!r} - slaughter {sl!r} x {h}"))
            if not (0 <= sl <= max(0.0, pre) + 1e-9 * sc_):
                bad.append(("slaughter-exceeds-available", f"slaughter {sl!r}, available {pre!r}"))
            if pre >= s_["target_population_head"] and not pre - sl >= s_["target_population_head"] - 1e-9 * sc_:
                bad.append(("below-target", f"herd after slaughter {pre - sl!r} < target {s_['target_population_head']!r}"))
            if not abs(pop1 - max(0.0, pre - sl)) <= 1e-9 * sc_:
                bad.append(("ledger", f"herd after slaughter {pop1!r} != max(0, {pre!r} - {sl!r})"))
            for k_, w_ in bad:
                ctx.violation(f"C06:{k_}@calculate_change_in_population", f"{rec['code']} {s_['type']}: {w_}", rep)
            dterms.append(f"check_phase_b {TOL} {cbool(rec['month'] == 0)} {static_term(s_, {s_['species']: 0})} {fql(stt)} "
                          f"{fq(rec['additive'])} {fq(rec['ret'])} {fq(rec['remaining'])} {fql(rec['obs'])}")
            dmeta.append(rep)
    dcodes = ctx.coq_codes("c06_direct", IMPORTS, dterms, per_file=300)
    dbad = 0
    for code, rep in zip(dcodes, dmeta):
        if code != 0:
            dbad += 1
            ctx.tie_ok = False
            if dbad <= 2:
                names = {1: "slaughter", 2: "population after slaughter", 3: "pregnant total", 4: "pregnant birthing", 5: "natural deaths",
                         6: "slaughtered pregnant", 7: "hours left"}
                ctx.broken.append(f"correspondence calculate_change_in_population vs Model/Herd.phase_b: {names.get(code, code)}")
                ctx.violation("C06:tie:phase_b", f"model and implementation disagree on {names.get(code, code)} "
                              f"({rep['direct']['code']} {rep['direct']['static']['type']})", dict(rep, kind="tie-broken"))
    ctx.notes["direct_calls"] = dict(dstat, disagreements=dbad)

    # several runs per Coq file (each with its own statics definition), files evaluated in parallel
    batches, cur, w = [], [], 0
    for j in jobs:
        cur.append(j)
        w += len(j[2])
        if w >= (40 if q else 120):
            batches.append(cur)
            cur, w = [], 0
    if cur:
        batches.append(cur)
    ctx.log(f"{len(jobs)} runs traced and audited; evaluating the model on {sum(len(j[2]) for j in jobs)} cases in {len(batches)} files")

    def evaluate(kb):
        k, batch = kb
        codes = ctx.coq_codes(f"c06_{k}", IMPORTS, [t for j in batch for t in j[2]], per_file=100000,
                              defs=CHECK_INIT + "\n" + "\n".join(j[1] for j in batch))
        out, i = [], 0
        for j in batch:
            out.append(codes[i:i + len(j[2])])
            i += len(j[2])
        return out

    with ThreadPoolExecutor(max_workers=lib.NCPU) as ex:
        outs = [o for ob in ex.map(evaluate, enumerate(batches)) for o in ob]
    nbad = ncase = 0
    for (k, defs, terms, meta), codes in zip(jobs, outs):
        for code, mt in zip(codes, meta):
            ncase += 1
            if code != 0:
                nbad += 1
                ctx.tie_ok = False
                if "month" in mt and code < 4000:
                    sp, fld = divmod(code, 100)
                    detail = f"month {mt['month']}, herd {mt['names'][sp - 1] if 0 < sp <= len(mt['names']) else sp}, field {FIELD.get(fld, fld)}"
                else:
                    detail = f"{mt.get('what', 'month ' + str(mt.get('month')))} (code {code})"
                if nbad <= 3:
                    ctx.broken.append(f"correspondence main() month step vs Model/Herd.month_step: {detail}")
                    ctx.violation("C06:tie:month_step", f"model and implementation disagree: {mt['run']['code']} {mt['run']['scenario']}: {detail}",
                                  {"kind": "tie-broken", "run": mt["run"], "month": mt.get("month"), "detail": detail})
    ctx.notes["correspondence"] = {"coq_cases_months_and_formulas": ncase, "disagreements": nbad, "runs": len(jobs)}
    ctx.notes["audit"] = {"runs": len(runs), "scan_runs_all_countries": len(scan), "stats": stats,
                          "countries_in_long_runs": sorted(set(r["code"] for r in runs)),
                          "negative_births_pairs": sorted(negb.keys()),
                          "herds_with_negative_initial_slaughter": sorted(init_neg_sl)}
    if jobs:
        ctx.sample({"run": {k: (v if not isinstance(v, list) else v[:3] + ["..."]) for k, v in jobs[0][3][0]["run"].items()},
                    "month": jobs[0][3][0].get("month"), "herds": jobs[0][3][0].get("names")})
    ctx.log("negative births pairs:", sorted(negb.keys()))


def replay(rep):
    ctx = lib.Ctx("C06", "quick", rep.get("seed", 0))
    if rep.get("direct"):
        d = rep["direct"]
        print("direct call of calculate_change_in_population: re-run ./check C06 (the generated state is in the replay file):",
              d["code"], d["static"]["type"], "state", d["state"], "remaining", d["remaining"], "additive", d["additive"])
        dres = ctx.run_impl("c06_impl", {"direct": [{"code": d["code"], "scenario": d["scenario"], "kdict": feedmod.KD0, "seed": 1, "n": 200}]})["direct"][0]
        nbad = 0
        for rec in dres.get("cases", []):
            if "err" in rec:
                nbad += 1
                continue
            sl, _, _, _, _, _, left = rec["obs"]
            h = rec["static"]["animal_slaughter_hours"]
            scl = max(1.0, abs(rec["remaining"]), abs(rec["state"][0]))
            if sl * h > rec["remaining"] + 1e-9 * scl or abs(left - (rec["remaining"] - sl * h)) > 1e-9 * scl:
                nbad += 1
        print("REPRODUCED" if nbad else "not reproduced", nbad, "of", len(dres.get("cases", [])), "generated direct calls violate the hours clauses")
        return 1 if nbad else 0
    rn = rep.get("run")
    if not rn:
        print("replay file carries no input (proof or tie broken without a concrete case):", rep.get("what"))
        return 1
    rn = dict(rn)
    rn["months"] = [rep["month"]] if rep.get("month") is not None else []
    r = ctx.run_impl("c06_audit", {"runs": [rn]})["results"][0]
    if "error" in r:
        print("REPRODUCED: main() raised", r["error"])
        return 1
    fails = r["failures6"]
    for f in fails[:10]:
        print("REPRODUCED:", f["kind"], f["what"])
    if not fails and rep.get("kind") == "tie-broken":
        print("no clause of the property fails on this run; the model/implementation disagreement is re-checked by ./check C06")
    return 1 if fails else 0
