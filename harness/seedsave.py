"""python3-vt harness/seedsave.py <worktree> <k> <PROP> <name> '<json: verify result>' '<caught-by text>'"""
import json, os, shutil, sys
wt, k, prop, name, verify, caught = sys.argv[1:7]
src = os.path.join(wt, "seed_out", k)
dst = os.path.join("/verif/seeded", name)
os.makedirs(dst, exist_ok=True)
for f in ("patch.diff", "demo.py"):
    shutil.copy(os.path.join(src, f), os.path.join(dst, f))
meta = json.load(open(os.path.join(src, "meta.json")))
meta["property"] = prop
meta["confirmed_by_lead"] = json.loads(verify)
meta["what_was_run"] = ("harness/seedverify.py (demo.py exit 0 on clean HEAD, exit 1 with the patch; fast existing tests pass with the patch) "
                        "and harness/seedrun.py <patch> " + prop + " (the registered quick check against a scratch copy of /repo with the patch applied)")
meta["caught_by"] = caught
json.dump(meta, open(os.path.join(dst, "meta.json"), "w"), indent=1)
print("saved", dst)
