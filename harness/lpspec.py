"""Independent formulation of the allocation problem of one round, written from the PROPERTY text (cumulative
form, no stock bookkeeping variables), solved with HiGHS (scipy.optimize.linprog).  Used by C02 (is the reported
optimum the optimum?) and C12 (perturbation monotonicity).  This is a search / audit tool, not a proof."""
import numpy as np
from scipy.optimize import linprog
from scipy.sparse import lil_matrix

USES = ["sf_h", "sf_f", "sf_b", "cr_h", "cr_f", "cr_b", "meat", "scp_h", "scp_f", "scp_b", "cs_h", "cs_f", "cs_b",
        "sw_wet", "sw_h", "sw_f", "sw_b", "sw_area"]


def gross(w):
    return 1.0 / (1.0 - w / 100.0)


class Builder:
    def __init__(self, d):
        self.d = d
        self.n = d["NM"]
        self.idx = {}
        k = 0
        for u in USES:
            for m in range(self.n):
                self.idx[(u, m)] = k
                k += 1
        self.z = k
        self.nv = k + 1
        self.A_ub, self.b_ub, self.A_eq, self.b_eq = [], [], [], []
        self.ub = [None] * self.nv

    def v(self, u, m):
        return self.idx[(u, m)]

    def le(self, terms, rhs):
        self.A_ub.append(terms)
        self.b_ub.append(rhs)

    def eq(self, terms, rhs):
        self.A_eq.append(terms)
        self.b_eq.append(rhs)

    def fix0(self, u, m):
        self.ub[self.v(u, m)] = 0.0


def solve_spec(d, ty):
    """-> (status, optimum, x)   status 0 = optimal"""
    n = d["NM"]
    B = Builder(d)
    v = B.v
    on = {"sf": d["add_sf"], "cr": d["add_cr"], "meat": d["add_meat"], "scp": d["add_scp"], "cs": d["add_cs"], "sw": d["add_sw"]}
    for u in USES:
        food = u.split("_")[0]
        if not on[food]:
            for m in range(n):
                B.fix0(u, m)
    humans = ty == "to_humans"
    # ---- stored food: cumulative use never exceeds the stock
    if on["sf"]:
        k = gross(d["w_sf"])
        cum = []
        for m in range(n):
            cum = cum + [(v("sf_h", m), k), (v("sf_f", m), 1.0), (v("sf_b", m), 1.0)]
            B.le(list(cum), d["sf0"])
            if not d["store_years"] and m > 12:
                for u in ("sf_h", "sf_f", "sf_b"):
                    B.fix0(u, m)
        if humans and n >= 2 and d["store_years"]:
            B.eq(list(cum), d["sf0"])          # fully used by the last month
    # ---- crops: cumulative use never exceeds what has been harvested so far
    if on["cr"]:
        k = gross(d["w_cr"])
        cum, cp = [], 0.0
        for m in range(n):
            cum = cum + [(v("cr_h", m), k), (v("cr_f", m), 1.0), (v("cr_b", m), 1.0)]
            cp += d["crops_prod"][m]
            B.le(list(cum), cp)
        if humans and n >= 2:
            B.eq(list(cum), cp)
    # ---- meat
    if on["meat"]:
        k = gross(d["w_meat"])
        if d["store_years"]:
            # physical reading: cumulative eating never exceeds what has been slaughtered so far, computed from the monthly
            # slaughter itself (NOT from the running-total series the optimiser is handed - that one is part of what is checked)
            cum, slaughtered = [], 0.0
            for m in range(n):
                cum = cum + [(v("meat", m), k)]
                slaughtered += d["meat_monthly"][m]
                B.le(list(cum), slaughtered)
        else:
            for m in range(n):
                B.le([(v("meat", m), k)], d["meat_monthly"][m])
    # ---- monthly foods
    for tag in ("scp", "cs"):
        if on[tag]:
            k = gross(d["w_" + tag])
            for m in range(n):
                B.le([(v(tag + "_h", m), k), (v(tag + "_f", m), 1.0), (v(tag + "_b", m), 1.0)], d[tag + "_prod"][m])
    # ---- seaweed ledger and bounds
    if on["sw"]:
        k = gross(d["w_sw"])
        hl = d["sw_min_density"] * d["sw_harvest_loss"] / 100.0
        for m in range(n):
            B.le([(v("sw_wet", m), -1.0)], -d["sw_init"])
            B.le([(v("sw_wet", m), 1.0)], d["sw_max_density"] * d["built_area"][m])
            B.le([(v("sw_area", m), -1.0)], -d["sw_init_area"])
            B.le([(v("sw_area", m), 1.0)], d["built_area"][m])
            if m == 0:
                B.eq([(v("sw_wet", 0), 1.0)], d["sw_init"])
                B.eq([(v("sw_area", 0), 1.0)], d["sw_init_area"])
                for u in ("sw_h", "sw_f", "sw_b"):
                    B.fix0(u, 0)
            else:
                g = 1.0 + d["growth"][m] / 100.0
                B.eq([(v("sw_wet", m), 1.0), (v("sw_wet", m - 1), -g), (v("sw_h", m), k), (v("sw_f", m), 1.0),
                      (v("sw_b", m), 1.0), (v("sw_area", m), hl), (v("sw_area", m - 1), -hl)], 0.0)
    sk = d["sw_kcals"]

    def feed_terms(m, c=1.0):
        return [(v("sf_f", m), c), (v("cr_f", m), c), (v("sw_f", m), c * sk), (v("cs_f", m), c), (v("scp_f", m), c)]

    def bio_terms(m, c=1.0):
        return [(v("sf_b", m), c), (v("cr_b", m), c), (v("sw_b", m), c * sk), (v("cs_b", m), c), (v("scp_b", m), c)]

    def human_terms(m, c=1.0):
        return [(v("sf_h", m), c), (v("cr_h", m), c), (v("sw_h", m), c * sk), (v("meat", m), c), (v("cs_h", m), c),
                (v("scp_h", m), c)]

    carriers = on["sf"] or on["cr"] or on["sw"] or on["cs"] or on["scp"]
    need0 = d["pop"] * d["kcals_monthly_pp"] / 1e9
    for m in range(n):
        given = d["milk"][m] + d["greenhouse"][m] + d["fish"][m]
        if humans:
            if carriers:
                B.eq(feed_terms(m), d["feed_charge"][m])
                B.eq(bio_terms(m), d["biofuel_charge"][m])
            # worst month: z <= 100/need * kcal_m
            B.le([(B.z, 1.0)] + human_terms(m, -100.0 / d["need"]), 100.0 * given / d["need"])
        else:
            if carriers:
                B.le(feed_terms(m), d["max_feed"][m])
                B.le(bio_terms(m), d["max_biofuel"][m])
                if m > 0:
                    B.le(feed_terms(m) + feed_terms(m - 1, -1.0), 0.0)
                    B.le(bio_terms(m) + bio_terms(m - 1, -1.0), 0.0)
        # intake caps of the resilient foods
        for tag, r in (("sw", sk), ("scp", 1.0), ("cs", 1.0)):
            if on[tag]:
                if humans:
                    ch = d[f"cap_{tag}_h"] / 100.0
                    B.le([(v(tag + "_h", m), r)], ch * need0)
                    B.le([(v(tag + "_h", m), r)] + human_terms(m, -ch), ch * given)
                B.le([(v(tag + "_f", m), r)], d[f"cap_{tag}_f"] / 100.0 * d["feed_charge"][m])
                B.le([(v(tag + "_b", m), r)], d[f"cap_{tag}_b"] / 100.0 * d["biofuel_charge"][m])
        # pinned human consumption in the feed-maximising round
        if not humans:
            lo, hi = (0.9999, 1.0001) if d["pop"] < 1e7 else (0.99999, 1.00001)
            for tag, u, r in (("sw", "sw_h", sk), ("cr", "cr_h", 1.0), ("sf", "sf_h", 1.0), ("meat", "meat", 1.0),
                              ("scp", "scp_h", 1.0), ("cs", "cs_h", 1.0)):
                if on[tag]:
                    p = d["pin_" + tag][m]
                    B.le([(v(u, m), -r)], -lo * p)
                    B.le([(v(u, m), r)], hi * p)
    c = np.zeros(B.nv)
    if humans:
        c[B.z] = -1.0
    else:
        B.ub[B.z] = 0.0
        for m in range(n):
            for j, co in feed_terms(m, 2.0 / 3.0) + bio_terms(m, 1.0 / 3.0):
                c[j] -= co

    def mat(rows):
        A = lil_matrix((len(rows), B.nv))
        for i, terms in enumerate(rows):
            for j, co in terms:
                A[i, j] += co
        return A.tocsr()

    bounds = [(0.0, u) for u in B.ub]
    res = linprog(c, A_ub=mat(B.A_ub) if B.A_ub else None, b_ub=np.array(B.b_ub) if B.A_ub else None,
                  A_eq=mat(B.A_eq) if B.A_eq else None, b_eq=np.array(B.b_eq) if B.A_eq else None,
                  bounds=bounds, method="highs")
    if res.status != 0:
        return res.status, None, None
    return 0, float(-res.fun), res.x


def first_objective(rec):
    """the objective PuLP was asked to maximise in the FIRST solve of a captured record (terms [[slot, month, coef]..]),
    or None when it was not captured"""
    objs = rec.get("objectives") or []
    if objs and "terms" in objs[0]:
        return objs[0]
    return None


def objective_is_pure(obj):
    """True when the captured objective is exactly 'maximise the objective variable' (slot 25), as Model/LP.v says"""
    return obj is not None and obj["sense"] == -1 and obj.get("constant", 0.0) == 0.0 and \
        [[int(a), int(b), float(c)] for a, b, c in obj["terms"]] == [[25, 0, 1.0]]


def solve_rows(rows, want_duals=False, objective=None):
    """re-solve the rows captured from the code's own PuLP model with HiGHS, all variables >= 0, maximising the
    captured first objective when one is given (else slot 25 = the objective variable).  -> (status, optimum).
    Used to tell a CBC precision gap from a wrong formulation."""
    idx = {}
    for _s, _b, terms in rows:
        for sl, m, _c in terms:
            idx.setdefault((sl, m), len(idx))
    if objective is not None:
        for sl, m, _c in objective["terms"]:
            idx.setdefault((int(sl), int(m)), len(idx))
    if (25, 0) not in idx:
        return (9, None, None) if want_duals else (9, None)
    nv = len(idx)
    A_ub, b_ub, A_eq, b_eq = [], [], [], []
    for sense, rhs, terms in rows:
        t = [(idx[(sl, m)], c) for sl, m, c in terms]
        if sense == 0:
            A_eq.append(t); b_eq.append(rhs)
        elif sense < 0:
            A_ub.append(t); b_ub.append(rhs)
        else:
            A_ub.append([(j, -c) for j, c in t]); b_ub.append(-rhs)

    def mat(rs):
        A = lil_matrix((len(rs), nv))
        for i, terms in enumerate(rs):
            for j, co in terms:
                A[i, j] += co
        return A.tocsr()
    c = np.zeros(nv)
    if objective is not None and not want_duals:
        sign = -1.0 if objective["sense"] == -1 else 1.0     # linprog minimises
        for sl, m, co in objective["terms"]:
            c[idx[(int(sl), int(m))]] += sign * float(co)
    else:
        c[idx[(25, 0)]] = -1.0
    res = linprog(c, A_ub=mat(A_ub) if A_ub else None, b_ub=np.array(b_ub) if A_ub else None,
                  A_eq=mat(A_eq) if A_eq else None, b_eq=np.array(b_eq) if A_eq else None,
                  bounds=[(0.0, None)] * nv, method="highs",
                  options={"dual_feasibility_tolerance": 1e-10, "primal_feasibility_tolerance": 1e-10} if want_duals else None)
    if res.status != 0:
        return (res.status, None, None) if want_duals else (res.status, None)
    if not want_duals:
        return 0, float(-res.fun)
    # multipliers of the MAXIMISATION problem, one per captured row, in captured order:
    #   Le rows y >= 0, Ge rows y <= 0, Eq rows free  (HiGHS reports sensitivities of the minimised -Obj)
    y = []
    ie = iu = 0
    em = res.eqlin.marginals if A_eq else []
    um = res.ineqlin.marginals if A_ub else []
    for sense, _rhs, _terms in rows:
        if sense == 0:
            y.append(float(-em[ie])); ie += 1
        elif sense < 0:
            y.append(float(-um[iu])); iu += 1
        else:
            y.append(float(um[iu])); iu += 1
    return 0, float(-res.fun), y
