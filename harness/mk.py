"""locked make of the Coq project:  python3-vt harness/mk.py [targets...]   (targets relative to coq/, e.g. Props/C10.vo)"""
import sys, os
sys.path.insert(0, os.path.dirname(__file__))
import lib
ok, bad, out = lib.coq_make(sys.argv[1:], timeout=3000)
print(out[-6000:])
print("BUILD OK" if ok else f"BUILD FAILED at {bad}")
sys.exit(0 if ok else 1)
