"""Pools of (country, scenario option) instances used by the run-level checks (C01-C05, C12, C14, C16).
All random choices come from the rng handed in (derived from VERIF_SEED)."""

FAMILIES = {
    "scenario": ["no_resilient_foods", "all_resilient_foods", "all_resilient_foods_and_more_area", "seaweed", "methane_scp",
                 "cellulosic_sugar", "relocated_crops", "greenhouse", "industrial_foods"],
    "ratio_stocks_untouched": ["zero", "baseline", "no_stored_between_years", "baseline_no_stored_between_years"],
    "shutoff": ["immediate", "one_month_delayed_shutoff", "short_delayed_shutoff", "long_delayed_shutoff", "continued",
                "continued_after_10_percent_fed", "long_delayed_shutoff_after_10_percent_fed"],
    "waste": ["zero", "tripled_prices_in_country", "doubled_prices_in_country", "baseline_in_country"],
    "nutrition": ["baseline", "catastrophe"],
    "intake_constraints": ["enabled", "disabled_for_humans"],
    "meat_strategy": ["reduce_breeding", "baseline_breeding", "feed_only_ruminants"],
    "cull": ["do_eat_culled", "dont_eat_culled"],
    "stored_food": ["baseline", "zero"],
    "seasonality": ["country", "no_seasonality"],
    "grasses": ["baseline", "country_nuclear_winter", "all_crops_die_instantly"],
    "fish": ["zero", "nuclear_winter", "baseline"],
    "crop_disruption": ["zero", "country_nuclear_winter", "all_crops_die_instantly"],
}

BASE_OPTION = {
    "title": "verif", "scale": "country", "seasonality": "country", "grasses": "country_nuclear_winter",
    "crop_disruption": "country_nuclear_winter", "scenario": "no_resilient_foods", "fish": "nuclear_winter",
    "waste": "baseline_in_country", "nutrition": "catastrophe", "intake_constraints": "enabled",
    "stored_food": "baseline", "ratio_stocks_untouched": "zero", "shutoff": "long_delayed_shutoff",
    "cull": "do_eat_culled", "fat": "not_required", "protein": "not_required",
    "meat_strategy": "reduce_breeding", "NMONTHS": 120,
}

BASELINE_OPTION = dict(BASE_OPTION, grasses="baseline", crop_disruption="zero", fish="baseline", nutrition="baseline",
                       shutoff="continued", meat_strategy="baseline_breeding", ratio_stocks_untouched="baseline")

# (the *_globally values of waste / grasses / crop_disruption need scale: global and are exercised by C13 / C16)
# a spread of sizes / climates / coasts; the known-awkward small countries are included on purpose
COUNTRIES = ["ARG", "USA", "IND", "CHN", "BRA", "NGA", "LSO", "DJI", "JPN", "NZL", "AUS", "RUS", "CAN", "GBR", "FRA", "DEU",
             "ZAF", "EGY", "IDN", "MEX", "NOR", "CHE", "MNG", "BGD", "ETH", "SLV", "ECU", "CMR", "LVA", "GNB", "PRY", "KOR",
             "SAU", "TUR", "UKR", "VNM", "PAK", "COL", "KEN", "PER", "THA", "MLI", "BLR", "GEO", "MDA", "TWN", "SWT", "HTI"]


def option(**kw):
    o = dict(BASE_OPTION)
    o.update(kw)
    return o


def random_option(rng, nchanges=None, horizons=(120,)):
    """BASE (nuclear winter) or BASELINE climate with a few families re-drawn"""
    o = dict(BASE_OPTION if rng.random() < 0.65 else BASELINE_OPTION)
    k = nchanges if nchanges is not None else rng.choice([1, 2, 2, 3, 4])
    for fam in rng.sample(sorted(FAMILIES), k):
        o[fam] = rng.choice(FAMILIES[fam])
    o["NMONTHS"] = rng.choice(list(horizons))
    return o


def sample_runs(rng, n, countries=None, horizons=(120,), must=()):
    """n (iso3, option) pairs; `must` = options that are always included (with a drawn country each)"""
    cs = list(countries or COUNTRIES)
    out = []
    for o in must:
        out.append({"iso3": rng.choice(cs), "option": dict(o)})
    while len(out) < n:
        out.append({"iso3": rng.choice(cs), "option": random_option(rng, horizons=horizons)})
    return out[:max(n, len(must))]
