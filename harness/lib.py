"""Shared machinery of the /verif checks (driver side; runs under python3-vt)."""
import fcntl
import hashlib
import json
import math
import os
import random
import re
import subprocess
import sys
import time
from concurrent.futures import ThreadPoolExecutor
from fractions import Fraction

VERIF = "/verif"
REPO = os.environ.get("VERIF_REPO", "/repo")
COQ = os.path.join(VERIF, "coq")
HARNESS = os.path.join(VERIF, "harness")
IMPL_PY = "/venv/bin/python"
GUARD = "ALLFED_INTEGRATED_MODEL_VERIF"
NCPU = min(16, os.cpu_count() or 4)

sys.path.insert(0, HARNESS)
from pyexpr import TranslatorRejected  # noqa: E402

ALLOWED_AXIOMS = set()  # the development is expected to be closed under the global context


# ----------------------------------------------------------------------------- encoding

def fq(x):
    """exact Coq term (type Q) for a Python number (float / int / Fraction)."""
    if isinstance(x, bool):
        raise ValueError("bool")
    if isinstance(x, Fraction):
        if x.denominator == 1:
            x = int(x)
        else:
            n, d = x.numerator, x.denominator
            return f"(({n})#{d})"
    if isinstance(x, int):
        if abs(x) < 2 ** 62:
            return f"(zq {'true' if x < 0 else 'false'} {abs(x)}%uint63)"
        return f"(({x})#1)"
    x = float(x)
    if math.isnan(x) or math.isinf(x):
        raise ValueError("non-finite float cannot be encoded")
    if x == 0:
        return "(zq false 0%uint63)"
    m, e = math.frexp(abs(x))
    mi = int(m * (1 << 53))
    e -= 53
    while mi % 2 == 0:
        mi //= 2
        e += 1
    if abs(e) >= 2 ** 20:
        raise ValueError("exponent out of range")
    return f"(fq {'true' if x < 0 else 'false'} {mi}%uint63 {abs(e)}%uint63 {'true' if e < 0 else 'false'})"


def fql(xs):
    return "[" + "; ".join(fq(x) for x in xs) + "]"


def cstr(s):
    return '"' + s.replace('"', '""') + '"'


def cbool(b):
    return "true" if b else "false"


def cnat(n):
    return f"{int(n)}%nat"


def clist(items):
    return "[" + "; ".join(items) + "]"


def hexf(x):
    return float(x).hex()


# ----------------------------------------------------------------------------- known findings

def load_known():
    p = os.path.join(VERIF, "known_findings.json")
    if not os.path.exists(p):
        return {"findings": [], "fixed": []}
    return json.load(open(p))


# ----------------------------------------------------------------------------- context

class Ctx:
    def __init__(self, pid, tier, seed):
        self.pid, self.tier, self.seed = pid, tier, seed
        self.t0 = time.time()
        self.rng = random.Random(seed * 1000003 + int(hashlib.sha256(pid.encode()).hexdigest()[:8], 16))
        # a run against a scratch copy of the repository (mutation testing) uses its own work directory, so that it can
        # run next to a check of the same property against /repo
        self.work = os.path.join(VERIF, "work", pid + ("_scratch" if REPO != "/repo" else ""))
        subprocess.run(["rm", "-rf", self.work])
        os.makedirs(self.work, exist_ok=True)
        self.violations = []      # dicts
        self.known_seen = []      # dicts from known_findings
        self.obligations = []     # (theorem, closed?, axioms)
        self.evaluations = 0
        self.nontrivial = set()
        self.samples = []
        self.notes = {}
        self.trusted = []
        self.assumptions = []
        self.level = "proof"
        self.rule = ""
        self.traces = 0
        self.proof_ok = True
        self.tie_ok = True
        self.broken = []          # names of theorems / correspondences that no longer check
        self.known = [f for f in load_known()["findings"] if f["property"] == pid]
        self.checker_cmd = ""
        self.extra_cov = {}

    @property
    def quick(self):
        return self.tier == "quick"

    def log(self, *a):
        print(f"[{self.pid} {time.time() - self.t0:6.1f}s]", *a, flush=True)

    # ---- counting
    def count(self, case_key=None, nontrivial=True, n=1):
        self.evaluations += n
        if case_key is not None and nontrivial:
            self.nontrivial.add(hashlib.sha1(repr(case_key).encode()).hexdigest()[:16])

    def sample(self, obj, limit=6):
        if len(self.samples) < limit:
            self.samples.append(obj)

    # ---- translators
    def regen(self, modules):
        """run the named gen_* translators; returns True when all accepted the source"""
        ok = True
        os.makedirs(os.path.join(COQ, "Gen"), exist_ok=True)
        for m in modules:
            try:
                mod = __import__(m)
                info = mod.main(REPO, os.path.join(COQ, "Gen"))
                self.notes.setdefault("translators", {})[m] = info
            except TranslatorRejected as e:
                ok = False
                self.tie_ok = False
                self.broken.append(f"translator {m}: {e}")
                self.log("translator rejected:", e)
            except Exception as e:  # parse errors etc.
                ok = False
                self.tie_ok = False
                self.broken.append(f"translator {m} crashed: {type(e).__name__}: {e}")
                self.log("translator crashed:", repr(e))
        return ok

    # ---- Coq build
    def build(self, targets, timeout=1500):
        """make the given .vo targets (relative to coq/).  Returns (ok, failing_file, log)"""
        ok, bad, out = coq_make(targets, timeout)
        if not ok:
            self.log("coq build failed at", bad)
        return ok, bad, out

    def check_props(self, vfile=None, timeout=900):
        """(re)compile Props/<pid>.v capturing Print Assumptions; fills self.obligations"""
        vfile = vfile or f"Props/{self.pid}.v"
        self.checker_cmd = f"cd {COQ} && make {vfile}o && coqc -Q . Allfed {vfile}  (Coq 8.16.1 kernel, full .vo build)"
        if not os.path.exists(os.path.join(COQ, vfile)):
            self.proof_ok = False
            self.broken.append(f"{vfile} does not exist")
            return False
        names = theorem_names(os.path.join(COQ, vfile))
        ok, bad, out = coq_make([vfile + "o"], timeout)
        if not ok:
            self.proof_ok = False
            self.broken.append(f"coq build failed at {bad}: {out[-600:]}")
            self.obligations = [(n, False, ["<not compiled>"]) for n in names]
            return False
        p = run(["coqc", "-Q", ".", "Allfed", "-w", "-all", "-o", os.path.join(self.work, os.path.basename(vfile) + "o"), vfile], cwd=COQ,
                timeout=timeout)
        if p.returncode != 0:
            self.proof_ok = False
            self.broken.append(f"coqc {vfile}: {p.stdout[-600:]} {p.stderr[-600:]}")
            self.obligations = [(n, False, ["<not compiled>"]) for n in names]
            return False
        blocks = parse_assumptions(p.stdout)
        if len(blocks) != len(names):
            self.proof_ok = False
            self.broken.append(f"{vfile}: {len(names)} theorems but {len(blocks)} Print Assumptions blocks")
        self.obligations = []
        for n, ax in zip(names, blocks):
            closed = all(a in ALLOWED_AXIOMS for a in ax)
            if not closed:
                self.proof_ok = False
                self.broken.append(f"theorem {n} depends on axioms {ax}")
            self.obligations.append((n, closed, ax))
        return self.proof_ok

    # ---- implementation side
    def run_impl(self, script, payload, timeout=3000, env_extra=None):
        inp = os.path.join(self.work, f"in_{script}_{len(os.listdir(self.work))}.json")
        outp = inp.replace("in_", "out_")
        json.dump(payload, open(inp, "w"))
        env = dict(os.environ)
        env.update({"PYTHONPATH": REPO + ":" + os.path.join(HARNESS, "impl"), "PYTHONHASHSEED": "0", "MPLBACKEND": "Agg",
                    GUARD: "1", "VERIF_WORK": self.work, "OMP_NUM_THREADS": "1", "OPENBLAS_NUM_THREADS": "1"})
        if env_extra:
            env.update(env_extra)
        p = subprocess.run([IMPL_PY, os.path.join(HARNESS, "impl", script + ".py"), inp, outp], cwd=REPO, env=env,
                           stdout=subprocess.PIPE, stderr=subprocess.STDOUT, text=True, timeout=timeout)
        open(os.path.join(self.work, f"log_{script}.txt"), "a").write(p.stdout)
        if p.returncode != 0 or not os.path.exists(outp):
            raise ImplCrashed(script, p.stdout[-3000:])
        return json.load(open(outp))

    # ---- model evaluation (cases compared inside Coq)
    def coq_codes(self, name, imports, cases, per_file=250, timeout=1200, defs=""):
        """cases: list of Coq terms of type nat.  Returns list of ints (one per case).
        Each file checks dec_selftest first."""
        if not cases:
            return []
        specs = [(defs, cases[k:k + per_file]) for k in range(0, len(cases), per_file)]
        out = self.coq_codes_files(name, imports, specs, timeout=timeout)
        return [c for grp in out for c in grp]

    def coq_codes_files(self, name, imports, specs, timeout=1200):
        """specs: list of (defs_text, [terms of type nat]); one case file per spec, evaluated in parallel.
        Returns a list (per spec) of lists of ints."""
        if not specs:
            return []
        files = []
        for k, (defs, chunk) in enumerate(specs):
            fn = os.path.join(self.work, f"{name}_{k}.v")
            with open(fn, "w") as f:
                f.write("From Coq Require Import QArith List String Uint63 Bool ZArith.\n")
                f.write("From Allfed Require Import Base.Dec.\n")
                f.write(imports + "\nImport ListNotations.\nOpen Scope Q_scope.\nOpen Scope string_scope.\n")
                f.write(defs + "\n")
                for i, c in enumerate(chunk):
                    f.write(f"Definition case_{i} : nat := {c}.\n")
                f.write("Definition codes : list nat := [" + "; ".join(f"case_{i}" for i in range(len(chunk))) + "].\n")
                f.write("Eval vm_compute in (dec_selftest, codes).\n")
            files.append((fn, len(chunk)))

        def one(spec):
            fn, n = spec
            p = run(["coqc", "-Q", COQ, "Allfed", "-w", "-all", fn], cwd=self.work, timeout=timeout)
            return fn, n, p

        res = []
        with ThreadPoolExecutor(max_workers=NCPU) as ex:
            outs = list(ex.map(one, files))
        for fn, n, p in outs:
            if p.returncode != 0:
                raise CoqEvalFailed(fn, (p.stdout + p.stderr)[-3000:])
            txt = p.stdout.replace("\n", " ")
            m = re.search(r"=\s*\((true|false),\s*\[(.*?)\]\s*\)", txt)
            if not m:
                raise CoqEvalFailed(fn, "unparsable output: " + txt[-500:])
            if m.group(1) != "true":
                raise CoqEvalFailed(fn, "decode self-test failed")
            codes = [int(t) for t in re.findall(r"\d+", m.group(2))]
            if len(codes) != n:
                raise CoqEvalFailed(fn, f"{len(codes)} results for {n} cases")
            res.append(codes)
        return res

    # ---- reporting
    def violation(self, key, what, replay, no_input=False):
        """register a violation (or a known finding when `key` is listed)."""
        for f in self.known:
            if f["key"] == key:
                if f not in self.known_seen:
                    self.known_seen.append(f)
                return "known"
        for v in self.violations:
            if v["key"] == key:          # one replay per distinct key; count the repeats
                v["count"] = v.get("count", 1) + 1
                return "new"
        self.violations.append({"key": key, "what": what, "replay": replay, "no_input": no_input})
        return "new"

    def finish(self):
        from evidence import write_evidence
        code = 0
        # a broken proof / tie without any concrete violation still is a violation
        if (not self.proof_ok or not self.tie_ok) and not self.violations:
            self.violations.append({"key": "unchecked", "what": "; ".join(self.broken)[:2000],
                                    "replay": {"kind": "proof-broken" if not self.proof_ok else "tie-broken",
                                               "no_longer_checks": self.broken}, "no_input": True})
        for f in self.known_seen:
            print(f"KNOWN-FINDING: property={self.pid} {f['key']}: {f['what']}")
        rdir = os.path.join(VERIF, "replay", self.pid)
        if REPO != "/repo":
            rdir = os.path.join(self.work, "replay_scratch_repo")
        os.makedirs(rdir, exist_ok=True)
        for i, v in enumerate(self.violations):
            path = os.path.join(rdir, f"{self.tier}_{self.seed}_{i}.json")
            rep = dict(v["replay"]) if isinstance(v["replay"], dict) else {"data": v["replay"]}
            rep.update({"property": self.pid, "key": v["key"], "what": v["what"], "seed": self.seed, "tier": self.tier,
                        "broken": self.broken})
            json.dump(rep, open(path, "w"), indent=1, default=str)
            tail = " no-failing-input-found" if v["no_input"] else ""
            print(f"VIOLATION property={self.pid} replay={path}{tail}")
            print(f"  ({v['key']}: {v['what'][:300]})")
            code = 1
        write_evidence(self)
        self.log(f"done: exit {code}; evaluations={self.evaluations} nontrivial={len(self.nontrivial)} "
                 f"obligations={len(self.obligations)} violations={len(self.violations)} known={len(self.known_seen)}")
        return code


class ImplCrashed(Exception):
    def __init__(self, script, out):
        super().__init__(f"implementation runner {script} crashed:\n{out}")
        self.script, self.out = script, out


class CoqEvalFailed(Exception):
    def __init__(self, fn, out):
        super().__init__(f"coq evaluation failed for {fn}:\n{out}")
        self.fn, self.out = fn, out


# ----------------------------------------------------------------------------- coq helpers

def run(cmd, cwd=None, timeout=1200, env=None):
    try:
        return subprocess.run(["timeout", str(timeout)] + cmd, cwd=cwd, stdout=subprocess.PIPE, stderr=subprocess.PIPE,
                              text=True, env=env)
    except Exception as e:  # pragma: no cover
        class P:
            returncode = 99
            stdout = ""
            stderr = repr(e)
        return P()


def ensure_makefile():
    mk = os.path.join(COQ, "Makefile")
    cp = os.path.join(COQ, "_CoqProject")
    if not os.path.exists(mk) or os.path.getmtime(mk) < os.path.getmtime(cp):
        p = run(["coq_makefile", "-f", "_CoqProject", "-o", "Makefile"], cwd=COQ)
        if p.returncode != 0:
            raise RuntimeError("coq_makefile failed: " + p.stderr)


def coq_make(targets, timeout=1500):
    os.makedirs(os.path.join(VERIF, "work"), exist_ok=True)
    with open(os.path.join(VERIF, ".lock"), "w") as lk:
        fcntl.flock(lk, fcntl.LOCK_EX)
        try:
            ensure_makefile()
            p = run(["make", f"-j{NCPU}"] + list(targets), cwd=COQ, timeout=timeout)
        finally:
            fcntl.flock(lk, fcntl.LOCK_UN)
    out = p.stdout + p.stderr
    if p.returncode == 0:
        return True, None, out
    m = re.findall(r'File "\./([^"]+)", line (\d+)', out)
    bad = f"{m[-1][0]}:{m[-1][1]}" if m else "?"
    return False, bad, out


def theorem_names(vfile):
    txt = open(vfile).read()
    return re.findall(r"^Theorem\s+([A-Za-z0-9_']+)", txt, flags=re.M)


def parse_assumptions(out):
    """split coqc output into one axiom list per Print Assumptions command"""
    blocks = []
    cur = None
    for line in out.splitlines():
        if line.startswith("Closed under the global context"):
            if cur is not None:
                blocks.append(cur)
                cur = None
            blocks.append([])
        elif line.startswith("Axioms:"):
            if cur is not None:
                blocks.append(cur)
            cur = []
        elif cur is not None:
            m = re.match(r"^([A-Za-z0-9_.']+)\s*:", line)
            if m:
                cur.append(m.group(1))
            elif line.strip() == "" or not line.startswith(" "):
                if line.strip() and not line.startswith(" "):
                    # some other output: close the block
                    blocks.append(cur)
                    cur = None
    if cur is not None:
        blocks.append(cur)
    return blocks


def hygiene():
    """forbidden constructs anywhere in the development"""
    pat = r"\bAdmitted\b|\badmit\b|\bAxiom\b|\bAxioms\b|\bParameter\b|\bParameters\b|\bConjecture\b|Unset Guard|bypass_check|type-in-type|impredicative-set|Admit Obligations|\bnative_compute\b"
    bad = []
    for root, _, files in os.walk(COQ):
        for f in files:
            if f.endswith(".v") or f == "_CoqProject":
                p = os.path.join(root, f)
                txt = open(p).read()
                # strip comments (non-nested is enough for our files)
                txt2 = re.sub(r"\(\*.*?\*\)", "", txt, flags=re.S)
                for m in re.finditer(pat, txt2):
                    bad.append(f"{p}: {m.group(0)}")
                if re.search(r"^\s*(Variable|Hypothesis|Variables|Hypotheses)\b", txt2, flags=re.M):
                    # allowed only inside sections
                    depth = 0
                    for line in txt2.splitlines():
                        if re.match(r"\s*Section\b", line):
                            depth += 1
                        elif re.match(r"\s*End\b", line) and depth > 0:
                            depth -= 1
                        elif re.match(r"\s*(Variable|Hypothesis|Variables|Hypotheses)\b", line) and depth == 0:
                            bad.append(f"{p}: {line.strip()} outside a section")
    return bad
