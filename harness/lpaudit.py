"""Direct audits of a solved allocation against the SUPPLIES (no model): the clauses of C01, evaluated on the
final variable values captured from the real Optimizer.  Pure Python on the captured JSON."""

SF_start, SF_end, SF_h, SF_f, SF_b = 0, 1, 2, 3, 4
SCP_h, SCP_f, SCP_b = 5, 6, 7
CS_h, CS_f, CS_b = 8, 9, 10
M_start, M_end, M_eaten = 11, 12, 13
CR_storage, CR_consumed, CR_h, CR_f, CR_b = 14, 15, 16, 17, 18
SW_wet, SW_h, SW_f, SW_b, SW_area = 19, 20, 21, 22, 23
Consumed, Obj = 24, 25

KNOWN_UNUSED_STOCK = "C01:stored-food-left-unused@optimizer.add_stored_food_to_model_only_first_year"


def gross(w):
    return 1.0 / (1.0 - w / 100.0)


def series(vals, sid, n):
    v = vals.get(str(sid), vals.get(sid)) or []
    v = list(v) + [0.0] * (n - len(v))
    return v[:n]


def audit_c01(rec, rtol=1e-6):
    """-> list of (key, what, detail).  rec = captured solve (lp_in, values)."""
    d, vals = rec["lp_in"], rec["values"]
    n, ty = d["NM"], rec["ty"]
    out = []
    g = lambda sid: series(vals, sid, n)

    def bad(key, what, **detail):
        out.append((key, what, detail))

    # ---- no negative quantity
    for sid in range(0, 26):
        for m, x in enumerate(g(sid)):
            if x < -rtol * (1 + abs(x)) - 1e-7:
                bad("C01:negative-quantity", f"slot {sid} month {m} = {x}", slot=sid, month=m, value=x)
                break
    # ---- stored food
    if d["add_sf"]:
        k = gross(d["w_sf"])
        h, f, b = g(SF_h), g(SF_f), g(SF_b)
        cum = 0.0
        tol = rtol * (1 + d["sf0"])
        for m in range(n):
            cum += h[m] * k + f[m] + b[m]
            if cum > d["sf0"] + tol * (m + 1):
                bad("C01:stored-food-overdrawn", f"cumulative stored-food use {cum} > stock {d['sf0']} at month {m}",
                    month=m, cumulative=cum, stock=d["sf0"])
                break
            if (not d["store_years"]) and m > 12 and (h[m] + f[m] + b[m]) > tol:
                bad("C01:stored-food-used-after-first-year", f"month {m}", month=m)
                break
        if ty == "to_humans" and n >= 2 and abs(cum - d["sf0"]) > tol * n:
            if d["store_years"]:
                bad("C01:stored-food-not-fully-used", f"used {cum} of {d['sf0']}", used=cum, stock=d["sf0"])
            else:
                bad(KNOWN_UNUSED_STOCK, f"used {cum} of {d['sf0']} (first-year-only regime)", used=cum, stock=d["sf0"])
    # ---- crops
    if d["add_cr"]:
        k = gross(d["w_cr"])
        h, f, b = g(CR_h), g(CR_f), g(CR_b)
        cum = cp = 0.0
        total = sum(d["crops_prod"])
        tol = rtol * (1 + total)
        for m in range(n):
            cum += h[m] * k + f[m] + b[m]
            cp += d["crops_prod"][m]
            if cum > cp + tol * (m + 1):
                bad("C01:crops-eaten-before-harvest", f"cumulative crop use {cum} > harvested {cp} at month {m}",
                    month=m, cumulative=cum, harvested=cp)
                break
        if ty == "to_humans" and n >= 2 and abs(cum - cp) > tol * n:
            bad("C01:crops-not-fully-used", f"used {cum} of {cp}", used=cum, harvested=cp)
    # ---- meat
    if d["add_meat"]:
        k = gross(d["w_meat"])
        e = g(M_eaten)
        tol = rtol * (1 + max([abs(x) for x in d["meat_running"]] + [abs(d["meat_total"])]))
        cum = 0.0
        for m in range(n):
            cum += e[m] * k
            if d["store_years"]:
                if cum > d["meat_running"][m] + tol * (m + 1):
                    bad("C01:meat-eaten-before-slaughter",
                        f"cumulative meat use {cum} > slaughtered so far {d['meat_running'][m]} at month {m}",
                        month=m, cumulative=cum, slaughtered=d["meat_running"][m])
                    break
                if cum > d["meat_total"] + tol * (m + 1):
                    bad("C01:meat-total-exceeded", f"month {m}", month=m, cumulative=cum, total=d["meat_total"])
                    break
            else:
                if e[m] * k > d["meat_monthly"][m] + tol:
                    bad("C01:meat-eaten-exceeds-month-slaughter", f"month {m}: {e[m] * k} > {d['meat_monthly'][m]}",
                        month=m)
                    break
    # ---- monthly foods
    for tag, sh, sf_, sb, name in (("scp", SCP_h, SCP_f, SCP_b, "single-cell-protein"), ("cs", CS_h, CS_f, CS_b, "cellulosic-sugar")):
        if d["add_" + tag]:
            k = gross(d["w_" + tag])
            h, f, b = g(sh), g(sf_), g(sb)
            prod = d[tag + "_prod"]
            for m in range(n):
                use = h[m] * k + f[m] + b[m]
                if use > prod[m] + rtol * (1 + abs(prod[m])):
                    bad(f"C01:{name}-use-exceeds-output", f"month {m}: {use} > {prod[m]}", month=m, use=use, output=prod[m])
                    break
    # ---- seaweed
    if d["add_sw"]:
        k = gross(d["w_sw"])
        wet, h, f, b, area = g(SW_wet), g(SW_h), g(SW_f), g(SW_b), g(SW_area)
        for m in range(n):
            cap = d["sw_max_density"] * d["built_area"][m]
            tol = rtol * (1 + abs(cap) + abs(d["sw_init"]))
            if wet[m] < d["sw_init"] - tol or wet[m] > cap + tol:
                bad("C01:seaweed-outside-density-bounds", f"month {m}: {wet[m]} not in [{d['sw_init']}, {cap}]", month=m)
                break
            if area[m] < d["sw_init_area"] - tol or area[m] > d["built_area"][m] + tol:
                bad("C01:seaweed-area-outside-bounds", f"month {m}", month=m)
                break
            if m == 0:
                if abs(wet[0] - d["sw_init"]) > tol or abs(area[0] - d["sw_init_area"]) > tol or h[0] + f[0] + b[0] > tol:
                    bad("C01:seaweed-month0", "month 0 values", month=0)
                    break
            else:
                exp = (wet[m - 1] * (1 + d["growth"][m] / 100.0) - h[m] * k - f[m] - b[m]
                       - (area[m] - area[m - 1]) * d["sw_min_density"] * d["sw_harvest_loss"] / 100.0)
                lt = rtol * (1 + abs(wet[m - 1] * (1 + d["growth"][m] / 100.0)) + abs(wet[m]))
                if abs(wet[m] - exp) > lt:
                    bad("C01:seaweed-ledger", f"month {m}: wet {wet[m]} vs ledger {exp}", month=m, wet=wet[m], ledger=exp)
                    break
    # ---- feed / biofuel totals
    sk = d["sw_kcals"]
    feed = [a + b_ + c * sk + e_ + f_ for a, b_, c, e_, f_ in zip(g(SF_f), g(CR_f), g(SW_f), g(CS_f), g(SCP_f))]
    bio = [a + b_ + c * sk + e_ + f_ for a, b_, c, e_, f_ in zip(g(SF_b), g(CR_b), g(SW_b), g(CS_b), g(SCP_b))]
    has = d["add_sf"] or d["add_cr"] or d["add_sw"] or d["add_cs"] or d["add_scp"]
    if has:
        if ty == "to_humans":
            for m in range(n):
                for nm, got, want in (("feed", feed[m], d["feed_charge"][m]), ("biofuel", bio[m], d["biofuel_charge"][m])):
                    if abs(got - want) > rtol * (1 + abs(want)):
                        bad(f"C01:{nm}-total-differs-from-charge", f"month {m}: {got} vs charged {want}", month=m)
                        break
        else:
            for m in range(n):
                if feed[m] > d["max_feed"][m] + rtol * (1 + abs(d["max_feed"][m])):
                    bad("C01:feed-above-ceiling", f"month {m}: {feed[m]} > {d['max_feed'][m]}", month=m)
                    break
                if bio[m] > d["max_biofuel"][m] + rtol * (1 + abs(d["max_biofuel"][m])):
                    bad("C01:biofuel-above-ceiling", f"month {m}: {bio[m]} > {d['max_biofuel'][m]}", month=m)
                    break
                if m > 0 and feed[m] > feed[m - 1] + rtol * (1 + abs(feed[m - 1])):
                    bad("C01:feed-rises", f"month {m}: {feed[m]} > {feed[m - 1]}", month=m)
                    break
    return out


def tightness(rec):
    """a few booleans describing which constraints are tight (used for the non-triviality count)"""
    d, vals = rec["lp_in"], rec["values"]
    n = d["NM"]
    g = lambda sid: series(vals, sid, n)
    t = []
    if d["add_sf"]:
        t.append(("sf_used", sum(g(SF_h)) > 0))
    if d["add_cr"]:
        t.append(("cr_stored", max(g(CR_storage) + [0]) > 0))
    if d["add_meat"]:
        t.append(("meat", sum(g(M_eaten)) > 0))
    if d["add_sw"]:
        t.append(("sw", sum(g(SW_h)) > 0))
    if d["add_scp"]:
        t.append(("scp", sum(g(SCP_h)) > 0))
    return tuple(t)


REPORTED_SLOTS = {"stored_food_feed": SF_f, "stored_food_biofuels": SF_b, "outdoor_crops_feed": CR_f,
                  "outdoor_crops_biofuels": CR_b, "scp_feed": SCP_f, "scp_biofuels": SCP_b, "cell_sugar_feed": CS_f,
                  "cell_sugar_biofuels": CS_b, "seaweed_feed": SW_f, "seaweed_biofuels": SW_b}


def audit_reported(rec, rtol=1e-6):
    """the property is about what is REPORTED: the interpreter's per-source feed / biofuel series (percent people fed
    each month) must be the solved allocation of that very source, and the reported use of single-cell protein and
    cellulosic sugar must stay within that month's output.  -> list of (key, what, detail)"""
    rep = rec.get("reported")
    if not rep or "capture_error" in rep:
        return []
    d, vals = rec["lp_in"], rec["values"]
    n = d["NM"]
    out = []
    to_bk = d["need"] / 100.0            # percent of the monthly need -> billion kcals
    conv = {}
    for name, slot in REPORTED_SLOTS.items():
        r = rep.get(name)
        if r is None:
            continue
        if "percent people fed" not in r["units"]:
            out.append(("C01:reported-series-units", f"{name} is reported in '{r['units']}'", {"series": name}))
            continue
        xs = [x * to_bk for x in r["kcals"]]
        conv[name] = xs
        k = d["sw_kcals"] if slot in (SW_f, SW_b) else 1.0
        sol = [v * k for v in series(vals, slot, n)]
        scale = 1.0 + max([abs(v) for v in sol] + [abs(v) for v in xs])
        for m in range(min(n, len(xs))):
            if abs(xs[m] - sol[m]) > rtol * scale:
                out.append(("C01:reported-differs-from-solution",
                            f"{name} month {m}: reported {xs[m]} billion kcals, the solved allocation of that source is {sol[m]}",
                            {"series": name, "month": m, "reported": xs[m], "solved": sol[m]}))
                break
    # ---- no reported quantity is negative (percent-people-fed series; rounding of the report is 3 decimals at most)
    for name in ("stored_food", "outdoor_crops", "seaweed", "cell_sugar", "scp", "greenhouse", "fish", "meat", "milk",
                 "immediate_outdoor_crops", "new_stored_outdoor_crops", "immediate_outdoor_crops_kcals_equivalent") + tuple(REPORTED_SLOTS):
        r = rep.get(name)
        if r is None:
            continue
        # beyond solver noise: LP values are exact to about 1e-7 billion kcals (also on the wrong side of 0); in percent of the
        # monthly need / in kcals per person per day that is the bound below
        noise = 1e-6 * 100.0 / max(d["need"], 1e-300) * (21.0 if "kcals per person per day" in r["units"] else 1.0)
        top = max([abs(v) for v in r["kcals"]] + [0.0])
        for m, x in enumerate(r["kcals"][:n]):
            if x < -(noise + 1e-9 * top):
                out.append(("C01:reported-negative-quantity", f"{name} month {m}: reported {x} ({r['units']})",
                            {"series": name, "month": m, "value": x}))
                break
    for tag, f, b, prod in (("scp", "scp_feed", "scp_biofuels", "scp_prod"), ("cs", "cell_sugar_feed", "cell_sugar_biofuels", "cs_prod")):
        if f in conv and b in conv:
            for m in range(n):
                used = conv[f][m] + conv[b][m]
                if used > d[prod][m] + rtol * (1 + d[prod][m]):
                    out.append(("C01:reported-use-exceeds-output",
                                f"{tag} month {m}: reported feed + biofuel {used} exceeds that month's output {d[prod][m]}",
                                {"food": tag, "month": m, "reported_use": used, "output": d[prod][m]}))
                    break
    return out
