"""C09 direct audit: every clause of the property evaluated on the implementation alone.

For each constants dictionary: run OutdoorCrops + Greenhouses (through Parameters.init_*), then
 * shape: one finite, non-negative float per month for production / greenhouse crops / area / fraction
 * area: 0 before delay+5, non-decreasing, <= share * cropland; fraction in [0,1]
 * net output == grown x (1 - greenhouse fraction) x (1 - waste), recomputed independently with fractions
   from the inputs (calendar rotation, year blocks, ramp written from the documentation, not from the model)
 * not quantised: float dtype, and scaling the baseline by 1/1024 scales every month by exactly 1/1024
 * relocation on vs off, expansion on vs off: no month lower
"""
import copy
import math
from fractions import Fraction as F
import numpy as np
from implutil import main_io
from c09_impl import run_case

SPECIAL = {"ZAF": 1, "JPN": 0, "PRK": 0, "KOR": 0}
REL = 1e-9


def year_of(m):
    return 0 if m < 8 else min(1 + (m - 8) // 12, 9)


def closed_form(i, pw):
    """production kcals per month from the inputs, exact fractions (pw: float power results)"""
    N = i["N"]
    seas = [F(s) for s in i["seas"]]
    ay = F(i["base"]) * (1 - F(92, 3898))
    jan = [s * ay * 4000000 / 1000000000 for s in seas]
    hbm = F(SPECIAL[i["code"]]) if i["code"] in SPECIAL else sum(seas[:4])
    r1 = F(i["ratios"][0])
    after = max(r1 - hbm, 0)
    if after > 0:
        fa = 1 - hbm
        y1 = F(1) if fa < F(1, 4) else after / fa
    else:
        y1 = F(0)
    table = [y1] + [F(x) for x in i["ratios"][1:]]
    e = i["exp"] if i["rot"] else 1.0

    def power(r):
        if r > 1:
            return r
        if r <= 0:
            return F(0)
        best = min(pw, key=lambda kv: abs(F(kv[0]) - r)) if pw else None
        if best is None or abs(F(best[0]) - r) > F(1, 10 ** 9) * abs(r):
            return F(float(r) ** e)
        return F(best[1])

    total = F(i["gglobal"]) * F(i["gfrac"])
    limit = total * F(i["gmult"]) if i["gadd"] else F(0)
    out, fracs, areas = [], [], []
    for m in range(N):
        cal = (m + i["start"] - 1) % 12
        r = max(table[year_of(m)], 0)
        norel = jan[cal] * r
        grown = jan[cal] * power(r)
        if i["area"] > 1:
            tot = i["years"] * 12
            if m >= tot:
                grown *= F(i["area"])
            elif m >= i["hd"]:
                grown *= 1 + (m - i["hd"]) * (F(i["area"]) - 1) / (tot - i["hd"])
        if i["gadd"] and total != 0:
            k = m - i["gdelay"] - 5
            a = F(0) if k < 0 else min(limit, limit * k / 36)
            fr = a / total
        else:
            a = F(0); fr = F(0)
        areas.append(a); fracs.append(fr)
        if not i["add"]:
            out.append(F(0))
            continue
        g = grown if (i["rot"] and m >= i["hd"] + i["rotdelay"]) else norel
        out.append(g * (1 - fr) * (1 - F(i["wd"]) / 100))
    return out, fracs, areas


def relerr(a, b, scale):
    return abs(a - b) / max(abs(a), abs(b), scale * 1e-3, 1e-300)


def audit_case(c, failures, stats):
    def fail(kind, what, **kw):
        failures.append({"kind": kind, "what": what, "consts": c, "kind_of_failure": kind, **kw})

    r = run_case({"consts": c, "via": "params"})
    stats["cases"] += 1
    if not r["accepted"]:
        stats["rejected"] += 1
        return
    i, o = r["inputs"], r["obs"]
    N = i["N"]
    stats["distinct"] += 1
    # ---- shape
    for key in ("prod", "ghk", "area", "frac"):
        v = o[key]
        stats["checks"] += 1
        if len(v) != N:
            fail("length", f"{key} has {len(v)} values for NMONTHS={N}")
        if any(math.isnan(x) or math.isinf(x) for x in v):
            fail("non-finite", f"{key} contains a non-finite value")
        elif any(x < 0 for x in v) and all(x >= 0 for x in i["ratios"]) and i["gmult"] <= 1:
            fail("negative", f"{key} contains a negative value {min(v)}")
    if not o["prod_dtype"].startswith("float"):
        fail("quantised-dtype", f"production kcals are stored as {o['prod_dtype']}")
    # ---- greenhouse area
    stats["checks"] += 1
    area, frac = o["area"], o["frac"]
    total = i["gglobal"] * i["gfrac"]
    if i["gadd"] and total > 0:
        lim = total * i["gmult"]
        for m in range(min(N, i["gdelay"] + 5)):
            if area[m] != 0:
                fail("area-before-delay", f"greenhouse area {area[m]} in month {m} < delay+5 = {i['gdelay'] + 5}", month=m)
                break
        for m in range(1, len(area)):
            if area[m] < area[m - 1] * (1 - 1e-12):
                fail("area-not-monotone", f"greenhouse area falls from {area[m-1]} to {area[m]} at month {m}", month=m)
                break
        if area and max(area) > lim * (1 + 1e-12):
            fail("area-above-share", f"greenhouse area {max(area)} exceeds share x cropland = {lim}")
        if N > i["gdelay"] + 5 + 36 and relerr(area[i["gdelay"] + 41], lim, lim) > REL:
            fail("area-plateau", f"greenhouse area after the ramp is {area[i['gdelay'] + 41]}, expected {lim}")
        if i["gmult"] <= 1 and any(f < 0 or f > 1 + 1e-12 for f in frac):
            fail("fraction-range", "greenhouse fraction outside [0,1]")
    else:
        if any(a != 0 for a in area) or any(f != 0 for f in frac):
            fail("area-without-greenhouses", "greenhouse area/fraction non-zero although greenhouses are off")
    # ---- net output = grown x (1 - fraction) x (1 - waste): from the implementation's own intermediate series
    stats["checks"] += 1
    if i["add"] and "grown" in o:
        hd = i["hd"] + i["rotdelay"]
        scale = max(max(o["norel"], default=0), max(o["grown"], default=0))
        for m in range(N):
            g = o["grown"][m] if (i["rot"] and m >= hd) else o["norel"][m]
            want = g * (1 - frac[m]) * (1 - i["wd"] / 100)
            if relerr(o["prod"][m], want, scale) > REL:
                fail("net-output", f"month {m}: production {o['prod'][m]!r} but grown x (1-greenhouse fraction) x (1-waste) = {want!r} "
                     f"(grown {g!r}, fraction {frac[m]!r})", month=m)
                break
    # ---- closed form from the inputs (fractions)
    stats["checks"] += 1
    want, wfrac, warea = closed_form(i, r["pw"])
    scale = float(max(want)) if want else 0.0
    for m in range(N):
        if relerr(o["prod"][m], float(want[m]), scale) > REL:
            fail("closed-form", f"month {m}: production {o['prod'][m]!r}, documented function of the inputs gives {float(want[m])!r}", month=m)
            break
    for m in range(N):
        if relerr(area[m], float(warea[m]), float(max(warea)) if warea else 0) > REL:
            fail("area-closed-form", f"month {m}: greenhouse area {area[m]!r}, expected {float(warea[m])!r}", month=m)
            break
    # ---- fat and protein: one non-negative value per month, = crop fraction x kcals
    stats["checks"] += 1
    ay = i["base"] * (1 - 92 / 3898)
    for nm, base in (("fat", i["fat_base"]), ("protein", i["protein_base"])):
        v = o["prod_" + nm]
        frn = (base / 1e3) / (ay * 4e6 / 1e9) if ay != 0 else 0.0
        if len(v) != N or any(math.isnan(x) or math.isinf(x) for x in v):
            fail("shape-" + nm, f"crop {nm} series has {len(v)} values for NMONTHS={N} or a non-finite value")
        elif any(x < 0 for x in v) and all(x >= 0 for x in i["ratios"]) and i["gmult"] <= 1:
            fail("negative-" + nm, f"crop {nm} series contains {min(v)}")
        else:
            sc = max(o["prod"], default=0.0) * frn
            for m in range(N):
                if relerr(v[m], frn * o["prod"][m], sc) > REL:
                    fail("closed-form-" + nm, f"month {m}: crop {nm} {v[m]!r} but fraction x kcals = {frn * o['prod'][m]!r}", month=m)
                    break
        g = o["ghk_" + nm]
        if len(g) != N or any(math.isnan(x) or math.isinf(x) or x < 0 for x in g):
            fail("shape-greenhouse-" + nm, f"greenhouse {nm} series: wrong length, negative or non-finite")
    # ---- pw hypotheses
    for x, v in r["pw"]:
        stats["pw_samples"] += 1
        e = i["exp"] if i["rot"] else 1.0
        if 0 < e <= 1 and not (x <= v * (1 + 1e-15) and v <= 1 + 1e-15):
            fail("pw-hypothesis", f"{x} ** {e} = {v} violates x <= x**e <= 1")
    # ---- no quantisation: exact homogeneity under a dyadic factor (tiny baselines included)
    stats["checks"] += 1
    c2 = copy.deepcopy(c)
    for k in ("BASELINE_CROP_KCALS", "BASELINE_CROP_FAT", "BASELINE_CROP_PROTEIN"):
        c2[k] = c[k] / 1024
    r2 = run_case({"consts": c2, "via": "params"})
    if r2["accepted"]:
        for m in range(N):
            a, b = o["prod"][m] / 1024, r2["obs"]["prod"][m]
            if relerr(a, b, scale / 1024) > 1e-12:
                fail("not-homogeneous", f"month {m}: baseline/1024 gives {b!r}, expected {a!r} (quantised?)", month=m)
                break
        for nm in ("prod_fat", "prod_protein", "ghk", "ghk_fat", "ghk_protein"):
            sc2 = max(o[nm], default=0.0) / 1024
            if len(o[nm]) != len(r2["obs"][nm]) or any(relerr(a / 1024, b, sc2) > 1e-12 for a, b in zip(o[nm], r2["obs"][nm])):
                fail("not-homogeneous-" + nm, f"{nm}: baselines/1024 do not scale the series by 1/1024")
        if any(v > 0 for v in o["prod"]) and 0 < max(r2["obs"]["prod"]) < 1:
            stats["tiny"] += 1
    elif r["accepted"]:
        fail("not-homogeneous", "scaled baseline rejected: " + str(r2["err"]))
    # ---- relocation never lowers output
    e = i["exp"]
    if i["add"] and 0 < e <= 1:
        stats["checks"] += 1
        con, coff = copy.deepcopy(c), copy.deepcopy(c)
        con["OG_USE_BETTER_ROTATION"] = True
        coff["OG_USE_BETTER_ROTATION"] = False
        ron, roff = run_case({"consts": con, "via": "params"}), run_case({"consts": coff, "via": "params"})
        if ron["accepted"] and roff["accepted"]:
            stats["relocation_pairs"] += 1
            for m in range(N):
                if ron["obs"]["prod"][m] < roff["obs"]["prod"][m] * (1 - 1e-12) - 1e-300:
                    fail("relocation-lowers-output", f"month {m}: with relocation {ron['obs']['prod'][m]!r} < without {roff['obs']['prod'][m]!r}", month=m)
                    break
        # ---- expansion never lowers output
        ca, cb = copy.deepcopy(c), copy.deepcopy(c)
        if c["RATIO_INCREASED_CROP_AREA"] <= 1:
            ca["RATIO_INCREASED_CROP_AREA"] = 72 / 39
            ca["NUMBER_YEARS_TAKES_TO_REACH_INCREASED_AREA"] = min(3, N // 12)
        cb["RATIO_INCREASED_CROP_AREA"] = 1
        ra, rb = run_case({"consts": ca, "via": "params"}), run_case({"consts": cb, "via": "params"})
        if ra["accepted"] and rb["accepted"] and ca["NUMBER_YEARS_TAKES_TO_REACH_INCREASED_AREA"] * 12 > ca["INITIAL_HARVEST_DURATION_IN_MONTHS"]:
            stats["expansion_pairs"] += 1
            for m in range(N):
                if ra["obs"]["prod"][m] < rb["obs"]["prod"][m] * (1 - 1e-12) - 1e-300:
                    fail("expansion-lowers-output", f"month {m}: with expansion {ra['obs']['prod'][m]!r} < without {rb['obs']['prod'][m]!r}", month=m)
                    break


PAIRS = [("relocation", "relocated_crops", "no_resilient_foods"),
         ("expansion", "all_resilient_foods_and_more_area", "all_resilient_foods")]


def audit_real_pair(pair, failures, stats):
    """real country row through the real option layer: same options, relocation (or expansion) on vs off"""
    import c08_impl
    for what, scen_on, scen_off in PAIRS:
        runs = []
        for scen in (scen_on, scen_off):
            opt = dict(pair["options"], scenario=scen)
            runs.append(c08_impl.run_case({"kind": "real", "iso3": pair["iso3"], "options": opt}))
        stats["checks"] += 1
        if not all(r.get("crops") for r in runs):
            stats["real_pairs_rejected"] += 1
            continue
        stats["real_pairs"] += 1
        on, off = (r["crops"]["obs"]["prod"] for r in runs)
        low = [m for m in range(min(len(on), len(off))) if on[m] < off[m] * (1 - 1e-12) - 1e-300]
        if low:
            m = low[0]
            failures.append({"kind": what + "-lowers-output", "kind_of_failure": what + "-lowers-output", "real_pair": pair,
                             "what": f"{pair['iso3']} {pair['options'].get('crop_disruption')} CROP_PRODUCTION_MULTIPLIER="
                                     f"{pair['options'].get('CROP_PRODUCTION_MULTIPLIER')} power_law_improvement={pair['options'].get('power_law_improvement')}: scenario {scen_on} gives {on[m]!r} in month {m}, "
                                     f"{scen_off} gives {off[m]!r} ({len(low)} of {len(on)} months lower)", "month": m})


ROUND_NAMES = {3: [("1", "first_round"), ("2", "second_round"), ("3", "third_round")], 1: [("3", "third_round")]}


def three_round_run(spec):
    """full run of one country with every optimiser input captured -> (options, list of lp_in, error)"""
    import runutil
    runutil.redirect_results()
    opt = runutil.presets()[spec["preset"]] if "preset" in spec else copy.deepcopy(spec["options"])
    opt = dict(opt, **spec.get("override", {}))
    try:
        with runutil.OptimizerCapture(want_rows=False) as cap, runutil.quiet():
            runutil.run_country(spec["iso3"], opt)
    except BaseException as e:
        return opt, [], type(e).__name__ + ": " + str(e)[:120]
    bad = [s.get("capture_error") for s in cap.solves if s.get("capture_error")]
    return opt, [s["lp_in"] for s in cap.solves if "lp_in" in s], (bad[0] if bad else None)


def audit_handoff(spec, failures, stats):
    """no cropland lost or double counted between the parameter layer and ANY round's optimiser: the outdoor-crop and
    greenhouse series each solve receives == the first-round series == the documented function of the inputs"""
    import c08_impl
    opt, lps, err = three_round_run(spec)
    stats["handoff_runs"] += 1
    if err or len(lps) not in ROUND_NAMES:
        stats["handoff_skipped"] += 1
        stats.setdefault("handoff_notes", []).append(f"{spec['iso3']}: {err or str(len(lps)) + ' solves'}")
        return
    r = c08_impl.run_case({"kind": "real", "iso3": spec["iso3"], "options": opt})
    if not r.get("crops"):
        stats["handoff_skipped"] += 1
        return
    ci, co = r["crops"]["inputs"], r["crops"]["obs"]
    want = [float(x) for x in closed_form(ci, r["crops"]["pw"])[0]] if (ci["add"] or ci["gadd"]) else list(co["prod"])
    for (k, rname), lp in zip(ROUND_NAMES[len(lps)], lps):
        stats["checks"] += 2
        stats["handoff_rounds"] += 1
        for key, ref, refname in (("crops_prod", co["prod"], "the first-round series"), ("crops_prod", want, "grown x (1 - greenhouse fraction) x (1 - waste)"),
                                  ("greenhouse", co["ghk"], "the first-round greenhouse series")):
            got = lp[key]
            scale = max([abs(x) for x in ref], default=0.0)
            bad = None if len(got) == len(ref) else -1
            if bad is None:
                bad = next((m for m in range(len(ref)) if relerr(got[m], ref[m], scale) > REL), None)
            if bad is not None:
                nm = "crop" if key == "crops_prod" else "greenhouse"
                kind = f"{nm}-series-handed-to-round{k}-differs@compute_parameters_{rname}"
                failures.append({"kind": kind, "kind_of_failure": kind, "handoff": spec, "month": bad,
                                 "what": f"{spec['iso3']} {spec.get('preset') or opt.get('scenario')}: round {k} optimiser receives "
                                         f"{got[bad] if bad >= 0 else len(got)!r} for month {bad}, {refname} is {ref[bad] if bad >= 0 else len(ref)!r}"})
                break


def run(payload):
    failures = []
    stats = {"cases": 0, "rejected": 0, "distinct": 0, "checks": 0, "pw_samples": 0, "tiny": 0, "relocation_pairs": 0,
             "expansion_pairs": 0, "real_pairs": 0, "real_pairs_rejected": 0,
             "handoff_runs": 0, "handoff_skipped": 0, "handoff_rounds": 0}
    for spec in payload.get("handoff", []):
        audit_handoff(spec, failures, stats)
    for pair in payload.get("real_pairs", []):
        audit_real_pair(pair, failures, stats)
    for c in payload["cases"]:
        audit_case(c, failures, stats)
    stats["failures"] = failures[:40]
    stats["n_failures"] = len(failures)
    return stats


if __name__ == "__main__":
    main_io(run)
