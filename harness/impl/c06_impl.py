"""C06 (and the real-run part of C07): run animal_populations.main() on real country codes with generated feed / grass
series, snapshotting the carried herd state at the start and at the end of every month by wrapping public methods
(no source hooks), and audit the property directly on the returned lists.  Run by /venv/bin/python, cwd=/repo."""
import math
import os
import sys
from multiprocessing import Pool

import numpy as np
from implutil import classify, main_io, quiet
import src.food_system.animal_populations as ap
from src.food_system.food import Food

STATIC_FIELDS = ["animal_slaughter_hours", "baseline_slaughter", "target_population_head",
                 "other_animal_death_rate_monthly", "animals_per_pregnancy", "birth_ratio", "gestation",
                 "transfer_culling_fraction", "starvation_death_fraction", "reduction_in_animal_breeding",
                 "target_population_fraction", "livestock_unit", "LSU_factor", "initial_slaughter",
                 "initital_population", "births_animals_month_baseline", "other_animal_death_rate_annual",
                 "other_animal_death_basline_head_monthly", "approximate_feed_conversion"]
FLOW_LISTS = ["births_animals_month", "transfer_population", "other_death_causes_other_than_starving",
              "slaughtered_pregnant_animals", "population_starving_pre_slaughter", "homekill_other_death_this_month",
              "homekill_healthy_this_month", "homekill_starving_this_month", "total_homekill_this_month",
              "other_death_starving", "other_death_total", "slaughter", "population", "pregnant_animals_total",
              "pregnant_animals_birthing_this_month"]
MILK_LISTS = ["transfer_births", "retiring_milk_animals"]


def fl(x):
    return float(x)


def static_of(a, ruminants):
    d = {k: fl(getattr(a, k)) for k in STATIC_FIELDS if hasattr(a, k)}
    d.update({"type": a.animal_type, "species": a.animal_species, "milk": a.animal_function == "milk",
              "milk_in_type": "milk" in a.animal_type, "size": a.animal_size, "digestion": a.digestion_type,
              "ruminant": any(a is r for r in ruminants), "eg": fl(a.digestion_efficiency["grass"]),
              "ef": fl(a.digestion_efficiency["feed"]),
              "retiring_fraction": fl(getattr(a, "retiring_milk_animals_fraction", 0.0)),
              "key": fl(getattr(a, "net_kcals_gained_per_hour_slaughter_this_month", float("nan")))})
    return d


def carried(a):
    return {"pop": fl(a.population[-1]), "cur": fl(a.current_population), "sl": fl(a.slaughter[-1]),
            "ptot": fl(a.pregnant_animals_total[-1]), "pbirth": fl(a.pregnant_animals_birthing_this_month[-1]),
            "pfrac": fl(a.pregnant_animal_slaughter_fraction), "fed": fl(a.population_fed)}


def flows(a):
    d = {k: fl(getattr(a, k)[-1]) for k in FLOW_LISTS}
    for k in MILK_LISTS:
        d[k] = fl(getattr(a, k)[-1]) if hasattr(a, k) and getattr(a, k) else 0.0
    d["bal"] = fl(a.NE_balance.kcals)
    d["fed"] = fl(a.population_fed)
    d["pfrac"] = fl(a.pregnant_animal_slaughter_fraction)
    return d


class Tracer:
    """wraps AnimalSpecies.feed_the_species, AnimalPopulation.feed_animals / appened_current_populations"""

    def __init__(self):
        self.months = []          # per month dict
        self.statics = None
        self.names = None
        self.cur = None
        self.problems = []
        self.region = None
        self.country_name = None

    def __enter__(self):
        tr = self
        self.o_fts = ap.AnimalSpecies.feed_the_species
        self.o_fa = ap.AnimalPopulation.feed_animals
        self.o_app = ap.AnimalPopulation.appened_current_populations

        def fts(self_a, grass_input, feed_input, is_ruminant=False):
            rec = {"i": tr.index.get(id(self_a), -1), "g": fl(grass_input.kcals), "f": fl(feed_input.kcals),
                   "rum": bool(is_ruminant), "cur": fl(self_a.current_population), "req": fl(self_a.NE_balance.kcals),
                   "fed_old": fl(self_a.population_fed)}
            out = tr.o_fts(self_a, grass_input, feed_input, is_ruminant)
            rec.update({"g2": fl(out[0].kcals), "f2": fl(out[1].kcals), "bal": fl(self_a.NE_balance.kcals),
                        "fed": fl(self_a.population_fed)})
            if tr.cur is not None:
                tr.cur["calls"].append(rec)
            return out

        def fa(animal_list, ruminants, available_feed, available_grass):
            if tr.statics is None:
                tr.statics = [static_of(a, ruminants) for a in animal_list]
                tr.names = [a.animal_type for a in animal_list]
            tr.index = {id(a): i for i, a in enumerate(animal_list)}
            tr.cur = {"pre": [carried(a) for a in animal_list], "feed_in": fl(available_feed.kcals),
                      "grass_in": fl(available_grass.kcals), "calls": []}
            out = tr.o_fa(animal_list, ruminants, available_feed, available_grass)
            tr.cur["feed_left"] = fl(out[0].kcals)
            tr.cur["grass_left"] = fl(out[1].kcals)
            return out

        def app(animal_objects):
            tr.o_app(animal_objects)
            if tr.cur is not None:
                tr.cur["post"] = [carried(a) for a in animal_objects]
                tr.cur["flows"] = [flows(a) for a in animal_objects]
                tr.months.append(tr.cur)
                tr.cur = None

        self.o_lsu = ap.CountryData.set_livestock_unit_factors

        def lsu(self_c, df_country_info, df_regional_conversion_factors):
            out = tr.o_lsu(self_c, df_country_info, df_regional_conversion_factors)
            tr.region = getattr(self_c, "EK_region", None)
            tr.country_name = self_c.country_name
            return out

        ap.CountryData.set_livestock_unit_factors = lsu
        ap.AnimalSpecies.feed_the_species = fts
        ap.AnimalPopulation.feed_animals = fa
        ap.AnimalPopulation.appened_current_populations = app
        return self

    def __exit__(self, *exc):
        ap.AnimalSpecies.feed_the_species = self.o_fts
        ap.CountryData.set_livestock_unit_factors = self.o_lsu
        ap.AnimalPopulation.feed_animals = self.o_fa
        ap.AnimalPopulation.appened_current_populations = self.o_app
        return False


def mkfood(series):
    n = len(series)
    return Food(kcals=[float(x) for x in series], fat=[0] * n, protein=[0] * n, kcals_units="billion kcals each month",
                fat_units="thousand tons each month", protein_units="thousand tons each month")


# ------------------------------------------------------------------------------------------ direct audits

def scale_of(*xs):
    return max([1.0] + [abs(x) for x in xs])


def audit_c06(animals, N, failures, stats, ctxinfo):
    """ledger identity, non-negativity, transfer identity, hours budget, availability, target floor: evaluated on the
    lists returned by main(remove_first_month=0)."""
    TOL = 1e-9

    def fail(kind, what, **kw):
        if len(failures) < 40:
            failures.append({"kind": kind, "what": what, **ctxinfo, **kw})
        stats["nfail"] = stats.get("nfail", 0) + 1

    by_species_milk = {}
    for a in animals:
        if a.animal_function == "milk":
            by_species_milk[a.animal_species] = a     # later milk herd of the same species wins, as in main()
    expected_len = {"population": N + 1, "slaughter": N + 1, "births_animals_month": N, "transfer_population": N,
                    "other_death_causes_other_than_starving": N + 1, "other_death_starving": N + 1,
                    "other_death_total": N + 1, "homekill_healthy_this_month": N + 1,
                    "homekill_starving_this_month": N + 1, "population_starving_pre_slaughter": N + 1}
    for a in animals:
        for k, n in expected_len.items():
            if len(getattr(a, k)) != n:
                fail("list-length", f"{a.animal_type}.{k} has {len(getattr(a, k))} entries, expected {n}", species=a.animal_type)
                return
    for m in range(N):
        hours_used = {}
        for a in animals:
            milk = a.animal_function == "milk"
            start = a.population[m]
            end = a.population[m + 1]
            births = a.births_animals_month[m]
            tp = a.transfer_population[m]
            ret = a.retiring_milk_animals[m] if milk else 0.0
            tb = a.transfer_births[m] if milk else 0.0
            od = a.other_death_causes_other_than_starving[m + 1]
            sl = a.slaughter[m + 1]
            sd = a.other_death_starving[m + 1]
            hkh = a.homekill_healthy_this_month[m + 1]
            hks = a.homekill_starving_this_month[m + 1]
            hko = a.homekill_other_death_this_month[m + 1]
            tin = 0.0 if milk else tp
            sc = scale_of(start, a.target_population_head, births, sl)
            stats["species_months"] += 1
            raw = start + births + tin - ret - od - sl - sd - hkh - hks
            want = max(0.0, raw)
            if raw < 0:
                stats["clamped"] += 1
            if sl > 0:
                stats["slaughtering"] += 1
            if sd > 0:
                stats["starving_deaths"] += 1
            if not abs(end - want) <= TOL * sc:
                fail("ledger", f"{a.animal_type} month {m}: end {end!r} but start+births+transfer-retiring-deaths-"
                     f"slaughter-starvation-homekill = {raw!r}", species=a.animal_type, month=m)
            for nm, v in (("population", end), ("births", births), ("natural deaths", od), ("slaughter", sl),
                          ("starvation deaths", sd), ("homekill healthy", hkh), ("homekill starving", hks),
                          ("homekill of dead", hko), ("retiring", ret), ("transfer births", tb), ("transfer in", tin),
                          ("population_start", start)):
                if not v >= -TOL * sc * 1e-3:
                    if nm == "births":
                        fail("negative-births", f"{a.animal_type} month {m}: births = {v!r}", species=a.animal_type, month=m,
                             value=v)
                    else:
                        fail("negative-flow", f"{a.animal_type} month {m}: {nm} = {v!r}", species=a.animal_type, month=m,
                             flow=nm, value=v)
            # transfer identity
            if milk:
                if not abs(tp + (ret + tb)) <= TOL * sc:
                    fail("transfer-milk", f"{a.animal_type} month {m}: transfer_population {tp!r} != -(retiring {ret!r} + "
                         f"surviving male calves {tb!r})", species=a.animal_type, month=m)
            else:
                mk = by_species_milk.get(a.animal_species)
                want_t = (mk.retiring_milk_animals[m] + mk.transfer_births[m]) if mk is not None else 0.0
                if mk is not None:
                    stats["transfer_pairs"] += 1
                if not abs(tp - want_t) <= TOL * scale_of(sc, want_t):
                    fail("transfer-meat", f"{a.animal_type} month {m}: transfer in {tp!r} but dairy herd retired + surviving "
                         f"male calves = {want_t!r}", species=a.animal_type, month=m)
            # availability and target floor
            pre = start - od - ret + births + tin
            if not sl <= max(0.0, pre) + TOL * sc:
                fail("slaughter-exceeds-available", f"{a.animal_type} month {m}: slaughter {sl!r} > available {pre!r}",
                     species=a.animal_type, month=m)
            if pre >= a.target_population_head and not pre - sl >= a.target_population_head - TOL * sc:
                fail("below-target", f"{a.animal_type} month {m}: herd after slaughter {pre - sl!r} < target "
                     f"{a.target_population_head!r}", species=a.animal_type, month=m)
            if pre < a.target_population_head - TOL * sc and sl > TOL * sc:
                fail("below-target", f"{a.animal_type} month {m}: slaughter {sl!r} although herd {pre!r} is below target "
                     f"{a.target_population_head!r}", species=a.animal_type, month=m)
            hours_used[a.animal_size] = hours_used.get(a.animal_size, 0.0) + sl * a.animal_slaughter_hours
        for z, used in hours_used.items():
            cap = sum(a.animal_slaughter_hours * a.baseline_slaughter for a in animals if a.animal_size == z)
            stats["hour_checks"] += 1
            if used >= cap * (1 - 1e-9) and cap > 0:
                stats["hours_tight"] += 1
            if not used <= cap + TOL * scale_of(cap):
                fail("hours", f"size {z} month {m}: slaughter hours used {used!r} > baseline capacity {cap!r}", size=z, month=m)


def audit_c07_month(mon, statics, failures, stats, ctxinfo):
    """C07 clauses on one traced month of main()."""
    TOL = 1e-9

    def fail(kind, what, **kw):
        if len(failures) < 40:
            failures.append({"kind": kind, "what": what, **ctxinfo, **kw})
        stats["nfail"] = stats.get("nfail", 0) + 1

    g0, f0 = mon["grass_in"], mon["feed_in"]
    sc = scale_of(g0, f0, *[c["req"] for c in mon["calls"]])
    if [c["i"] for c in mon["calls"]] != list(range(len(statics))):
        fail("order", f"feed_the_species called in order {[c['i'] for c in mon['calls']]}, not list order")
    g, f = g0, f0
    blocked_feed = blocked_grass = False
    for c in mon["calls"]:
        st = statics[c["i"]]
        stats["feedings"] += 1
        if c["g"] != g or c["f"] != f:
            fail("threading", f"{st['type']}: supplied ({c['g']!r},{c['f']!r}) is not what the previous species left ({g!r},{f!r})")
        gu, fu = c["g"] - c["g2"], c["f"] - c["f2"]
        deliv = c["req"] - c["bal"]
        if not (-TOL * sc <= gu <= c["g"] + TOL * sc and -TOL * sc <= fu <= c["f"] + TOL * sc):
            fail("conservation", f"{st['type']}: used grass {gu!r} of {c['g']!r}, feed {fu!r} of {c['f']!r}", species=st["type"])
        if not (-TOL * sc <= deliv <= c["req"] + TOL * sc):
            fail("overfeed", f"{st['type']}: delivered {deliv!r} of required {c['req']!r}", species=st["type"])
        if abs(deliv - (gu * st["eg"] + fu * st["ef"])) > TOL * sc:
            fail("energy-accounting", f"{st['type']}: delivered NE {deliv!r} != grass*{st['eg']} + feed*{st['ef']} = "
                 f"{gu * st['eg'] + fu * st['ef']!r}", species=st["type"])
        if st["digestion"] != "ruminant" and gu != 0:
            fail("grass-to-non-ruminant", f"{st['type']} ({st['digestion']}) used grass {gu!r}", species=st["type"])
        if c["rum"] != (st["digestion"] == "ruminant"):
            fail("ruminant-flag", f"{st['type']} ({st['digestion']}) fed with is_ruminant={c['rum']}", species=st["type"])
        if blocked_feed and fu > TOL * sc:
            fail("priority", f"{st['type']} received feed {fu!r} although an earlier species is still short", species=st["type"])
        if blocked_grass and gu > TOL * sc:
            fail("priority", f"{st['type']} received grass {gu!r} although an earlier ruminant is still short", species=st["type"])
        cur, fed = c["cur"], c["fed"]
        if not fed <= cur:
            fail("fed-exceeds-herd", f"{st['type']}: fed {fed!r} > herd {cur!r}", species=st["type"])
        if not cur - fed >= 0 or not fed >= 0:
            fail("negative-starving", f"{st['type']}: fed {fed!r}, herd {cur!r}", species=st["type"])
        if c["bal"] <= TOL * 1e-3 * c["req"]:
            stats["fully_fed"] += 1
            if fed != cur:
                fail("fed-full", f"{st['type']}: requirement met but fed {fed!r} != herd {cur!r}", species=st["type"])
        else:
            stats["partially_fed"] += 1
            want = cur * deliv / c["req"]
            if abs(fed - want) > 0.5 + 1e-6 * scale_of(want):
                fail("fed-partial", f"{st['type']}: fed {fed!r} but herd*delivered/required = {want!r}", species=st["type"])
            blocked_feed = True
            if c["rum"]:
                blocked_grass = True
        g, f = c["g2"], c["f2"]
    if mon["grass_left"] != g or mon["feed_left"] != f:
        fail("threading", "feed_animals returns something else than the last species left")
    for st, fw, pre in zip(statics, mon["flows"], mon["pre"]):
        sv = fw["population_starving_pre_slaughter"]
        if not abs(sv - (pre["pop"] - fw["fed"])) <= TOL * scale_of(pre["pop"]) or sv < 0:
            fail("starving-count", f"{st['type']}: starving {sv!r}, herd {pre['pop']!r}, fed {fw['fed']!r}", species=st["type"])


# ------------------------------------------------------------------------------------------ one traced run

def one_run(run):
    """run = {code, scenario, feed, grass, kdict, months (list of month indices whose snapshots are returned), audit}"""
    failures, stats = [], {"species_months": 0, "clamped": 0, "slaughtering": 0, "starving_deaths": 0, "transfer_pairs": 0,
                           "hour_checks": 0, "hours_tight": 0, "feedings": 0, "fully_fed": 0, "partially_fed": 0}
    info = {"code": run["code"], "scenario": run["scenario"], "shape": run.get("shape", "")}
    N = len(run["feed"])
    res = {"info": info, "failures7": [], "failures6": failures, "stats": stats}
    try:
        with Tracer() as tr, quiet():
            animals, feed_used, grass_used = ap.main(run["code"], mkfood(run["feed"]), mkfood(run["grass"]), run["scenario"],
                                                     None, 0, run.get("kdict"))
    except BaseException as e:  # noqa
        res["error"] = classify(e) + ": " + str(e)[:300]
        return res
    res["names"] = tr.names
    res["region"] = tr.region
    res["country_name"] = tr.country_name
    res["statics"] = tr.statics
    res["n_months"] = len(tr.months)
    # continuity: nothing but the traced month loop changes the carried state
    for m in range(1, len(tr.months)):
        for i, (a, b) in enumerate(zip(tr.months[m - 1]["post"], tr.months[m]["pre"])):
            if any(a[k] != b[k] for k in ("pop", "sl", "ptot", "pbirth", "pfrac")) or b["cur"] != b["pop"]:
                tr.problems.append(f"state of {tr.names[i]} changes between months {m - 1} and {m}")
    res["problems"] = tr.problems[:5]
    if [a.animal_type for a in animals] != tr.names:
        res["problems"].append("main() returns the herds in another order than it feeds them")
    # audits
    audit_c06(animals, N, failures, stats, info)
    f7 = res["failures7"]
    ks = [s["key"] for s in tr.statics]
    if run.get("kdict") is not None and any(not ks[i] >= ks[i + 1] for i in range(len(ks) - 1)):
        f7.append(dict(info, kind="order", what=f"herds are fed in the order {tr.names} although their priority keys are {ks}"))
    for m, mon in enumerate(tr.months):
        audit_c07_month(mon, tr.statics, f7, stats, dict(info, month=m))
        fu, gu = float(feed_used.kcals[m]), float(grass_used.kcals[m])
        if fu != run["feed"][m] - mon["feed_left"] or gu != run["grass"][m] - mon["grass_left"]:
            f7.append(dict(info, kind="used-series", month=m, what=f"feed_used/grass_used ({fu!r},{gu!r}) differ from supplied minus left"))
        if not (0 <= fu <= run["feed"][m] and 0 <= gu <= run["grass"][m]):
            f7.append(dict(info, kind="conservation", month=m, what=f"month {m}: used feed {fu!r} of {run['feed'][m]!r}, grass {gu!r} of {run['grass'][m]!r}"))
    for fdict in failures + f7:
        fdict["run"] = {k: run[k] for k in ("code", "scenario", "feed", "grass", "kdict")}
    res["months"] = {str(m): tr.months[m] for m in run.get("months", []) if m < len(tr.months)}
    # initial attributes (negative baseline births finding)
    res["baseline_births"] = {a.animal_type: float(a.births_animals_month_baseline) for a in animals}
    return res


class _Country:
    def __init__(self, month):
        self.month = month


def direct_case(case):
    """AnimalPopulation.calculate_change_in_population called directly on the herds of a real country with generated
    states (herd size, last slaughter above / below the baseline, remaining hours, additive animals): the states the month
    loop itself never reaches (a binding hours budget) are exercised here."""
    import random
    rng = random.Random(case["seed"])
    try:
        with Tracer() as tr, quiet():
            animals, _, _ = ap.main(case["code"], mkfood([0.0, 0.0]), mkfood([0.0, 0.0]), case["scenario"], None, 0, case.get("kdict"))
    except BaseException as e:  # noqa
        return {"error": classify(e) + ": " + str(e)[:300]}
    out = []
    statics = tr.statics
    for _ in range(case["n"]):
        i = rng.randrange(len(animals))
        a, st = animals[i], statics[i]
        cap = sum(x.animal_slaughter_hours * x.baseline_slaughter for x in animals if x.animal_size == a.animal_size)
        cur = st["initital_population"] * rng.choice([0.0, rng.uniform(0, 1.5), 1.0])
        sl = st["baseline_slaughter"] * rng.choice([0.0, 1.0, rng.uniform(0, 3), rng.uniform(1, 10)])
        remaining = rng.choice([0.0, cap, cap * rng.uniform(0, 1.2), sl * st["animal_slaughter_hours"] * rng.uniform(0.2, 1.0)])
        additive = cur * rng.choice([0.0, rng.uniform(0, 0.1)])
        ret = cur * st["retiring_fraction"] if st["milk"] else 0.0
        month = rng.choice([0, 1, 7])
        pf = rng.choice([0.0, 0.1, a.pregnant_animal_slaughter_fraction])
        ptot = rng.choice([a.pregnant_animals_total[-1], cur * rng.uniform(0, 0.3)])
        a.current_population = cur
        a.slaughter.append(sl)
        a.pregnant_animals_total.append(ptot)
        a.pregnant_animal_slaughter_fraction = pf
        if st["milk"]:
            a.retiring_milk_animals.append(ret)
        rec = {"static": st, "state": [cur, sl, ptot, 0.0, pf], "additive": additive, "ret": ret, "remaining": remaining,
               "month": month, "code": case["code"], "scenario": case["scenario"]}
        try:
            try:
                with quiet():
                    left = ap.AnimalPopulation.calculate_change_in_population(a, _Country(month), additive, remaining)
            except AssertionError:
                # (remaining / h) * h can exceed remaining by one ulp in floats and trip the code's own assert; a state that
                # passes for one of the next 12 floats above the remaining hours is counted as that rounding artefact
                rec["float_assert"] = True
                left = None
                for _k in range(12):
                    a.current_population = cur
                    remaining = math.nextafter(remaining, math.inf)
                    try:
                        with quiet():
                            left = ap.AnimalPopulation.calculate_change_in_population(a, _Country(month), additive, remaining)
                        break
                    except AssertionError:
                        continue
                if left is None:
                    raise AssertionError("allocated negative hours for 12 neighbouring values of the remaining hours")
                rec["remaining"] = remaining
            rec["obs"] = [fl(a.slaughter[-1]), fl(a.current_population), fl(a.pregnant_animals_total[-1]),
                          fl(a.pregnant_animals_birthing_this_month[-1]), fl(a.other_death_causes_other_than_starving[-1]),
                          fl(a.slaughtered_pregnant_animals[-1]), fl(left)]
        except BaseException as e:  # noqa
            rec["err"] = classify(e) + ": " + str(e)[:200]
        out.append(rec)
    return {"cases": out}


def run(payload):
    if "direct" in payload:
        return {"direct": [direct_case(c) for c in payload["direct"]]}
    runs = payload["runs"]
    nproc = int(payload.get("nproc", 14))
    if len(runs) > 1 and nproc > 1:
        with Pool(min(nproc, len(runs))) as p:
            out = p.map(one_run, runs, chunksize=1)
    else:
        out = [one_run(r) for r in runs]
    return {"results": out}


if __name__ == "__main__":
    main_io(run)
