"""C13 implementation-side runner (differential): runs the REAL ScenarioRunner.set_depending_on_option, direct
Scenarios setter calls and the head-count column derivation of animal_populations.main, and reports canonical
results as JSON.  /venv/bin/python, cwd=/repo."""
import copy
import inspect
import math
import os

import numpy as np
import pandas as pd

from implutil import classify, quiet, main_io

CSV = "data/no_food_trade/computer_readable_combined.csv"


def enc(v):
    if isinstance(v, (bool, np.bool_)):
        return {"b": bool(v)}
    if v is None:
        return {"z": 1}
    if isinstance(v, str):
        return {"s": v}
    if isinstance(v, dict):
        return {"d": 1}
    if isinstance(v, np.ndarray):
        if v.ndim == 0:
            return {"n": float(v)}
        return {"l": [float(x) for x in v.tolist()]}
    if isinstance(v, (list, tuple)):
        return {"l": [float(x) for x in v]}
    if isinstance(v, (int, float, np.integer, np.floating)):
        f = float(v)
        if math.isnan(f) or math.isinf(f):
            return {"s": "<non-finite>"}
        return {"n": f}
    return {"s": "<" + type(v).__name__ + ">"}


def flat(d):
    out = []
    for k, v in d.items():
        k = str(k)
        out.append([k, enc(v)])
        if isinstance(v, dict):
            for k2, v2 in v.items():
                out.append([k + "." + str(k2), enc(v2)])
    return out


class Rows:
    def __init__(self):
        self.table = pd.read_csv(CSV)
        self.by_iso = {r["iso3"]: r for _, r in self.table.iterrows()}   # same objects run_model_no_trade passes
        self.used = {}

    def get(self, spec):
        """spec: None | "ISO" | {"base": "ISO", "set": {col: v}, "del": [col], "id": "..."} -> (row, id)"""
        if spec is None:
            return None, None
        if isinstance(spec, str):
            row = self.by_iso[spec].copy()
            rid = spec
        else:
            row = self.by_iso[spec["base"]].copy()
            for c, v in spec.get("set", {}).items():
                row[c] = v
            for c in spec.get("del", []):
                row = row.drop(c)
            rid = spec["id"]
        if rid not in self.used:
            self.used[rid] = [[str(c), enc(row[c])] for c in row.index]
        return row, rid


def loader_state(loader):
    flags = sorted(k for k, v in vars(loader).items() if k.endswith("_SET") and v is True)
    g = getattr(loader, "IS_GLOBAL_ANALYSIS", None)
    return flags, (None if g is None else bool(g)), loader.scenario_description


def same_dict(a, b):
    return a == b and list(a.keys()) == list(b.keys())


def run_dispatch(case, rows):
    from src.scenarios.run_scenario import ScenarioRunner
    row, rid = rows.get(case.get("row"))
    opts = {k: v for k, v in case["opts"]}
    snap = copy.deepcopy(opts)
    res = {"row": rid}
    try:
        with quiet():
            cp, tc, loader = ScenarioRunner().set_depending_on_option(opts, country_data=row)
        flags, g, desc = loader_state(loader)
        res.update({"ok": True, "consts": flat(cp), "tconsts": flat(tc), "flags": flags, "is_global": g, "desc": desc})
        try:
            loader.check_all_set()
            res["all_set"] = True
        except AssertionError:
            res["all_set"] = False
    except BaseException as e:  # SystemExit included
        res.update({"ok": False, "kind": classify(e), "msg": str(e)[:120]})
    res["caller_unmodified"] = same_dict(opts, snap)
    return res


def run_history(case, rows):
    from src.scenarios.scenarios import Scenarios
    row, rid = rows.get(case.get("row"))
    loader = Scenarios()
    cp, tc = {}, {}
    res = {"row": rid}
    idx = -1
    try:
        with quiet():
            for idx, call in enumerate(case["calls"]):
                if call[0] == "const":
                    cp[call[1]] = call[2]
                    continue
                m = getattr(loader, call[1])
                params = list(inspect.signature(m).parameters)
                args = []
                for p in params:
                    if p == "constants_for_params":
                        args.append(cp)
                    elif p == "country_data":
                        args.append(row)
                    elif p in ("time_consts", "time_consts_for_params"):
                        args.append(tc)
                    else:
                        raise RuntimeError("unknown parameter " + p)
                out = m(*args)
                if any(p.startswith("time_consts") for p in params):
                    tc = out
                else:
                    cp = out
        flags, g, desc = loader_state(loader)
        res.update({"ok": True, "consts": flat(cp), "tconsts": flat(tc), "flags": flags, "is_global": g, "desc": desc})
    except BaseException as e:
        flags, g, desc = loader_state(loader)
        res.update({"ok": False, "kind": classify(e), "msg": str(e)[:120], "fail_index": idx, "consts": flat(cp),
                    "tconsts": flat(tc), "flags": flags})
    return res


def run_head(keys):
    """drives the real animal_populations.main up to create_animal_objects and reports which column of the row
    handed to create_animal_objects carries the override (None = no cell changed / new column)"""
    import src.food_system.animal_populations as ap

    class Stop(Exception):
        pass
    seen = {}

    def fake(stock, attrs):
        seen["stock"] = stock.copy()
        raise Stop()
    orig = ap.AnimalModelBuilder.create_animal_objects
    ap.AnimalModelBuilder.create_animal_objects = staticmethod(fake)

    class F:
        kcals = [0] * 12
    out = []
    try:
        base_cols = None
        for item in keys:
            key, code = item["key"], item["code"]
            magic = 123456789
            seen.clear()
            r = {"key": key, "code": code}
            try:
                with quiet():
                    ap.main(code, F(), F(), "baseline", {key: magic, "COUNTRY_CODE": code})
                r["err"] = "create_animal_objects not reached"
            except Stop:
                s = seen["stock"]
                hit = [str(c) for c in s.index if not isinstance(s[c], str) and s[c] == magic]
                r["columns_changed"] = hit
                r["row_label"] = str(s.name)
                r["n_columns"] = len(s.index)
            except BaseException as e:
                r["err"] = classify(e) + ": " + str(e)[:100]
            out.append(r)
    finally:
        ap.AnimalModelBuilder.create_animal_objects = orig
    return out


def run_alter(spec):
    """the REAL alter_scenario_if_known_to_fail on the full product of the given families (itertools.product order)"""
    import itertools
    from src.scenarios.run_scenario import ScenarioRunner
    runner = ScenarioRunner()
    fams = [f for f, _ in spec["fams"]]
    vals = [v for _, v in spec["fams"]]
    rest = {k: v for k, v in spec["rest"]}
    table, out = [""], {}
    with quiet():
        for iso in spec["countries"]:
            codes = []
            for combo in itertools.product(*vals):
                o = dict(zip(fams, combo))
                o.update(rest)
                snap = dict(o)
                try:
                    r = runner.alter_scenario_if_known_to_fail(o, iso)
                    txt = ",".join(f"{k}={r.get(k, '<gone>')}" for k in o if r.get(k, "<gone>") != o[k])
                    if o != snap:
                        txt = "<caller dictionary modified>"
                except BaseException as e:
                    txt = "<rejected>" if isinstance(e, AssertionError) else "<" + classify(e) + ">"
                if txt not in table:
                    table.append(txt)
                codes.append(table.index(txt))
            out[iso] = codes
    return {"table": table, "outcomes": out}


def run(payload):
    rows = Rows()
    res = {"dispatch": [run_dispatch(c, rows) for c in payload.get("dispatch", [])],
           "history": [run_history(c, rows) for c in payload.get("history", [])],
           "head": run_head(payload.get("head", [])) if payload.get("head") else []}
    if payload.get("alter"):
        res["alter"] = run_alter(payload["alter"])
    res["rows"] = rows.used
    res["all_iso3"] = [str(x) for x in rows.table["iso3"]]
    res["columns"] = [str(c) for c in rows.table.columns]
    return res


if __name__ == "__main__":
    main_io(run)
