"""C04: captured real runs.  Every optimiser round of every requested (country | world, option) run is observed
(Extractor, Interpreter, CSV on disk, final varValues, first-solve objective) and the property is evaluated
DIRECTLY on it; for the first `want_data` runs the raw numbers are also returned for the Coq correspondence."""
import copy
import math
import multiprocessing as mp
import os
import traceback

import numpy as np

from implutil import classify, main_io, quiet
import c04_impl as ci

_TABLE = None


def table():
    global _TABLE
    if _TABLE is None:
        import pandas as pd
        _TABLE = pd.read_csv(os.path.join("data", "no_food_trade", "computer_readable_combined.csv"))
    return _TABLE


def country_row(iso3):
    # as run_model_no_trade does: iterrows() (python floats, not numpy scalars)
    for _, row in table().iterrows():
        if row["iso3"] == iso3:
            return row
    raise KeyError(iso3)


def varvals(lst):
    import pulp
    if len(lst) > 0 and isinstance(lst[0], pulp.LpVariable):
        return [float(v.varValue) for v in lst]
    return None


def launch(spec, rounds):
    """run one spec with the capture wrappers installed; appends one record per optimiser round to `rounds`"""
    import src.scenarios.run_scenario as rs
    from src.scenarios.run_model_no_trade import ScenarioRunnerNoTrade
    from src.optimizer.extract_results import Extractor
    from src.food_system.food import Food
    results_dir = ci.redirect_results()
    o_int = rs.ScenarioRunner.interpret_optimizer_results
    o_ext = Extractor.extract_results
    grabbed = {}
    kept = []

    def ext(self, model, variables, time_consts):
        r = o_ext(self, model, variables, time_consts)
        grabbed["E"] = r
        return r

    def interp(self, consts, model, variables, tc, interpreter, pfm, optimization_type, title="Untitled"):
        path = ci.csv_path(results_dir, title)   # NOT removed first: a run saved under a title used before must replace it
        I = o_int(self, consts, model, variables, tc, interpreter, pfm, optimization_type, title)
        E = grabbed.get("E")
        n = int(consts["NMONTHS"])
        cv = Food.conversions
        rec = {"title": title, "ty": optimization_type, "n": n, "pfm": float(pfm), "country": str(consts["inputs"]["COUNTRY_CODE"]),
               "km": float(consts["KCALS_MONTHLY"]), "sw_kcals": float(consts["SEAWEED_KCALS"]),
               "need": float(consts["BILLION_KCALS_NEEDED"]), "pop": float(consts["POP"]),
               "settings": {"kcals_daily": float(cv.kcals_daily), "fat_daily": float(cv.fat_daily),
                            "protein_daily": float(cv.protein_daily), "population": float(cv.population)},
               "include": [bool(cv.include_fat), bool(cv.include_protein)],
               "vars": {k: varvals(variables[k]) for k in ci.VAR_KEYS},
               "aux": {k: varvals(variables[k]) for k in
                       ("stored_food_feed", "stored_food_biofuel", "seaweed_feed", "seaweed_biofuel", "methane_scp_feed",
                        "methane_scp_biofuel", "cellulosic_sugar_feed", "cellulosic_sugar_biofuel")},
               "consumed": varvals(variables["consumed_kcals"]) if isinstance(variables.get("consumed_kcals"), list) else None,
               "series": {"fish": ci.fl(tc["fish"].to_humans.kcals), "greenhouse": ci.fl(tc["greenhouse_crops"].kcals),
                          "milk": ci.fl(tc["milk_kcals"]), "crops_prod": ci.fl(tc["outdoor_crops"].production.kcals)},
               "obs": ci.observe(E, I)}
        rec["obj_now"] = float(variables["objective_function"].varValue)
        # hand-off series (before run_round_2 clips them): per food, the two sums, and the sums converted back
        per = [getattr(I, f"{food}_{use}_kcals_equivalent").kcals for use in ("feed", "biofuels")
               for food in ("cell_sugar", "scp", "seaweed", "outdoor_crops", "stored_food")]
        rec["fb"] = {"per": [ci.fl(x) for x in per],
                     "feed_ke": ci.fl(I.feed_sum_kcals_equivalent.kcals), "bio_ke": ci.fl(I.biofuels_sum_kcals_equivalent.kcals),
                     "feed_back": ci.fl(I.feed_sum_kcals_equivalent.in_units_bil_kcals_thou_tons_thou_tons_per_month().kcals),
                     "bio_back": ci.fl(I.biofuels_sum_kcals_equivalent.in_units_bil_kcals_thou_tons_thou_tons_per_month().kcals),
                     "units": [I.feed_sum_kcals_equivalent.kcals_units, I.biofuels_sum_kcals_equivalent.kcals_units]}
        rec["charge"] = {"feed": ci.fl(tc["feed"].kcals), "biofuel": ci.fl(tc["biofuel"].kcals)}
        rec["csv_failures"] = ci.csv_check(path, rec["obs"], n)
        try:
            rec["csv_imm"] = ci.read_csv(path)[1].get("immediate_outdoor_crops")
        except Exception:  # noqa  (a missing / unreadable file is already a csv failure)
            rec["csv_imm"] = None
        # independent conversions of the extractor series by the implementation's own Food methods (for the split)
        rec["cr_ke"] = ci.fl(E.outdoor_crops_to_humans.in_units_kcals_equivalent().kcals)
        rec["cr_pct"] = ci.fl(E.outdoor_crops_to_humans.in_units_percent_fed().kcals)
        rec["sf_pct"] = ci.fl(E.stored_food_to_humans.in_units_percent_fed().kcals)
        rec["imm_pct"] = ci.fl(E.immediate_outdoor_crops.in_units_percent_fed().kcals)
        rec["ns_pct"] = ci.fl(E.new_stored_outdoor_crops.in_units_percent_fed().kcals)
        rounds.append(rec)
        kept.append((rec, E, I, path))     # re-audited when the whole three-round run is over
        return I

    rs.ScenarioRunner.interpret_optimizer_results = interp
    Extractor.extract_results = ext
    try:
        opt = copy.deepcopy(spec["opt"])
        with quiet():
            if spec["iso3"] == "WOR":
                r = rs.ScenarioRunner()
                cfp, tcfp, loader = r.set_depending_on_option(opt, country_data=None)
                r.run_and_analyze_scenario(cfp, tcfp, loader, False, False, "", None, False, "world", "WOR",
                                           title=spec["title"])
            else:
                r = ScenarioRunnerNoTrade()
                cd = r.apply_custom_parameters(country_row(spec["iso3"]), opt)
                r.verify_country_data(cd)
                r.run_optimizer_for_country(cd, opt, False, False, False, title=spec["title"])
    finally:
        rs.ScenarioRunner.interpret_optimizer_results = o_int
        Extractor.extract_results = o_ext
        # the clauses must hold at the END of the run too: a result object handed on to later rounds must still be the
        # one that was returned and saved (nothing may write into its series afterwards)
        for rec, E, I, path in kept:
            rec["late_failures"] = late_audit(rec, E, I, path)
        try:
            os.remove("model.json")
        except OSError:
            pass


def late_audit(rec, E, I, path):
    """re-observe a round's Extractor / Interpreter after the whole run: identical to what was observed at return,
    still equal to the saved csv, headline still the min over months of the per-food sums"""
    bad = []
    m_ = rec["title"].rsplit("_", 1)[-1]
    site = m_ if m_.startswith("round") else "round"

    def fail(what):
        bad.append({"kind": "result-altered-after-return", "site": site, "what": what, "title": rec["title"]})

    try:
        now = ci.observe(E, I)
    except BaseException as e:  # noqa
        fail("result object can no longer be read at the end of the run: " + repr(e)[:200])
        return bad
    names = {"e": ci.E_FIELDS, "p": ci.P_FIELDS, "q": ci.Q_FIELDS, "k": [c + "_kcals_equivalent" for c in ci.CSV_COLUMNS]}
    old = rec["obs"]
    for grp, labels in names.items():
        for j, lab in enumerate(labels):
            a, b = old[grp][j], now[grp][j]
            if a != b:
                mm = next((m for m in range(min(len(a), len(b))) if a[m] != b[m]), None)
                fail(f"{lab} ({grp}) changed after the round returned: " +
                     (f"month {mm}: {a[mm]!r} at return, {b[mm]!r} at the end of the run; {sum(1 for x, y in zip(a, b) if x != y)} months differ"
                      if mm is not None else f"length {len(a)} -> {len(b)}"))
                break
    if old["head"] != now["head"]:
        fail(f"percent_people_fed changed after return: {old['head']!r} -> {now['head']!r}")
    if old["sum"] != now["sum"]:
        fail("monthly total (to_humans_fed_sum) changed after the round returned")
    for w in ci.csv_check(path, now, rec["n"])[:2]:
        fail("at the end of the run the saved table no longer matches the result object: " + w)
    # headline vs min over months of the per-food sums, on the object as it is now
    try:
        pct = [ci.fl(E.stored_food_to_humans.in_units_percent_fed().kcals), ci.fl(E.outdoor_crops_to_humans.in_units_percent_fed().kcals)] + now["p"]
        sums = [sum(s[m] for s in pct) for m in range(rec["n"])]
        if not relclose(now["head"], min(sums), 1e-9, 1e-9):
            fail(f"at the end of the run headline {now['head']!r} != min over months of the per-food sums {min(sums)!r}")
        kd, pop = rec["settings"]["kcals_daily"], rec["pop"]
        need = rec["need"]
        # kcals-equivalent columns against the percent series of the same object (same food, two units)
        pairs = {"seaweed": 0, "cell_sugar": 1, "scp": 2, "greenhouse": 3, "fish": 4, "meat": 5, "milk": 6}
        for col, pj in pairs.items():
            kj = ci.CSV_COLUMNS.index(col)
            for m in range(rec["n"]):
                want = now["p"][pj][m] / 100.0 * kd
                if not relclose(now["k"][kj][m], want, 1e-9, 1e-9):
                    fail(f"at the end of the run {col}_kcals_equivalent month {m} is {now['k'][kj][m]!r} but the percent series gives {want!r}")
                    break
    except BaseException as e:  # noqa
        fail("re-audit failed: " + repr(e)[:200])
    return bad[:6]


# ------------------------------------------------------------------ the property, evaluated on one round

def relclose(a, b, tol, scale=0.0):
    return abs(a - b) <= tol * max(abs(a), abs(b), scale)


def audit_round(rec):
    """-> list of {kind, what}.  Bounds: see harness/props/c04.py (rule)."""
    bad = []
    o = rec["obs"]
    n = rec["n"]

    def fail(kind, what):
        bad.append({"kind": kind, "what": what, "title": rec["title"]})

    need, pop, km = rec["need"], rec["pop"], rec["km"]
    v = rec["vars"]
    zero = [0.0] * n
    # (a) each contribution equals the optimiser's allocation converted to the reporting unit
    alloc = {  # billion kcals to humans per food, from the captured variable values / the round's given series
        "stored_food": v["stored_food_to_humans"] or zero, "outdoor_crops": v["crops_food_to_humans"] or zero,
        "seaweed": [x * rec["sw_kcals"] for x in (v["seaweed_to_humans"] or zero)],
        "cell_sugar": v["cellulosic_sugar_to_humans"] or zero, "scp": v["methane_scp_to_humans"] or zero,
        "greenhouse": rec["series"]["greenhouse"], "fish": rec["series"]["fish"], "meat": v["meat_eaten"] or zero,
        "milk": rec["series"]["milk"]}
    pct = {"stored_food": rec["sf_pct"], "outdoor_crops": rec["cr_pct"]}
    for k, name in enumerate(ci.P_FIELDS):
        pct[name] = o["p"][k]
    kd = rec["settings"]["kcals_daily"]
    for name, a in alloc.items():
        if len(pct[name]) != n:
            fail("length", f"{name}: {len(pct[name])} months reported for NMONTHS={n}")
            continue
        for m in range(n):
            want = 100.0 * a[m] / need
            if not relclose(pct[name][m], want, 1e-9, 1e-12):
                fail("conversion", f"{name} month {m}: reported {pct[name][m]!r} percent, allocation {a[m]!r} billion kcals "
                                   f"converts to {want!r}")
                break
    ke_of = {"fish": "fish", "cell_sugar": "cell_sugar", "scp": "scp", "greenhouse": "greenhouse", "seaweed": "seaweed",
             "milk": "milk", "meat": "meat", "stored_food": "stored_food"}
    for j, col in enumerate(ci.CSV_COLUMNS):
        if col not in ke_of:
            continue
        a = alloc[ke_of[col]]
        for m in range(n):
            want = a[m] * 1e9 / (30.0 * pop)
            if not relclose(o["k"][j][m], want, 1e-9, 1e-12):
                fail("conversion", f"{col} kcals-equivalent month {m}: reported {o['k'][j][m]!r}, allocation converts to {want!r}")
                break
    if abs(km - kd * 30) > 1e-9 * km or not relclose(need, kd * 30 * pop / 1e9, 1e-12):
        fail("settings", f"KCALS_MONTHLY {km} / BILLION_KCALS_NEEDED {need} do not match the conversion settings")
    # (b) headline = min over months of the sum of the per-food contributions
    names9 = ["stored_food", "outdoor_crops", "seaweed", "cell_sugar", "scp", "greenhouse", "fish", "meat", "milk"]
    sums = [sum(pct[k][m] for k in names9) for m in range(n)]
    head = o["head"]
    if not relclose(head, min(sums), 1e-9, 1e-9):
        fail("headline", f"headline {head!r} != min over months of the per-food sum {min(sums)!r}")
    if o["sum"] != o["kcals_fed"] or any(not relclose(a, b, 1e-9, 1e-9) for a, b in zip(o["sum"], sums)):
        fail("headline", "monthly total kept on the interpreter differs from the per-food sum")
    # with the rounded stored series (what the interpreter keeps as stored_food / outdoor_crops)
    kept = dict(pct)
    kept["stored_food"], kept["outdoor_crops"] = o["q"][0], o["q"][1]
    sums_kept = [sum(kept[k][m] for k in names9) for m in range(n)]
    if abs(min(sums_kept) - head) > 2 * 0.0005 + 1e-9 * max(1.0, abs(head)):
        fail("rounded", f"breakdown kept on the interpreter sums to {min(sums_kept)!r}, headline {head!r}")
    for (j, d, src) in ((0, 3, rec["sf_pct"]), (1, 3, rec["cr_pct"]), (2, 1, rec["imm_pct"]), (3, 3, rec["ns_pct"]), (4, 3, o["p"][0])):
        for m in range(n):
            if abs(o["q"][j][m] - src[m]) > 0.5 * 10 ** (-d) * (1 + 1e-9) + 1e-12:
                fail("rounded", f"{ci.Q_FIELDS[j]} month {m}: kept {o['q'][j][m]!r}, unrounded {src[m]!r}")
                break
    # (c) headline against the optimiser's own optimum
    pfm = rec["pfm"]
    if rec["ty"] == "to_humans":
        if not (head >= pfm * (1 - 1e-4) - 1e-9 and head <= pfm * (1 + 1e-6) + 1e-7):
            # CBC accepts a row violated by about 1e-7 (absolute): for an optimum below ~1e-3 percent the floor row
            # 0.99995*v <= consumed_m can be missed by more than 0.01 % of v although by less than 1e-6 percentage points
            near_zero = abs(head - pfm) <= 1e-6
            fail("optimum-near-zero" if near_zero else "optimum",
                 f"headline {head!r} vs first-solve objective {pfm!r}: relative {(head - pfm) / pfm if pfm else 0!r}, "
                 f"absolute {head - pfm!r}")
        c = rec["consumed"]
        if c is None or len(c) != n:
            fail("optimum", "consumed_kcals variables missing")
        else:
            if not (relclose(min(c), head, 1e-6) or abs(min(c) - head) <= 1e-7):
                fail("optimum", f"min consumed_kcals variable {min(c)!r} vs headline {head!r}")
            for m in range(n):
                if not (relclose(c[m], sums[m], 1e-6) or abs(c[m] - sums[m]) <= 1e-7):
                    fail("optimum", f"month {m}: consumed_kcals {c[m]!r} vs per-food sum {sums[m]!r}")
                    break
    else:
        a = rec["aux"]
        feed = sum(sum(x) for x in ((a["stored_food_feed"] or zero), (v["crops_food_feed"] or zero),
                                    [y * rec["sw_kcals"] for y in (a["seaweed_feed"] or zero)],
                                    (a["cellulosic_sugar_feed"] or zero), (a["methane_scp_feed"] or zero)))
        bio = sum(sum(x) for x in ((a["stored_food_biofuel"] or zero), (v["crops_food_biofuel"] or zero),
                                   [y * rec["sw_kcals"] for y in (a["seaweed_biofuel"] or zero)],
                                   (a["cellulosic_sugar_biofuel"] or zero), (a["methane_scp_biofuel"] or zero)))
        got = 2 / 3 * feed + bio / 3
        if not (got >= pfm * (1 - 1e-4) - 1e-6 and got <= pfm * (1 + 1e-6) + 1e-6):
            fail("optimum", f"round 2: 2/3 feed + 1/3 biofuel = {got!r} vs first-solve objective {pfm!r}")
    # (c') hand-off link: the reported feed / biofuel sums converted back are the sums of the captured variables
    a = rec["aux"]
    fb = rec["fb"]
    for use, back, cr_key in (("feed", fb["feed_back"], "crops_food_feed"), ("biofuel", fb["bio_back"], "crops_food_biofuel")):
        parts = [a[f"stored_food_{use}"] or zero, v[cr_key] or zero, [y * rec["sw_kcals"] for y in (a[f"seaweed_{use}"] or zero)],
                 a[f"cellulosic_sugar_{use}"] or zero, a[f"methane_scp_{use}"] or zero]
        want = [sum(p[m] for p in parts) for m in range(n)]
        sc = max([abs(x) for x in want] + [1e-12])
        if len(back) != n:
            fail("feed-link", f"{use}: {len(back)} months reported for NMONTHS={n}")
            continue
        for m in range(n):
            if abs(back[m] - want[m]) > 1e-9 * sc:
                fail("feed-link", f"{use} month {m}: reported sum converts back to {back[m]!r} billion kcals, captured variables sum to {want[m]!r}")
                break
        if rec["ty"] == "to_humans" and any(x is not None for x in parts[:1]) or rec["ty"] == "to_humans" and sc > 1e-12:
            ch = rec["charge"][use]
            for m in range(n):
                if abs(back[m] - ch[m]) > 1e-6 * max(abs(ch[m]), abs(back[m])) + 1e-6:
                    fail("feed-link", f"{use} month {m}: reported sum converts back to {back[m]!r}, the round's charge is {ch[m]!r}")
                    break
    if fb["units"] != ["kcals per person per day each month"] * 2:
        fail("units", f"hand-off sums carry units {fb['units']}")
    # (d) table on disk
    for w in rec["csv_failures"][:3]:
        fail("csv", w)
    # (e) crop split
    e_cr, e_imm, e_ns = o["e"][1], o["e"][9], o["e"][10]
    sc = max([abs(x) for x in e_cr] + [abs(x) / km for x in rec["series"]["crops_prod"]] + [1e-300])
    for m in range(n):
        if abs(e_imm[m] + e_ns[m] - e_cr[m]) > 1e-9 * sc:
            fail("split", f"month {m}: immediate {e_imm[m]!r} + new stored {e_ns[m]!r} != eaten {e_cr[m]!r} (billion people fed)")
            break
        if e_ns[m] < 0:
            fail("split", f"month {m}: new stored {e_ns[m]!r} negative")
            break
    # sign of the part eaten immediately: extractor series, unrounded percent, returned column, saved csv column
    for label, series in (("extractor immediate_outdoor_crops (billion people fed)", e_imm),
                          ("immediate_outdoor_crops percent (unrounded)", rec["imm_pct"]),
                          ("immediate_outdoor_crops_kcals_equivalent", o["k"][7]),
                          ("csv column immediate_outdoor_crops", rec.get("csv_imm") or [])):
        # a solver returns values within its feasibility tolerance (about 1e-7 billion kcals, also on the wrong side of 0):
        # negative means negative beyond that, expressed in the unit of each series (all four are the same quantity)
        tol_bpf = 1e-9 * sc + 1e-6 / km
        top_e = max([abs(x) for x in e_imm] + [0.0])
        top_s = max([abs(x) for x in series] + [0.0])
        tol = tol_bpf * (top_s / top_e if top_e > tol_bpf else 0.0) + 1e-9 * top_s
        if series is e_imm:
            tol = tol_bpf
        negm = [m for m, x in enumerate(series) if x < -tol]
        if negm:
            fail("crop-split-negative", f"{label} negative in {len(negm)} months, e.g. month {negm[0]}: {series[negm[0]]!r} "
                                        f"(min {min(series)!r})")
            break
    sck = sc * 1e9 / pop * kd
    for m in range(n):
        if abs(o["k"][7][m] + o["k"][8][m] - rec["cr_ke"][m]) > 1e-9 * sck:
            fail("split", f"month {m}: saved columns immediate {o['k'][7][m]!r} + new stored {o['k'][8][m]!r} != crops eaten {rec['cr_ke'][m]!r}")
            break
    if not o["units_ok"]:
        fail("units", "unexpected unit labels on the interpreter's series")
    if rec["include"] != [False, False]:
        fail("scope", "fat / protein tracking switched on: outside the modelled scope")
    return bad


def nontrivial(rec):
    """a round says something when several foods contribute and both split branches / storage are exercised"""
    o = rec["obs"]
    nfoods = sum(1 for s in ([rec["sf_pct"], rec["cr_pct"]] + o["p"]) if max(s, default=0) > 1e-6)
    imm, ns = o["e"][9], o["e"][10]
    return {"foods": nfoods, "split_stored": any(x > 0 for x in ns), "split_only_immediate": any(x == 0 for x in ns),
            "seaweed": max(o["p"][0], default=0) > 1e-6, "scp": max(o["p"][2], default=0) > 1e-6,
            "cs": max(o["p"][1], default=0) > 1e-6}


def slim(rec):
    return {k: rec[k] for k in ("title", "ty", "n", "pfm", "country")} | {"head": rec["obs"]["head"]}


def one(job):
    """spec = one run, or {"chain": [spec, ...]}: runs executed one after the other in this process under the SAME title
    and results directory (as run_model_no_trade does for all countries of one simulation); every round of every
    run of the chain is audited right after it returns, so the CSV must hold the result just returned."""
    idx, spec, want = job
    rounds = []
    out = {"idx": idx, "spec": spec, "error": None}
    chain = spec["chain"] if "chain" in spec else [spec]
    for pos, sp in enumerate(chain):
        before = len(rounds)
        try:
            launch(sp, rounds)
        except BaseException as e:  # noqa
            out["error"] = classify(e) + ": " + repr(e)[:300]
            out["trace"] = traceback.format_exc()[-1500:]
        for rec in rounds[before:]:
            rec["chain_pos"] = pos
    out["rounds"] = []
    for rec in rounds:
        r = slim(rec)
        r["chain_pos"] = rec.get("chain_pos", 0)
        r["failures"] = audit_round(rec) + rec.get("late_failures", [])
        r["nontrivial"] = nontrivial(rec)
        if want:
            r["data"] = {k: rec[k] for k in ("n", "km", "sw_kcals", "settings", "vars", "series", "obs", "aux", "fb")}
        out["rounds"].append(r)
    return out


def run(payload):
    if "replay" in payload:
        rep = payload["replay"]
        res = one((0, rep["spec"], False))
        return {"runs": [res]}
    ci.redirect_results()
    jobs = [(i, s, i < payload.get("want_data", 0)) for i, s in enumerate(payload["runs"])]
    procs = int(payload.get("procs", 1))
    # warm the imports / table before forking
    import src.scenarios.run_model_no_trade  # noqa
    table()
    if procs > 1:
        ctx = mp.get_context("fork")
        with ctx.Pool(procs) as pool:
            res = pool.map(one, jobs, chunksize=1)
    else:
        res = [one(j) for j in jobs]
    return {"runs": res}


if __name__ == "__main__":
    main_io(run)
