"""Implementation side of the LP checks (C01/C02/C12): builds / solves the real Optimizer on synthetic
instances and captures every optimiser call of real three-round runs.

payload: {"synthetic": [{"spec": lp_in-like dict, "solve": bool}], "real": [{"iso3":..., "option": {...}}],
          "rows_for_real": bool, "procs": int}
output : {"synthetic": [record|{"error":..}], "real": [{"iso3","option","ratio","solves":[record],"error"}]}"""
import multiprocessing as mp
import os
import sys
import traceback
from types import SimpleNamespace as NS

import numpy as np

import runutil as ru
from implutil import classify, main_io


class Idx:
    """indexable series of objects with .kcals (stand-in for a monthly Food)"""

    def __init__(self, xs):
        self.xs = [float(x) for x in xs]
        self.kcals = np.array(self.xs)

    def __getitem__(self, m):
        return NS(kcals=self.xs[m])


class Pin:
    def __init__(self, xs):
        self.xs = xs

    def in_units_bil_kcals_thou_tons_thou_tons_per_month(self):
        return Idx(self.xs)


def make_consts(d):
    n = d["NM"]
    arr = lambda k: np.array([float(x) for x in d[k]])
    consts = {
        "NMONTHS": n, "POP": d["pop"], "KCALS_MONTHLY": d["kcals_monthly_pp"], "BILLION_KCALS_NEEDED": d["need"],
        "ADD_SEAWEED": d["add_sw"], "ADD_OUTDOOR_GROWING": d["add_cr"], "ADD_STORED_FOOD": d["add_sf"],
        "ADD_MEAT": d["add_meat"], "ADD_METHANE_SCP": d["add_scp"], "ADD_CELLULOSIC_SUGAR": d["add_cs"],
        "STORE_FOOD_BETWEEN_YEARS": d["store_years"],
        "STORED_FOOD_WASTE_RETAIL": d["w_sf"], "CROP_WASTE_RETAIL": d["w_cr"], "MEAT_WASTE_RETAIL": d["w_meat"],
        "SCP_RETAIL_WASTE": d["w_scp"], "CELL_SUGAR_RETAIL_WASTE": d["w_cs"], "SEAWEED_WASTE_RETAIL": d["w_sw"],
        "stored_food": NS(initial_available=NS(kcals=d["sf0"])), "meat_summed_consumption": d["meat_total"],
        "SEAWEED_KCALS": d["sw_kcals"], "INITIAL_SEAWEED": d["sw_init"], "INITIAL_BUILT_SEAWEED_AREA": d["sw_init_area"],
        "MINIMUM_DENSITY": d["sw_min_density"], "MAXIMUM_DENSITY": d["sw_max_density"], "HARVEST_LOSS": d["sw_harvest_loss"],
        "INITIAL_HARVEST_DURATION_IN_MONTHS": d["harvest_delay"], "DELAY": {"ROTATION_CHANGE_IN_MONTHS": 0},
        "OG_FRACTION_FAT": 0.1, "OG_FRACTION_PROTEIN": 0.1, "OG_ROTATION_FRACTION_FAT": 0.1,
        "OG_ROTATION_FRACTION_PROTEIN": 0.1,
        "inputs": {"INCLUDE_FAT": False, "INCLUDE_PROTEIN": False, "COUNTRY_CODE": "SYN",
                   "OG_USE_BETTER_ROTATION": d["relocated"]},
    }
    for food, tag in (("SEAWEED", "sw"), ("METHANE_SCP", "scp"), ("CELLULOSIC_SUGAR", "cs")):
        for use, u in (("HUMANS", "h"), ("FEED", "f"), ("BIOFUEL", "b")):
            consts["inputs"][f"MAX_{food}_AS_PERCENT_KCALS_{use}"] = d[f"cap_{tag}_{u}"]
    tc = {
        "outdoor_crops": NS(production=NS(kcals=arr("crops_prod"))), "milk_kcals": arr("milk"),
        "greenhouse_crops": Idx(d["greenhouse"]), "fish": NS(to_humans=NS(kcals=arr("fish"))),
        "methane_scp": NS(kcals=arr("scp_prod")), "cellulosic_sugar": NS(kcals=arr("cs_prod")),
        "built_area": arr("built_area"), "growth_rates_monthly": arr("growth"),
        "feed": NS(kcals=arr("feed_charge")), "biofuel": NS(kcals=arr("biofuel_charge")),
        "each_month_meat_slaughtered": Idx(d["meat_monthly"]),
        "max_consumed_culled_kcals_each_month": arr("meat_running"),
        "max_feed_that_could_be_used": NS(kcals=arr("max_feed")),
        "max_biofuel_that_could_be_used": NS(kcals=arr("max_biofuel")),
    }
    pins = {key: Pin(d["pin_" + tag]) for key, tag in (("outdoor_crops", "cr"), ("stored_food", "sf"), ("meat", "meat"),
                                                      ("methane_scp", "scp"), ("cellulosic_sugar", "cs"), ("seaweed", "sw"))}
    return consts, tc, pins


def run_synthetic(item):
    from pulp import LpMaximize, LpProblem
    from src.optimizer.optimizer import Optimizer
    d = item["spec"]
    ty = d["ty"]
    try:
        consts, tc, pins = make_consts(d)
        with ru.OptimizerCapture() as cap, ru.quiet():
            opt = Optimizer(consts, tc)
            if item.get("solve"):
                if ty == "to_humans":
                    opt.optimize_to_humans(consts, tc)
                else:
                    opt.optimize_feed_to_animals(consts, tc, pins)
                rec = cap.solves[-1]
                if item.get("repeat"):
                    # a caller re-solving with the SAME input objects (as every round of the pipeline and every
                    # sensitivity study does) must get the same optimum: the optimiser may not alter what it is given
                    opt2 = Optimizer(consts, tc)
                    if ty == "to_humans":
                        opt2.optimize_to_humans(consts, tc)
                    else:
                        opt2.optimize_feed_to_animals(consts, tc, pins)
                    rec = dict(rec, second_optimum=cap.solves[-1]["percent_fed_from_model"],
                               second_lp_in=cap.solves[-1]["lp_in"])
            else:
                if ty == "to_animals":
                    opt.time_consts["min_human_food_consumption"] = pins
                model = LpProblem(name="synthetic", sense=LpMaximize)
                opt.add_variables_and_constraints_to_model(model, opt.initial_variables.copy(), consts, ty)
                rec = opt._verif_rec
        if "capture_error" in rec:
            return {"error": "capture: " + rec["capture_error"]}
        return rec
    except BaseException as e:  # noqa
        return {"error": classify(e), "detail": str(e)[:300]}
    finally:
        ru.cleanup_cwd()


_WANT_ROWS = True


REPORTED = ("stored_food_feed", "stored_food_biofuels", "outdoor_crops_feed", "outdoor_crops_biofuels", "scp_feed",
            "scp_biofuels", "cell_sugar_feed", "cell_sugar_biofuels", "seaweed_feed", "seaweed_biofuels",
            # what is reported as eaten by people, per source
            "stored_food", "outdoor_crops", "seaweed", "cell_sugar", "scp", "greenhouse", "fish", "meat", "milk",
            "immediate_outdoor_crops", "new_stored_outdoor_crops", "immediate_outdoor_crops_kcals_equivalent")


def run_real(item):
    from src.scenarios.run_scenario import ScenarioRunner
    o_int = ScenarioRunner.interpret_optimizer_results
    reported = []

    def w_int(self_, *a, **k):
        r = o_int(self_, *a, **k)
        # what the interpreter REPORTS per source as fed to animals / turned into biofuel (the k-th call follows the k-th solve)
        try:
            rec = {}
            for name in REPORTED:
                f = getattr(r, name)
                rec[name] = {"kcals": [float(x) for x in np.asarray(f.kcals, dtype=float).ravel()], "units": str(f.kcals_units)}
            reported.append(rec)
        except Exception as e:  # never disturb the run
            reported.append({"capture_error": repr(e)})
        return r

    ScenarioRunner.interpret_optimizer_results = w_int
    try:
        with ru.OptimizerCapture(want_rows=_WANT_ROWS) as cap, ru.quiet():
            ratio, interp = ru.run_country(item["iso3"], item["option"], title=item.get("title", "verif"))
        if len(reported) == len(cap.solves):
            for s_, r_ in zip(cap.solves, reported):
                s_["reported"] = r_
        return {"iso3": item["iso3"], "option": item["option"], "ratio": float(ratio), "solves": cap.solves,
                "headline": float(interp.percent_people_fed)}
    except BaseException as e:  # noqa
        return {"iso3": item["iso3"], "option": item["option"], "error": classify(e), "detail": str(e)[:300],
                "trace": traceback.format_exc()[-1500:]}
    finally:
        ScenarioRunner.interpret_optimizer_results = o_int
        ru.cleanup_cwd()


def run(payload):
    global _WANT_ROWS
    _WANT_ROWS = bool(payload.get("rows_for_real", True))
    ru.redirect_results()
    import src.scenarios.run_model_no_trade  # noqa: import once before forking
    ru.table()
    procs = int(payload.get("procs", 8))
    syn = payload.get("synthetic", [])
    real = payload.get("real", [])
    out = {}
    ctx = mp.get_context("fork")
    with ctx.Pool(procs) as pool:
        out["synthetic"] = pool.map(run_synthetic, syn, chunksize=max(1, len(syn) // (procs * 4) or 1)) if syn else []
        out["real"] = pool.map(run_real, real, chunksize=1) if real else []
    return out


if __name__ == "__main__":
    main_io(run)
