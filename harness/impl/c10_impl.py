"""C10: run chains of Food.in_units / helper conversions on the implementation."""
import copy
import numpy as np
from implutil import classify, food_json, main_io, quiet
from src.food_system.food import Food


def mk(v):
    if v["monthly"]:
        return Food(np.array(v["kcals"], dtype=float), np.array(v["fat"], dtype=float),
                    np.array(v["protein"], dtype=float), v["ku"], v["fu"], v["pu"])
    return Food(float(v["kcals"]), float(v["fat"]), float(v["protein"]), v["ku"], v["fu"], v["pu"])


def run(payload):
    out = []
    for grp in payload["groups"]:
        s = grp["settings"]
        Food.conversions.set_nutrition_requirements(
            kcals_daily=s["kcals_daily"], fat_daily=s["fat_daily"], protein_daily=s["protein_daily"],
            include_fat=True, include_protein=True, population=s["population"])
        for case in grp["cases"]:
            res = {"steps": []}
            try:
                with quiet():
                    x = mk(case["food"])
                res["start"] = food_json(x)
            except BaseException as e:
                res["start"] = None
                res["start_err"] = classify(e)
                out.append(res)
                continue
            before = copy.deepcopy(food_json(x))
            for st in case["steps"]:
                try:
                    with quiet():
                        if "helper" in st:
                            y = getattr(x, st["helper"])()
                        else:
                            y = x.in_units(*st["to"])
                    res["steps"].append(food_json(y))
                    x = y
                except BaseException as e:
                    res["steps"].append({"err": classify(e)})
                    break
            res["operand_unchanged"] = (before == res["start"])
            out.append(res)
    return {"results": out}


if __name__ == "__main__":
    main_io(run)
