"""C07: call AnimalSpecies.feed_the_species / AnimalPopulation.feed_animals /
AnimalModelBuilder.get_optimal_next_animal_to_feed directly on generated herds.  Run by /venv/bin/python, cwd=/repo."""
import numpy as np
from implutil import classify, main_io, quiet
import src.food_system.animal_populations as ap
from src.food_system.food import Food


def mk_animal(name, cur, lsu, dig, eg, ef, size="medium", afc=1.0):
    a = ap.AnimalSpecies(name, name.replace("milk_", "").replace("meat_", ""))
    a.set_animal_attributes(population=cur, slaughter=0, animal_function="milk" if "milk" in name else "meat",
                            livestock_unit=lsu, digestion_type=dig, animal_size=size, approximate_feed_conversion=afc,
                            digestion_efficiency_grass=eg, digestion_efficiency_feed=ef)
    return a


def species_case(c):
    try:
        a = mk_animal("meat_goat", abs(c["cur"]), 1.0, "ruminant" if c["rum"] else "monogastric", c["eg"], c["ef"])
        a.current_population = c["cur"]
        a.population_fed = c["fed_old"]
        a.NE_balance = Food(c["bal"], 0, 0)
        g, f = Food(c["g"], 0, 0), Food(c["f"], 0, 0)
        with quiet():
            g2, f2 = a.feed_the_species(g, f, c["rum"])
        return {"out": [float(g2.kcals), float(f2.kcals), float(a.NE_balance.kcals), float(a.population_fed)],
                "same": g2 is g and f2 is f}
    except BaseException as e:  # noqa
        return {"err": classify(e)}


def chain_case(c):
    try:
        animals = []
        for i, s in enumerate(c["species"]):
            a = mk_animal(f"herd{i}", 1.0, s["lsu"], s["dig"], s["eg"], s["ef"])
            a.LSU_factor = s["lsuf"]
            a.population_fed = s["fed_old"]
            if c.get("one_lsu") is not None:
                v = float(c["one_lsu"])
                a.one_LSU_monthly_billion_kcal = (lambda v=v: v)   # test double of the constant (exact-grid cases only)
            animals.append(a)
        ruminants = [a for a in animals if a.digestion_type == "ruminant"]
        rounds = []
        for r in c["rounds"]:
            for a, cur in zip(animals, r["curs"]):
                a.current_population = cur
            calls = []
            orig = ap.AnimalSpecies.feed_the_species

            def fts(self_a, grass_input, feed_input, is_ruminant=False, calls=calls, orig=orig):
                rec = {"i": animals.index(self_a), "req": float(self_a.NE_balance.kcals), "g": float(grass_input.kcals),
                       "f": float(feed_input.kcals), "rum": bool(is_ruminant)}
                out = orig(self_a, grass_input, feed_input, is_ruminant)
                rec["out"] = [float(out[0].kcals), float(out[1].kcals), float(self_a.NE_balance.kcals), float(self_a.population_fed)]
                calls.append(rec)
                return out
            ap.AnimalSpecies.feed_the_species = fts
            try:
                with quiet():
                    fleft, gleft = ap.AnimalPopulation.feed_animals(animals, ruminants, Food(r["f"], 0, 0), Food(r["g"], 0, 0))
                    for a in animals:
                        a.population_starving_pre_slaughter = []
                    ap.AnimalPopulation.calculate_starving_animals_after_feed(animals)
            finally:
                ap.AnimalSpecies.feed_the_species = orig
            rounds.append({"calls": calls, "g_left": float(gleft.kcals), "f_left": float(fleft.kcals),
                           "starving": [float(a.population_starving_pre_slaughter[-1]) for a in animals],
                           "final": [[float(a.NE_balance.kcals), float(a.population_fed)] for a in animals]})
        return {"rounds": rounds}
    except BaseException as e:  # noqa
        return {"err": classify(e) + ": " + str(e)[:200]}


_df = None


def order_case(c):
    global _df
    try:
        if _df is None:
            _df = ap.AnimalDataReader.read_animal_nutrition_data("species_attributes.csv")
        d = {}
        for s in c["animals"]:
            a = mk_animal(s["type"], 10.0, s["lsu"], "ruminant", 0.6, s["ef"], size=s["size"])
            a.LSU_factor = s["lsuf"]
            d[s["type"]] = a
        names = list(d.keys())
        with quiet():
            out = ap.AnimalModelBuilder.get_optimal_next_animal_to_feed(d, c["kdict"], _df)
        return {"keys": [float(d[n].net_kcals_gained_per_hour_slaughter_this_month) for n in names],
                "order": [names.index(n) for n in out.keys()],
                "hours": [float(_df.loc[n]["animal_slaughter_hours"]) for n in names],
                "same_objects": all(out[n] is d[n] for n in names) and len(out) == len(names)}
    except BaseException as e:  # noqa
        return {"err": classify(e) + ": " + str(e)[:200]}


def run(payload):
    return {"species": [species_case(c) for c in payload.get("species_cases", [])],
            "chains": [chain_case(c) for c in payload.get("chain_cases", [])],
            "orders": [order_case(c) for c in payload.get("order_cases", [])]}


if __name__ == "__main__":
    main_io(run)
