"""C15: run ScenarioRunnerNoTrade.run_model_no_trade on the implementation with run_optimizer_for_country replaced
(harness side) by a stub that returns a prescribed fraction per country.

payload: {"cases": [{"list": [str], "fracs": {iso3: float | "nan"}, "default": float, "scenario_option": {..},
                     "overrides": [[iso3, column, float | "nan"]], "ret": bool, "use_get": bool}], "real": [...]}
result per case: {"err": kind} | {"net_pop", "net_fed", "keys", "calls", "world", "run_skip"}
Nothing is written to /repo: no pptx, no csv (create_pptx_with_all_countries=False, save_all_results=False)."""
import math
import os
import types

import numpy as np
import pandas as pd

from implutil import classify, main_io, quiet

import src.scenarios.run_model_no_trade as M

REAL_READ_CSV = pd.read_csv
REAL_GPD = M.gpd


class Proxy:
    """module proxy: every attribute of the wrapped module, a few overridden"""

    def __init__(self, mod, **over):
        self.__dict__["_mod"] = mod
        self.__dict__["_over"] = over

    def __getattr__(self, k):
        if k in self._over:
            return self._over[k]
        return getattr(self._mod, k)


STATE = {"table": None, "world": None, "overrides": [], "fracs": {}, "default": 0.0, "calls": []}


def read_csv(path, *a, **k):
    if str(path).endswith("computer_readable_combined.csv"):
        if STATE["table"] is None:
            STATE["table"] = REAL_READ_CSV(path, *a, **k)
        t = STATE["table"].copy()
        for code, col, val in STATE["overrides"]:
            v = float("nan") if val == "nan" else val
            if t[col].dtype.kind == "i":
                t[col] = t[col].astype(float)
            t.loc[t["iso3"] == code, col] = v
        return t
    return REAL_READ_CSV(path, *a, **k)


def read_file(path, *a, **k):
    if STATE["world"] is None:
        STATE["world"] = REAL_GPD.read_file(path, *a, **k)
    return STATE["world"].copy()


class _Series:
    kcals = [0.0, 1.0]


class FakeResults:
    """just enough of an Interpreter for save_all_results_to_csv (the only consumer in run_model_no_trade)"""

    def __init__(self, code):
        self.iso3 = code
        self.animal_population_dictionary = {"cattle": [1, 2]}
        self.meat_dictionary = {"beef": [1.0, 2.0]}
        self.percent_people_fed = 0.0

    def __getattr__(self, k):
        if k.endswith("_kcals_equivalent"):
            return _Series()
        raise AttributeError(k)


def private_root():
    """files run_model_no_trade may write (save_all_results) go to $VERIF_WORK, never to the repository"""
    work = os.environ.get("VERIF_WORK", "/verif/work/C15")
    root = os.path.join(work, "c15root_%d" % os.getpid())
    if not os.path.isdir(root):
        os.makedirs(os.path.join(root, "results"))
        os.symlink(os.path.join(os.getcwd(), "data"), os.path.join(root, "data"))
    M.repo_root = root
    return os.path.join(root, "results")


def stub(self, country_data, scenario_option, create_pptx_with_all_countries, show_country_figures, save_all_results,
         figure_save_postfix="", title="Untitled"):
    code = country_data["iso3"]
    STATE["calls"].append(code)
    f = STATE["fracs"].get(code, STATE["default"])
    f = float("nan") if f == "nan" else float(f)
    return (f, "stubbed scenario", FakeResults(code))


class FakeLoader:
    scenario_description = "stubbed scenario"


def fake_set_depending_on_option(self, scenario_option, country_data=None):
    return ({}, {}, FakeLoader())


class FakeScenarioRunner:
    """deep stub: replaces the ScenarioRunner that run_optimizer_for_country instantiates, so that the REAL
    run_optimizer_for_country (its try/except flag, the /100, what it returns) is executed"""

    def run_and_analyze_scenario(self, constants_for_params, time_consts_for_params, scenario_loader,
                                 create_pptx_with_all_countries, show_country_figures, figure_save_postfix, country_data,
                                 save_all_results, country_name, country_iso3, title="Untitled"):
        code = country_data["iso3"]
        STATE["calls"].append(code)
        if code == STATE.get("raise_for"):
            raise RuntimeError("stubbed optimisation failure for " + code)
        f = STATE["fracs"].get(code, STATE["default"])
        r = FakeResults(code)
        r.percent_people_fed = float("nan") if f == "nan" else float(f) * 100
        return r


REAL_SCENARIO_RUNNER = M.ScenarioRunner


def install(deep):
    cls = M.ScenarioRunnerNoTrade
    if deep:
        cls.run_optimizer_for_country = ORIG_RUN_OPT
        cls.set_depending_on_option = fake_set_depending_on_option
        M.ScenarioRunner = FakeScenarioRunner
    else:
        cls.run_optimizer_for_country = stub
        if "set_depending_on_option" in cls.__dict__:
            del cls.set_depending_on_option
        M.ScenarioRunner = REAL_SCENARIO_RUNNER


def num(x):
    x = float(x)
    return "nan" if math.isnan(x) else x


RUNNER = {"obj": None}


def run_case(case):
    """case["reuse"]: call on the SAME runner object as the previous case (as run_many_options does);
    case["via_many"]: go through run_many_options([option, option]) and report the SECOND inner call"""
    STATE["overrides"] = case.get("overrides", [])
    STATE["fracs"] = case.get("fracs", {})
    STATE["default"] = case.get("default", 0.0)
    STATE["calls"] = []
    STATE["raise_for"] = case.get("raise_for")
    install(bool(case.get("deep")))
    if not case.get("reuse") or RUNNER["obj"] is None:
        RUNNER["obj"] = M.ScenarioRunnerNoTrade()
    runner = RUNNER["obj"]
    out = {}
    resdir = private_root()
    for f in os.listdir(resdir):
        os.remove(os.path.join(resdir, f))
    try:
        with quiet():
            out["run_skip"] = [list(x) for x in runner.get_countries_to_run_and_skip(list(case["list"]))]
            if case.get("via_many"):
                captured = []
                inner = type(runner).run_model_no_trade

                def wrapped(*a, **k):
                    STATE["calls"] = []
                    r = inner(runner, *a, **k)
                    captured.append(r)
                    return r

                runner.run_model_no_trade = wrapped
                try:
                    runner.run_many_options([case["scenario_option"], case["scenario_option"]], "verif_c15",
                                            add_map_slide_to_pptx=False, show_map_figures=False,
                                            countries_list=list(case["list"]), return_results=False)
                finally:
                    del runner.run_model_no_trade
                out["inner_calls"] = len(captured)
                world, net_pop, net_fed, results = captured[-1]
            else:
                world, net_pop, net_fed, results = runner.run_model_no_trade(
                    title="verif_c15", create_pptx_with_all_countries=False, show_country_figures=False,
                    show_map_figures=False, add_map_slide_to_pptx=False, scenario_option=case["scenario_option"],
                    countries_list=list(case["list"]), return_results=case.get("ret", True),
                    save_all_results=bool(case.get("save", False)))
    except BaseException as e:
        return {"err": classify(e), "msg": str(e)[:200], "calls": list(STATE["calls"])}
    out["saved_files"] = sorted(os.listdir(resdir))
    out["net_pop"] = num(net_pop)
    out["net_fed"] = num(net_fed)
    out["keys"] = list(results.keys())
    out["calls"] = list(STATE["calls"])
    w = world[["iso_a3", "needs_ratio"]] if "needs_ratio" in world.columns else None
    out["world"] = {} if w is None else {r.iso_a3: float(r.needs_ratio) for r in w.itertuples() if not math.isnan(r.needs_ratio)}
    return out


ORIG_RUN_OPT = M.ScenarioRunnerNoTrade.run_optimizer_for_country


def run_real(case):
    """un-stubbed run: the real optimiser, wrapped only to record what it returned per country"""
    import runutil
    runutil.redirect_results()
    rec = []

    def wrapped(self, country_data, *a, **k):
        out = ORIG_RUN_OPT(self, country_data, *a, **k)
        rec.append([str(country_data["iso3"]), str(country_data["country"]), float(country_data["population"]), num(out[0])])
        return out

    M.ScenarioRunnerNoTrade.run_optimizer_for_country = wrapped
    runner = M.ScenarioRunnerNoTrade()
    try:
        with quiet():
            world, net_pop, net_fed, results = runner.run_model_no_trade(
                title="verif_c15", create_pptx_with_all_countries=False, show_country_figures=False,
                show_map_figures=False, add_map_slide_to_pptx=False, scenario_option=dict(case["scenario_option"]),
                countries_list=list(case["list"]), return_results=True, save_all_results=False)
    except BaseException as e:
        runutil.cleanup_cwd()
        return {"err": classify(e), "msg": str(e)[:300], "rec": rec}
    runutil.cleanup_cwd()
    return {"net_pop": num(net_pop), "net_fed": num(net_fed), "keys": list(results.keys()), "rec": rec,
            "percent_people_fed": {k: num(v.percent_people_fed) for k, v in results.items()}}


def run(payload):
    real = [run_real(c) for c in payload.get("real", [])]
    M.pd = Proxy(pd, read_csv=read_csv)
    M.gpd = Proxy(REAL_GPD, read_file=read_file)
    res = [run_case(c) for c in payload["cases"]]
    # the population column as the implementation reads it (for the audit)
    t = REAL_READ_CSV(M.Path(M.repo_root) / "data" / "no_food_trade" / "computer_readable_combined.csv")
    table = [[r.iso3, r.country, float(r.population)] for r in t.itertuples()]
    return {"results": res, "real": real, "table": table, "world_codes": sorted(set(STATE["world"]["iso_a3"])) if STATE["world"] is not None else []}


if __name__ == "__main__":
    main_io(run)
