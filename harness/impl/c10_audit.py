"""C10 direct audit of the implementation: round trip, triangle, suffix spellings, shape, anchors."""
import itertools
import random
import numpy as np
from implutil import classify, food_json, main_io, quiet
from src.food_system.food import Food

SUFFIXES = ["", " each month", " per month"]
TOL = 1e-11
DEFAULT = {"kcal": "billion kcals", "fat": "thousand tons", "protein": "thousand tons"}
IDX = {"kcal": 0, "fat": 1, "protein": 2}


def sfx_of(u):
    for s in SUFFIXES[1:]:
        if u.endswith(s):
            return s
    return ""


def base_of(u):
    s = sfx_of(u)
    return u[: len(u) - len(s)] if s else u


def rel(a, b):
    a = np.asarray(a, dtype=float); b = np.asarray(b, dtype=float)
    if a.shape != b.shape:
        return float("inf")
    d = np.abs(a - b)
    m = np.maximum(np.abs(a), np.abs(b))
    with np.errstate(divide="ignore", invalid="ignore"):
        r = np.where(m == 0, 0.0, d / m)
    return float(np.max(r)) if r.size else 0.0


def mkfood(nutrient, unit, vals):
    sfx = sfx_of(unit)
    labels = [DEFAULT[n] + sfx for n in ("kcal", "fat", "protein")]
    labels[IDX[nutrient]] = unit
    if sfx == " each month":
        arr = np.array(vals, dtype=float)
        if len(vals) % 2 == 1:   # the documented way: python lists (the constructor turns them into arrays)
            return Food(list(arr), list(arr * 0.5), list(arr * 0.25), *labels)
        return Food(arr.copy(), arr.copy() * 0.5, arr.copy() * 0.25, *labels)
    return Food(float(vals[0]), float(vals[0]) * 0.5, float(vals[0]) * 0.25, *labels)


def val(food, nutrient):
    return [food.kcals, food.fat, food.protein][IDX[nutrient]]


def targets(nutrient, unit):
    t = [DEFAULT["kcal"], DEFAULT["fat"], DEFAULT["protein"]]
    t[IDX[nutrient]] = unit
    return t



FLAG_SETTINGS = [(True, True), (True, False), (False, True), (False, False)]
COLLAPSE = {"get_nutrients_sum": np.sum, "get_min_all_months": np.min, "get_max_all_months": np.max}


def labels3(f):
    return [f.kcals_units, f.fat_units, f.protein_units]


def set_req(s, incf=True, incp=True):
    Food.conversions.set_nutrition_requirements(
        kcals_daily=s["kcals_daily"], fat_daily=s["fat_daily"], protein_daily=s["protein_daily"],
        include_fat=incf, include_protein=incp, population=s["population"])


def audit_collapse(nutrient, u, v, x, y, s, fail, stats):
    """multi-step history: an each-month series is collapsed to a total (sum / min / max over the months), THEN converted
    and converted back: labels (the three *_units and the .units list), form (single value, no monthly suffix) and
    values (collapse-then-convert == convert-then-collapse: all multipliers are positive) are checked at every step"""
    i = IDX[nutrient]
    for how, red in COLLAPSE.items():
        stats["shape_cases"] += 1
        try:
            with quiet():
                t = getattr(x, how)()
                a = t.in_units(*targets(nutrient, v))
                back = a.in_units(*targets(nutrient, base_of(u)))
        except BaseException as e:
            fail("conversion-rejected", f"{nutrient}: {how}() of '{u}' -> '{v}' -> back raised {classify(e)}", s,
                 nutrient=nutrient, u=u, v=v, how=how)
            continue
        steps = (("collapsed", t, base_of(u)), ("collapsed then converted", a, v), ("converted back", back, base_of(u)))
        bad = False
        for nm, f, want in steps:
            if f.is_list_monthly() or labels3(f)[i] != want or list(f.units) != labels3(f) or \
                    any(sfx_of(L) != "" for L in labels3(f)):
                fail("collapse-then-convert", f"{nutrient}: {how}() of a series in '{u}', target '{v}': the {nm} quantity is "
                     f"{'a series' if f.is_list_monthly() else 'a single value'} labelled {labels3(f)} with units list "
                     f"{list(f.units)}; expected a single value in '{want}'", s, nutrient=nutrient, u=u, v=v, how=how)
                bad = True
                break
        if bad:
            continue
        want = red(np.asarray(val(y, nutrient), dtype=float))
        if rel(val(a, nutrient), want) > TOL or rel(val(back, nutrient), val(t, nutrient)) > TOL:
            fail("collapse-then-convert", f"{nutrient}: {how}() then '{u}' -> '{v}' gives {val(a, nutrient)}, converting the series "
                 f"first gives {want}; back {val(back, nutrient)} vs {val(t, nutrient)}", s, nutrient=nutrient, u=u, v=v, how=how)


def audit_small_and_partial(tables, s, fail, stats, rng):
    """tiny magnitudes (1e-12 .. 1e-8) and quantities with zero kcals but non-zero fat / protein, under all four
    include_fat / include_protein settings: round trip, labels, and the percent-fed anchor"""
    for incf, incp in FLAG_SETTINGS:
        set_req(s, incf, incp)
        fl = {"include_fat": incf, "include_protein": incp}
        for nutrient, table in tables.items():
            keys = list(table.keys())
            bare = [k for k in keys if sfx_of(k) == ""]
            for u in keys:
                v = bare[(keys.index(u) + (1 if incf else 2) + (1 if incp else 0)) % len(bare)]
                if v == base_of(u):
                    v = bare[(bare.index(v) + 1) % len(bare)]
                mag = 10.0 ** rng.uniform(-12, -8)
                vals = [mag * f for f in (1.0, 2.5, 0.25)][: rng.choice((1, 2, 3))]
                stats["pairs"] += 1
                try:
                    with quiet():
                        x = mkfood(nutrient, u, vals)
                        y = x.in_units(*targets(nutrient, v))
                        z = y.in_units(*targets(nutrient, base_of(u)))
                except BaseException as e:
                    fail("conversion-rejected", f"{nutrient}: tiny '{u}' -> '{v}' raised {classify(e)} ({fl})", s, nutrient=nutrient,
                         u=u, v=v, flags=fl)
                    continue
                want = np.asarray(val(x, nutrient), dtype=float) * (table[v + sfx_of(u)] / table[u])
                if rel(val(y, nutrient), want) > TOL or rel(val(z, nutrient), val(x, nutrient)) > TOL:
                    fail("tiny-quantity", f"{nutrient}: {np.asarray(val(x, nutrient)).tolist()} '{u}' -> '{v}' gives "
                         f"{np.asarray(val(y, nutrient)).tolist()} (multipliers give {want.tolist()}), back "
                         f"{np.asarray(val(z, nutrient)).tolist()} ({fl})", s, nutrient=nutrient, u=u, v=v, flags=fl)
        # zero kcals, non-zero fat and protein (and the other partial patterns), every form
        c = Food.conversions
        need = [c.billion_kcals_needed, c.thou_tons_fat_needed, c.thou_tons_protein_needed]
        for pattern in ((0.0, 3.0, 5.0), (0.0, 0.0, 5.0), (0.0, 3.0, 0.0), (2.0, 0.0, 0.0), (0.0, 0.0, 0.0)):
            for sfx in SUFFIXES:
                stats["anchors"] += 3
                lab = [DEFAULT["kcal"] + sfx, DEFAULT["fat"] + sfx, DEFAULT["protein"] + sfx]
                try:
                    with quiet():
                        if sfx == " each month":
                            x = Food(*[np.array([p, 2 * p]) for p in pattern], *lab)
                        else:
                            x = Food(*pattern, *lab)
                        y = x.in_units_percent_fed()
                        z = y.in_units_bil_kcals_thou_tons_thou_tons_per_month()
                except BaseException as e:
                    fail("conversion-rejected", f"partial quantity {pattern} '{sfx}' raised {classify(e)} ({fl})", s, flags=fl)
                    continue
                for n_, g, w, p, b in zip(("kcals", "fat", "protein"), (y.kcals, y.fat, y.protein), need, pattern,
                                          (z.kcals, z.fat, z.protein)):
                    first = float(np.asarray(g, dtype=float).ravel()[0])
                    if rel(first, 100.0 * p / w) > TOL or rel(float(np.asarray(b, dtype=float).ravel()[0]), p) > TOL:
                        fail("partial-quantity", f"quantity (kcals, fat, protein) = {pattern}{' (x1, x2) each month' if sfx == ' each month' else sfx}: "
                             f"{n_} {p} converts to {first} percent fed (requirement {w} -> expected {100.0 * p / w}), back "
                             f"{float(np.asarray(b, dtype=float).ravel()[0])} ({fl})", s, nutrient=n_, pattern=list(pattern), flags=fl)
                        break
    set_req(s, True, True)


def run(payload):
    failures = []
    stats = {"pairs": 0, "triples": 0, "anchors": 0, "shape_cases": 0, "max_rel_err": 0.0, "distinct": 0}
    if "replay" in payload:
        rep = payload["replay"]
        payload = {"settings": rep.get("history") or [rep["settings"]], "triples": "all", "seed": rep.get("seed", 0),
                   "no_followups": bool(rep.get("history"))}
    rng = random.Random(payload["seed"])

    done = []

    def fail(kind, what, s, **kw):
        failures.append({"kind": kind, "what": what, "settings": s, "history": list(done), **kw})

    hist = []
    for s0 in payload["settings"]:
        hist.append(s0)
        if payload.get("no_followups"):
            continue
        # histories: re-establish the settings with ONE field changed (a stale derived value or cache shows up here)
        for fld, fac in (("fat_daily", 1.25), ("protein_daily", 0.75), ("kcals_daily", 1.5), ("population", 2.0), ("fat_daily", 0.8)):
            s1 = dict(hist[-1])
            s1[fld] = s1[fld] * fac
            s1["_history"] = f"after {fld} x{fac}"
            hist.append(s1)
    stats["settings_histories"] = len(hist)
    for s in hist:
        done.append(s)
        light = "_history" in s and not payload.get("no_followups")
        Food.conversions.set_nutrition_requirements(
            kcals_daily=s["kcals_daily"], fat_daily=s["fat_daily"], protein_daily=s["protein_daily"],
            include_fat=True, include_protein=True, population=s["population"])
        probe = Food(1.0, 1.0, 1.0)
        tables = {"kcal": probe.get_kcal_multipliers(), "fat": probe.get_fat_multipliers(),
                  "protein": probe.get_protein_multipliers()}
        for nutrient, table in tables.items():
            keys = list(table.keys())
            bare = [k for k in keys if sfx_of(k) == ""]
            # positivity and spellings
            for k in keys:
                if not (table[k] > 0 and np.isfinite(table[k])):
                    fail("multiplier-not-positive", f"{nutrient} multiplier of '{k}' is {table[k]}", s, unit=k)
                for sf in SUFFIXES:
                    k2 = base_of(k) + sf
                    if k2 not in table:
                        fail("spelling-missing", f"{nutrient} unit '{k2}' missing", s, unit=k2)
                    elif rel(table[k], table[k2]) > TOL:
                        fail("suffix-inconsistent", f"{nutrient} '{k}' vs '{k2}': {table[k]} vs {table[k2]}", s, unit=k, unit2=k2)
            # pairs: round trip + shape + labels (a sample of source units for the history follow-ups)
            for u in (rng.sample(keys, 3) if light else keys):
                vals = [rng.uniform(0.5, 1e6) for _ in range(rng.choice((1, 1, 2, 3, 6)))]  # incl. the one-month series
                for v in bare:
                    stats["pairs"] += 1
                    try:
                        with quiet():
                            x = mkfood(nutrient, u, vals)
                            before = food_json(x)
                            y = x.in_units(*targets(nutrient, v))
                            z = y.in_units(*targets(nutrient, base_of(u)))
                    except BaseException as e:
                        fail("conversion-rejected", f"{nutrient}: '{u}' -> '{v}' -> back raised {classify(e)}", s, nutrient=nutrient, u=u, v=v)
                        continue
                    stats["distinct"] += 1
                    e = rel(val(x, nutrient), val(z, nutrient))
                    stats["max_rel_err"] = max(stats["max_rel_err"], e)
                    if e > TOL:
                        fail("roundtrip", f"{nutrient}: '{u}' -> '{v}' -> '{base_of(u)}' changes the value by {e:.3e} relative", s,
                             nutrient=nutrient, u=u, v=v, start=food_json(x), back=food_json(z))
                    stats["shape_cases"] += 1
                    if sfx_of(u) == " each month" and not (x.is_list_monthly() and len(x.kcals) == len(vals)):
                        fail("shape", f"{nutrient}: a {len(vals)}-month series labelled '{u}' is not a series after construction", s,
                             nutrient=nutrient, u=u, v=v)
                    if food_json(x) != before:
                        fail("operand-modified", f"in_units modified its operand ({u}->{v})", s, nutrient=nutrient, u=u, v=v)
                    if y.is_list_monthly() != x.is_list_monthly() or (x.is_list_monthly() and len(y.kcals) != len(x.kcals)):
                        fail("shape", f"{nutrient}: '{u}' -> '{v}' changed scalar/series shape or length", s, nutrient=nutrient, u=u, v=v)
                    lab = [y.kcals_units, y.fat_units, y.protein_units][IDX[nutrient]]
                    if lab != v + sfx_of(u) or list(y.units) != [y.kcals_units, y.fat_units, y.protein_units]:
                        fail("label", f"{nutrient}: '{u}' -> '{v}' is labelled '{lab}' (expected '{v + sfx_of(u)}') / units list {y.units}", s,
                             nutrient=nutrient, u=u, v=v)
                    zl = [z.kcals_units, z.fat_units, z.protein_units][IDX[nutrient]]
                    if zl != u:
                        fail("label-roundtrip", f"{nutrient}: '{u}' -> '{v}' -> back is labelled '{zl}'", s, nutrient=nutrient, u=u, v=v)
                    if x.is_list_monthly() and v != base_of(u):
                        # the same series written with Python ints (an integer-typed array): conversion must not quantise it
                        stats["shape_cases"] += 1
                        ivals = [int(rng.randint(1, 9)) for _ in range(3)]
                        try:
                            with quiet():
                                xi_ = mkfood(nutrient, u, ivals)
                                for nm_ in ("kcals", "fat", "protein"):
                                    setattr(xi_, nm_, np.array([int(t) for t in np.round(np.asarray(getattr(xi_, nm_)) * 4)]))
                                xf_ = mkfood(nutrient, u, ivals)
                                for nm_ in ("kcals", "fat", "protein"):
                                    setattr(xf_, nm_, np.array([float(t) for t in np.round(np.asarray(getattr(xf_, nm_)) * 4)]))
                                yi_ = xi_.in_units(*targets(nutrient, v))
                                yf_ = xf_.in_units(*targets(nutrient, v))
                            if rel(val(yi_, nutrient), val(yf_, nutrient)) > TOL:
                                fail("integer-series-quantised", f"{nutrient}: '{u}' -> '{v}': an integer-typed series converts to "
                                     f"{list(np.asarray(val(yi_, nutrient)))[:3]}, the same numbers as floats to {list(np.asarray(val(yf_, nutrient)))[:3]}",
                                     s, nutrient=nutrient, u=u, v=v)
                        except BaseException as e:
                            fail("conversion-rejected", f"{nutrient}: integer-typed '{u}' -> '{v}' raised {classify(e)}", s, nutrient=nutrient, u=u, v=v)
                    if x.is_list_monthly():
                        audit_collapse(nutrient, u, v, x, y, s, fail, stats)
                    if x.is_list_monthly():
                        # one month taken out of a series (by index and by get_month): converting before or after must agree,
                        # in value and in the form (each month / per month / total) of the labels
                        j = rng.randrange(len(x.kcals))
                        for how in ("index", "get_month"):
                            stats["shape_cases"] += 1
                            try:
                                with quiet():
                                    xi = x[j] if how == "index" else x.get_month(j)
                                    a1 = xi.in_units(*targets(nutrient, v))
                                    yi = y[j] if how == "index" else y.get_month(j)
                            except BaseException as e:
                                fail("conversion-rejected", f"{nutrient}: month {j} of '{u}' ({how}) -> '{v}' raised {classify(e)}", s,
                                     nutrient=nutrient, u=u, v=v)
                                continue
                            la = [a1.kcals_units, a1.fat_units, a1.protein_units]
                            lb = [yi.kcals_units, yi.fat_units, yi.protein_units]
                            src = [xi.kcals_units, xi.fat_units, xi.protein_units][IDX[nutrient]]
                            if la != lb or la[IDX[nutrient]] != v + sfx_of(src) or a1.is_list_monthly() != xi.is_list_monthly():
                                fail("form-not-preserved", f"{nutrient}: month {j} ({how}) of '{u}': convert-then-extract is labelled {lb}, "
                                     f"extract-then-convert {la} (source form '{sfx_of(src)}')", s, nutrient=nutrient, u=u, v=v)
                            elif rel(val(a1, nutrient), val(yi, nutrient)) > TOL:
                                fail("extract-commutes", f"{nutrient}: month {j} ({how}) of '{u}' -> '{v}' value differs", s, nutrient=nutrient, u=u, v=v)
            # triples
            trip = list(itertools.product(keys, bare, bare))
            if payload["triples"] == "sample" or light:
                trip = rng.sample(trip, min(len(trip), 20 if light else 150))
            for u, v, w in trip:
                stats["triples"] += 1
                vals = [rng.uniform(0.5, 1e6) for _ in range(rng.choice((1, 1, 2, 3, 6)))]  # incl. the one-month series
                try:
                    with quiet():
                        x = mkfood(nutrient, u, vals)
                        a = x.in_units(*targets(nutrient, v)).in_units(*targets(nutrient, w))
                        b = x.in_units(*targets(nutrient, w))
                except BaseException as e:
                    fail("conversion-rejected", f"{nutrient}: '{u}' -> '{v}' -> '{w}' raised {classify(e)}", s, nutrient=nutrient, u=u, v=v, w=w)
                    continue
                e = rel(val(a, nutrient), val(b, nutrient))
                stats["max_rel_err"] = max(stats["max_rel_err"], e)
                if e > TOL:
                    fail("triangle", f"{nutrient}: '{u}' -> '{v}' -> '{w}' differs from direct by {e:.3e} relative", s,
                         nutrient=nutrient, u=u, v=v, w=w)
        if not light:
            audit_small_and_partial(tables, s, fail, stats, rng)
        # anchors
        c = Food.conversions
        need = Food(c.billion_kcals_needed, c.thou_tons_fat_needed, c.thou_tons_protein_needed)
        with quiet():
            pf = need.in_units_percent_fed()
            bf = need.in_units_billions_fed()
            dg = need.in_units_kcals_grams_grams_per_person()
        exp = [("percent fed", [pf.kcals, pf.fat, pf.protein], [100.0] * 3),
               ("billions fed", [bf.kcals, bf.fat, bf.protein], [s["population"] / 1e9] * 3),
               ("daily requirement", [dg.kcals, dg.fat, dg.protein], [s["kcals_daily"], s["fat_daily"], s["protein_daily"]])]
        for nm, got, want in exp:
            stats["anchors"] += 3
            for g, w, n in zip(got, want, ("kcals", "fat", "protein")):
                if rel(g, w) > TOL:
                    fail("anchor", f"monthly requirement converts to {g} {nm} ({n}), expected {w}", s, anchor=nm, nutrient=n)
    stats["failures"] = failures
    return stats


if __name__ == "__main__":
    main_io(run)
