"""C08: run the real supply-series code.

payload {"cases": [case]}; case is either
  {"kind": "synthetic", "consts": {...}, "time_consts": {"FISH_PERCENT_MONTHLY": [...]}, "nutrition": {...}}
      -> every food_system class is called directly on the constants dictionary
  {"kind": "real", "iso3": "ARG" | "WOR", "options": {...}, "scale": {"KEY": factor, ...}}
      -> constants built as run_model_no_trade/run_scenario do, then Parameters.compute_parameters_first_round
result per case: {"inputs": {...}, "obs": {series name: [...]}, "errs": {series name: kind}, "crops": <c09_impl result>}
"""
import copy
import types
import numpy as np
from implutil import classify, main_io, quiet
import c09_impl
from src.food_system.food import Food
from src.food_system.seafood import Seafood
from src.food_system.feed_and_biofuels import FeedAndBiofuels
from src.food_system.meat_and_dairy import MeatAndDairy
from src.food_system.methane_scp import MethaneSCP
from src.food_system.cellulosic_sugar import CellulosicSugar
from src.food_system.seaweed import Seaweed
from src.food_system.stored_food import StoredFood
from src.food_system.greenhouses import Greenhouses
import src.optimizer.parameters as params_mod

MONTHS = ["JAN", "FEB", "MAR", "APR", "MAY", "JUN", "JUL", "AUG", "SEP", "OCT", "NOV", "DEC"]


def fl(x):
    return [float(v) for v in np.asarray(x, dtype=float).ravel().tolist()]


def extract_inputs(c, tci, kcals_monthly, start=5):
    d = c.get("DELAY", {})
    N = int(c["NMONTHS"])
    growth = c.get("SEAWEED_GROWTH_PER_DAY", {})
    keys = sorted(int(k) for k in growth.keys())
    return {
        "N": N, "start": start,
        "fish": {"add": bool(c["ADD_FISH"]), "annual": float(c["FISH_DRY_CALORIC_ANNUAL"]),
                 "wd": float(c["WASTE_DISTRIBUTION"]["SEAFOOD"]), "wr": float(c["WASTE_RETAIL"]),
                 "pct": fl(tci["FISH_PERCENT_MONTHLY"]), "fat_annual": float(c["FISH_FAT_TONS_ANNUAL"]),
                 "protein_annual": float(c["FISH_PROTEIN_TONS_ANNUAL"])},
        "feed": {"per_year": float(c["FEED_KCALS"]), "dur": int(d["FEED_SHUTOFF_MONTHS"]),
                 "fat": float(c["FEED_FAT"]), "protein": float(c["FEED_PROTEIN"])},
        "biofuel": {"per_year": float(c["BIOFUEL_KCALS"]), "dur": int(d["BIOFUEL_SHUTOFF_MONTHS"]),
                    "fat": float(c["BIOFUEL_FAT"]), "protein": float(c["BIOFUEL_PROTEIN"])},
        "grass": {"baseline": float(c["HUMAN_INEDIBLE_FEED_BASELINE_MONTHLY"]),
                  "ratios": [float(c["RATIO_GRASSES_YEAR%d" % y]) for y in range(1, N // 12 + 1)]},
        "scp": {"add": bool(c["ADD_METHANE_SCP"]), "delay": int(d.get("INDUSTRIAL_FOODS_MONTHS", 0)),
                "slope": float(c["INDUSTRIAL_FOODS_SLOPE_MULTIPLIER"]), "global_pop": float(c["GLOBAL_POP"]),
                "kcals_monthly": float(kcals_monthly), "fraction": float(c["SCP_GLOBAL_PRODUCTION_FRACTION"]),
                "wd": float(c["WASTE_DISTRIBUTION"]["SUGAR"])},
        "cs": {"add": bool(c["ADD_CELLULOSIC_SUGAR"]), "delay": int(d.get("INDUSTRIAL_FOODS_MONTHS", 0)),
               "slope": float(c["INDUSTRIAL_FOODS_SLOPE_MULTIPLIER"]), "global_pop": float(c["GLOBAL_POP"]),
               "kcals_monthly": float(kcals_monthly), "fraction": float(c["CS_GLOBAL_PRODUCTION_FRACTION"]),
               "wd": float(c["WASTE_DISTRIBUTION"]["SUGAR"])},
        "seaweed": {"add": bool(c["ADD_SEAWEED"]), "delay": int(d.get("SEAWEED_MONTHS", 0)),
                    "new_frac": float(c["SEAWEED_NEW_AREA_FRACTION"]), "max_frac": float(c["SEAWEED_MAX_AREA_FRACTION"]),
                    "daily": [float(growth[str(k)]) for k in keys]},
        "stored": {"add": bool(c["ADD_STORED_FOOD"]), "stocks": [float(c["END_OF_MONTH_STOCKS"][m]) for m in MONTHS],
                   "ratio": float(c["RATIO_STOCKS_UNTOUCHED"]), "pct": float(c["PERCENT_STORED_FOOD_TO_USE"]),
                   "wd": float(c["WASTE_DISTRIBUTION"]["CROPS"])},
    }


def attempt(obs, errs, name, fn):
    try:
        with quiet(), np.errstate(all="ignore"):
            obs[name] = fn()
    except BaseException as e:
        errs[name] = classify(e) + ":" + str(e)[:100]


def run_synthetic(case):
    c = copy.deepcopy(case["consts"])
    tci = {"FISH_PERCENT_MONTHLY": np.array(case["time_consts"]["FISH_PERCENT_MONTHLY"], dtype=float)}
    n = case["nutrition"]
    Food.conversions.set_nutrition_requirements(kcals_daily=n["KCALS_DAILY"], fat_daily=n["FAT_DAILY"],
                                                protein_daily=n["PROTEIN_DAILY"], include_fat=False, include_protein=False,
                                                population=c["POP"])
    res = {"inputs": extract_inputs(c, tci, Food.conversions.kcals_monthly, start=case.get("start", 5)), "obs": {}, "errs": {}}
    obs, errs = res["obs"], res["errs"]

    def fish():
        s = Seafood(c)
        s.set_seafood_production(tci)
        obs["fish_fat"] = fl(s.to_humans.fat)
        obs["fish_protein"] = fl(s.to_humans.protein)
        return fl(s.to_humans.kcals)

    def demands():
        fb = FeedAndBiofuels(c)
        bio, feed = fb.get_biofuels_and_feed_from_delayed_shutoff(c)
        obs["biofuel"] = fl(bio.kcals)
        obs["biofuel_fat"], obs["biofuel_protein"] = fl(bio.fat), fl(bio.protein)
        obs["feed_fat"], obs["feed_protein"] = fl(feed.fat), fl(feed.protein)
        obs["feed_units"] = feed.kcals_units
        return fl(feed.kcals)

    def grass():
        md = MeatAndDairy(c)
        obs["grass_units"] = md.human_inedible_feed.kcals_units
        return fl(md.human_inedible_feed.kcals)

    def scp():
        m = MethaneSCP(c)
        m.calculate_monthly_scp_caloric_production(c)
        m.calculate_scp_fat_and_protein_production()
        obs["scp_fat"], obs["scp_protein"] = fl(m.production.fat), fl(m.production.protein)
        return fl(m.production.kcals)

    def cs():
        m = CellulosicSugar(c)
        m.calculate_monthly_cs_production(c)
        obs["cs_fat"], obs["cs_protein"] = fl(m.production.fat), fl(m.production.protein)
        return fl(m.production.kcals)

    def built():
        s = Seaweed(c)
        obs["growth"] = fl(s.get_growth_rates(c))
        return fl(s.get_built_area(c))

    def stored():
        oc = types.SimpleNamespace(OG_FRACTION_FAT=0.01, OG_FRACTION_PROTEIN=0.02)
        s = StoredFood(c, oc)
        s.calculate_stored_food_to_use(case.get("start", 5))
        return [float(s.initial_available.kcals)]

    attempt(obs, errs, "fish", fish)
    attempt(obs, errs, "feed", demands)
    attempt(obs, errs, "grass", grass)
    attempt(obs, errs, "scp", scp)
    attempt(obs, errs, "cs", cs)
    attempt(obs, errs, "built_area", built)
    attempt(obs, errs, "stored", stored)
    return res


_runner = None
_table = None


def real_constants(iso3, options, share=False):
    global _runner, _table
    import pandas as pd
    from src.scenarios.run_model_no_trade import ScenarioRunnerNoTrade
    if _runner is None:
        _runner = ScenarioRunnerNoTrade()
        _table = pd.read_csv("data/no_food_trade/computer_readable_combined.csv")
    opt = options if share else copy.deepcopy(options)
    if iso3 == "WOR":
        return _runner.set_depending_on_option(opt, country_data=None)
    row = _table[_table.iso3 == iso3].iloc[0]
    row = _runner.apply_custom_parameters(row, opt)
    return _runner.set_depending_on_option(opt, country_data=row)


def run_real(case):
    res = {"inputs": None, "obs": {}, "errs": {}, "crops": None}
    try:
        with quiet(), np.errstate(all="ignore"):
            c, tci, loader = real_constants(case["iso3"], case["options"], share=bool(case.get("share_options")))
            for k, f in (case.get("scale") or {}).items():
                c[k] = c[k] * f
    except BaseException as e:
        res["errs"]["constants"] = classify(e) + ":" + str(e)[:200]
        return res
    captured = {}
    orig_area = Greenhouses.get_greenhouse_area
    orig_md = params_mod.MeatAndDairy

    def wrap(self, cc, ocs):
        a = orig_area(self, cc, ocs)
        captured["gh"] = self
        captured["area"] = a
        return a

    class RecMD(orig_md):
        def __init__(self, cc):
            super().__init__(cc)
            captured["md"] = self

    Greenhouses.get_greenhouse_area = wrap
    params_mod.MeatAndDairy = RecMD
    try:
        with quiet(), np.errstate(all="ignore"):
            out = params_mod.Parameters().compute_parameters_first_round(c, tci, loader)
    except BaseException as e:
        res["errs"]["first_round"] = classify(e) + ":" + str(e)[:200]
        return res
    finally:
        Greenhouses.get_greenhouse_area = orig_area
        params_mod.MeatAndDairy = orig_md
    co, tc = out[0], out[1]
    res["inputs"] = extract_inputs(c, tci, Food.conversions.kcals_monthly)
    obs = res["obs"]
    obs["fish"] = fl(tc["fish"].to_humans.kcals)
    obs["feed"] = fl(out[4].kcals)
    obs["biofuel"] = fl(out[5].kcals)
    obs["grass"] = fl(captured["md"].human_inedible_feed.kcals)
    obs["scp"] = fl(tc["methane_scp"].kcals)
    obs["cs"] = fl(tc["cellulosic_sugar"].kcals)
    for nm, food in (("fish", tc["fish"].to_humans), ("feed", out[4]), ("biofuel", out[5]), ("scp", tc["methane_scp"]),
                     ("cs", tc["cellulosic_sugar"])):
        obs[nm + "_fat"], obs[nm + "_protein"] = fl(food.fat), fl(food.protein)
    obs["built_area"] = fl(tc["built_area"])
    obs["growth"] = fl(tc["growth_rates_monthly"])
    sf = co["stored_food"].initial_available
    obs["stored"] = fl(sf.kcals) if c["ADD_STORED_FOOD"] else [0.0]
    obs["stored_is_series"] = bool(np.ndim(sf.kcals) > 0)
    oc = tc["outdoor_crops"]
    res["crops"] = {"accepted": True, "err": None, "inputs": c09_impl.extract_inputs(c, 5),
                    "obs": c09_impl.observe(oc, captured["gh"], tc, captured["area"]), "pw": c09_impl.pw_table(oc)}
    return res


def run_sequence(case):
    """several countries in ONE run, as run_model_no_trade does: the same scenario_option object is handed to
    apply_custom_parameters / set_depending_on_option for every country (no copy in between)"""
    import runutil
    shared = runutil.presets()[case["preset"]] if "preset" in case else copy.deepcopy(case["options"])
    before = copy.deepcopy(shared)
    out = []
    for iso in case["isos"]:
        out.append(run_real({"kind": "real", "iso3": iso, "options": shared, "share_options": True}))
    return {"inputs": None, "obs": {}, "errs": {}, "sequence": out, "options_before": before, "options_after": copy.deepcopy(shared),
            "options_unchanged": before == shared}


def run_case(case):
    if case["kind"] == "sequence":
        return run_sequence(case)
    return run_real(case) if case["kind"] == "real" else run_synthetic(case)


def run(payload):
    return {"results": [run_case(c) for c in payload["cases"]]}


if __name__ == "__main__":
    main_io(run)
