"""C04 implementation side.
main: run Extractor.extract_results + Interpreter.interpret_results on GENERATED arrays (real pulp.LpVariable objects
carrying varValue, stub time_consts) and report what they leave on the two objects and in the CSV.
Also the helpers shared with c04_audit.py (observation of an Extractor / Interpreter pair, CSV reading)."""
import csv
import math
import os
import re

import numpy as np

from implutil import classify, main_io, quiet

CSV_COLUMNS = ["fish", "cell_sugar", "scp", "greenhouse", "seaweed", "milk", "meat", "immediate_outdoor_crops",
               "new_stored_outdoor_crops", "stored_food"]
E_FIELDS = ["stored_food_to_humans", "outdoor_crops_to_humans", "seaweed_to_humans", "cell_sugar_to_humans",
            "scp_to_humans", "greenhouse", "fish", "meat", "milk", "immediate_outdoor_crops", "new_stored_outdoor_crops"]
P_FIELDS = ["seaweed", "cell_sugar", "scp", "greenhouse", "fish", "meat", "milk"]
Q_FIELDS = ["stored_food", "outdoor_crops", "immediate_outdoor_crops", "new_stored_outdoor_crops", "seaweed_rounded"]
VAR_KEYS = ["stored_food_to_humans", "seaweed_to_humans", "methane_scp_to_humans", "cellulosic_sugar_to_humans",
            "meat_eaten", "crops_food_to_humans", "crops_food_feed", "crops_food_biofuel"]


def fl(x):
    return [float(v) for v in np.asarray(x, dtype=float).ravel().tolist()]


def redirect_results():
    work = os.environ.get("VERIF_WORK")
    assert work, "VERIF_WORK not set"
    os.makedirs(os.path.join(work, "results"), exist_ok=True)
    import src.optimizer.interpret_results as ir
    import src.scenarios.run_scenario as rs
    ir.repo_root = work
    rs.repo_root = work
    return os.path.join(work, "results")


def csv_path(results_dir, title):
    return os.path.join(results_dir, re.sub(r'[\\/*?:"<>|\n]', "_", title) + "_ykcals.csv")


def read_csv(path):
    """-> (header list, {column: [float]}, index column as strings)"""
    with open(path, newline="") as f:
        rows = list(csv.reader(f))
    header = rows[0]
    cols = {h: [] for h in header[1:]}
    index = []
    for r in rows[1:]:
        index.append(r[0])
        for h, cell in zip(header[1:], r[1:]):
            cols[h].append(float(cell))
    return header, cols, index


def observe(E, I):
    """the numbers the two objects carry after extract_results / interpret_results (kcals)"""
    return {
        "e": [fl(getattr(E, k).kcals) for k in E_FIELDS],
        "p": [fl(getattr(I, k).kcals) for k in P_FIELDS],
        "sum": fl(I.to_humans_fed_sum.kcals),
        "head": float(I.percent_people_fed),
        "q": [fl(getattr(I, k).kcals) for k in Q_FIELDS],
        "k": [fl(getattr(I, c + "_kcals_equivalent").kcals) for c in CSV_COLUMNS],
        "kcals_fed": fl(I.kcals_fed),
        "units_ok": bool(I.to_humans_fed_sum.kcals_units == "percent people fed each month"
                         and all(getattr(I, c + "_kcals_equivalent").kcals_units == "kcals per person per day each month"
                                 for c in CSV_COLUMNS)),
    }


def csv_check(path, obs, n):
    """the table written to disk contains the same numbers as the returned object: exact float equality after
    parsing, the ten named columns in order, one row per month.  -> list of failure strings"""
    bad = []
    if not os.path.exists(path):
        return ["csv file not written: " + path]
    header, cols, index = read_csv(path)
    if header[1:] != CSV_COLUMNS:
        bad.append(f"csv header {header[1:]} != {CSV_COLUMNS}")
    if index != [str(m) for m in range(n)]:
        bad.append(f"csv index has {len(index)} rows for NMONTHS={n}")
    for j, c in enumerate(CSV_COLUMNS):
        got = cols.get(c)
        want = obs["k"][j]
        if got is None:
            continue
        if len(got) != len(want):
            bad.append(f"csv column {c}: {len(got)} values, object has {len(want)}")
            continue
        for m, (a, b) in enumerate(zip(got, want)):
            if not (a == b or (math.isnan(a) and math.isnan(b))):
                bad.append(f"csv column {c} month {m}: file {a!r} != object {b!r}")
                break
    return bad


# ------------------------------------------------------------------ generated arrays

class _Box:
    pass


class _Model:
    def variables(self):
        return []


def build_stubs(case):
    import pulp
    from src.food_system.food import Food
    n = case["n"]
    s = case["settings"]
    Food.conversions.set_nutrition_requirements(kcals_daily=s["kcals_daily"], fat_daily=s["fat_daily"],
                                                protein_daily=s["protein_daily"], include_fat=False,
                                                include_protein=False, population=s["population"])

    def mkvars(name, vals):
        if vals is None:
            return [0] * case.get("len_unmodelled", n)
        out = []
        for m, x in enumerate(vals):
            v = pulp.LpVariable(f"{name}_{m}", lowBound=0)
            v.varValue = float(x)
            out.append(v)
        return out

    variables = {}
    for k, vals in case["vars"].items():
        variables[k] = mkvars(k, vals)
    for k in ("crops_food_to_humans", "crops_food_biofuel", "crops_food_feed"):
        variables[k + "_fat"] = [0] * n
        variables[k + "_protein"] = [0] * n

    def food(arr):
        a = np.array(arr, dtype=float)
        return Food(a, np.zeros(len(a)), np.zeros(len(a)), "billion kcals each month", "thousand tons each month",
                    "thousand tons each month")

    fish = _Box()
    fish.to_humans = food(case["series"]["fish"])
    oc = _Box()
    oc.production = food(case["series"]["crops_prod"])
    tc = {"nonhuman_consumption": food([0.0] * n), "fish": fish, "greenhouse_crops": food(case["series"]["greenhouse"]),
          "outdoor_crops": oc, "milk_kcals": np.array(case["series"]["milk"], dtype=float),
          "milk_fat": np.zeros(len(case["series"]["milk"])), "milk_protein": np.zeros(len(case["series"]["milk"]))}
    consts = {"NMONTHS": n, "KCALS_MONTHLY": case["km"], "FAT_MONTHLY": 47 / 1e6 * 30 / 1000,
              "PROTEIN_MONTHLY": 51 / 1e6 * 30 / 1000, "SF_FRACTION_FAT": 0.1, "SF_FRACTION_PROTEIN": 0.1,
              "SEAWEED_KCALS": case["sw_kcals"], "SEAWEED_FAT": 0.01, "SEAWEED_PROTEIN": 0.02,
              "SCP_KCALS_TO_FAT_CONVERSION": 0.1, "SCP_KCALS_TO_PROTEIN_CONVERSION": 0.1, "MEAT_FRACTION_FAT": 0.1,
              "MEAT_FRACTION_PROTEIN": 0.1, "POP": s["population"],
              "inputs": {"INCLUDE_FAT": False, "INCLUDE_PROTEIN": False, "COUNTRY_CODE": "GEN"}}
    return consts, variables, tc


def run_generated(case, results_dir, idx):
    from src.optimizer.extract_results import Extractor
    from src.optimizer.interpret_results import Interpreter
    res = {}
    # the first cases come in pairs saved under ONE title (different NMONTHS / values): the second must replace the first
    title = f"gen_{idx - 1}" if (idx % 2 == 1 and idx < 24) else f"gen_{idx}"
    path = csv_path(results_dir, title)
    try:
        with quiet():
            consts, variables, tc = build_stubs(case)
            E = Extractor(consts).extract_results(_Model(), variables, tc)
            I = Interpreter().interpret_results(E, title)
        res["obs"] = observe(E, I)
        res["csv_failures"] = csv_check(path, res["obs"], case["n"])
        res["err"] = None
    except BaseException as e:  # noqa
        res["obs"] = None
        res["err"] = classify(e)
        res["err_text"] = repr(e)[:200]
    return res


def run(payload):
    results_dir = redirect_results()
    out = []
    for idx, case in enumerate(payload["cases"]):
        out.append(run_generated(case, results_dir, idx))
    return {"results": out}


if __name__ == "__main__":
    main_io(run)
