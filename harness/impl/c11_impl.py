"""C11: run constructor calls, operation sequences, predicates and label getters of Food on the implementation.
JSON in / JSON out; every random choice comes from seeds in the payload."""
import copy
import math
import random
import warnings

import numpy as np
from implutil import classify, food_json, main_io, quiet
from src.food_system.food import Food

warnings.simplefilter("ignore")

SETTERS = {"set_units", "set_l2t", "set_l2e", "set_e2l"}
PRED_METHOD = {
    "eq": "__eq__", "ne": "__ne__", "never_neg": "is_never_negative",
    "all_gt": "all_greater_than", "all_lt": "all_less_than", "any_gt": "any_greater_than", "any_lt": "any_less_than",
    "all_ge": "all_greater_than_or_equal_to", "all_le": "all_less_than_or_equal_to",
    "any_ge": "any_greater_than_or_equal_to", "any_le": "any_less_than_or_equal_to",
    "all_zero": "all_equals_zero", "any_zero": "any_equals_zero", "all_gt_zero": "all_greater_than_zero",
    "any_gt_zero": "any_greater_than_zero", "all_ge_zero": "all_greater_than_or_equal_to_zero"}
BINARY = {"eq", "ne", "all_gt", "all_lt", "any_gt", "any_lt", "all_ge", "all_le", "any_ge", "any_le"}


def set_flags(s, incf, incp):
    Food.conversions.set_nutrition_requirements(
        kcals_daily=s["kcals_daily"], fat_daily=s["fat_daily"], protein_daily=s["protein_daily"],
        include_fat=bool(incf), include_protein=bool(incp), population=s["population"])


def num(n):
    t = n["t"]
    if t == "int":
        return int(n["v"])
    if t == "float":
        return float(n["v"])
    if t == "list":
        return [float(v) for v in n["v"]]
    if t == "arr":
        return np.array([float(v) for v in n["v"]], dtype=float)
    raise ValueError(t)


def build(a):
    return Food(num(a["k"]), num(a["f"]), num(a["p"]), a["lk"], a["lf"], a["lp"])


def grid(rng):
    r = rng.random()
    if r < 0.15:
        return 0.0
    if r < 0.35:
        return -float(rng.randint(1, 2048)) / 64
    return float(rng.randint(1, 4096)) / 64


def other_unit(label, pos):
    """a different unit of the same nutrient with the same monthly suffix"""
    sfx = ""
    for t in (" each month", " per month"):
        if label.endswith(t):
            label, sfx = label[: -len(t)], t
            break
    swaps = [{"billion kcals": "million dry caloric tons"}, {"thousand tons": "million tons", "million tons": "thousand tons"},
             {"thousand tons": "million tons", "million tons": "thousand tons"}]
    return swaps[pos].get(label, "thousand tons" if pos else "billion kcals") + sfx


def mutation_through_alias(z, x, y, bx, by):
    """the result shares storage with an operand: can a later Food operation on the RESULT change the operand?
    try every in-place operation of Food on the result and look at the operands afterwards"""
    tried = []
    for name, fn in (("set_to_zero_after_month(0)", lambda: z.set_to_zero_after_month(0)),
                     ("__setitem__(0, Food(7, 7, 7))", lambda: z.__setitem__(0, Food(7.0, 7.0, 7.0))),
                     ("__setitem__(slice, Food(7, 7, 7))", lambda: z.__setitem__(slice(None), Food(7.0, 7.0, 7.0)))):
        try:
            with quiet():
                fn()
            tried.append(name + ": accepted")
        except BaseException as e:
            tried.append(name + ": " + classify(e))
        if snapshot(x) != bx or snapshot(y) != by:
            return name, tried
    return None, tried


def operand(spec, x, rng):
    """build the second operand of a binary operation"""
    kind = spec["kind"]
    if kind == "fixed":
        return build(spec["args"])
    mon = x.is_list_monthly()
    n = len(x.kcals) if mon else 0

    def vals(nonzero=False, near=None):
        def one(i, which):
            if near is not None and rng.random() < 0.5:
                base = near[which][i] if mon else near[which]
                return float(base) + rng.choice([0.0, 0.0, 1 / 64, -1 / 64, 1.0])
            v = grid(rng)
            while nonzero and v == 0:
                v = grid(rng)
            return v
        if mon:
            return [np.array([one(i, w) for i in range(n)], dtype=float) for w in range(3)]
        return [one(0, w) for w in range(3)]
    if kind == "like_one_off":  # same shape; the labels differ from the current food's in exactly ONE position
        k, f, p = vals()
        labs = [x.kcals_units, x.fat_units, x.protein_units]
        pos = spec["pos"]
        labs[pos] = other_unit(labs[pos], pos)
        return Food(k, f, p, *labs)
    if kind == "like":          # same shape, same labels as the current food
        near = (x.kcals, x.fat, x.protein) if spec.get("near") else None
        k, f, p = vals(spec.get("nonzero", False), near)
        return Food(k, f, p, x.kcals_units, x.fat_units, x.protein_units)
    if kind == "ratio_like":    # dimensionless, same shape as the current food
        k, f, p = vals(spec.get("nonzero", False))
        return Food(k, f, p, "ratio", "ratio", "ratio")
    if kind == "ratio_scalar":
        return Food(grid(rng), grid(rng), grid(rng), "ratio", "ratio", "ratio")
    if kind == "ratio_monthly":
        m = spec.get("n") or (n if n else 3)
        return Food(np.array([grid(rng) for _ in range(m)]), np.array([grid(rng) for _ in range(m)]),
                    np.array([grid(rng) for _ in range(m)]), "ratio each month", "ratio each month", "ratio each month")
    raise ValueError(kind)


def make_key(x, st):
    """index key of the requested kind; returns (key, the integer it denotes)"""
    i, kt = int(st["i"]), st.get("kt", "int")
    n = len(x.kcals) if x.is_list_monthly() else 0
    if kt == "int64":
        return np.int64(i), i
    if kt == "int32":
        return np.int32(i), i
    if kt == "0d":
        return np.array(i), i
    if kt == "arange" and n and -n <= i < n:
        return np.arange(-n, n)[i + n], i
    if kt == "argmin" and n:
        k = np.argmin(x.kcals)
        return k, int(k)
    return i, i


def apply(x, st, y):
    o = st["op"]
    if o == "set_req":      # the nutrition requirements / inclusion flags are reassigned; the quantity is untouched
        set_flags(st["settings"], st["flags"][0], st["flags"][1])
        return x
    if o == "add":
        return x + y
    if o == "sub":
        return x - y
    if o == "neg":
        return -x
    if o == "abs":
        return x.get_abs_values()
    if o == "mul_food":
        return x * y
    if o == "rmul_food":
        return y * x
    if o == "mul_num":
        return x * float(st["q"])
    if o == "rmul_num":
        return float(st["q"]) * x
    if o == "mul_arr":
        return x * np.array(st["l"], dtype=float)
    if o == "div_food":
        return x / y
    if o == "div_num":
        return x / float(st["q"])
    if o == "index":
        return x[make_key(x, st)[0]]
    if o == "slice":
        return x[int(st["a"]):int(st["b"])]
    if o == "month":
        return x.get_month(int(st["i"]))
    if o == "first_month":
        return x.get_first_month()
    if o == "sum":
        return x.get_nutrients_sum()
    if o == "runsum":
        return x.get_running_total_nutrients_sum()
    if o == "min_all":
        return x.get_min_all_months()
    if o == "max_all":
        return x.get_max_all_months()
    if o == "min_elem":
        return Food.min_elementwise(x, y)
    if o == "min_elem_r":
        return Food.min_elementwise(y, x)
    if o == "round":
        return x.get_rounded_to_decimal(int(st["d"]))
    if o == "clip":
        return x.negative_values_to_zero()
    if o == "shift":
        return x.shift(int(st["n"]))
    if o == "in_units":
        return x.in_units(*st["to"])
    if o == "helper":
        return getattr(x, st["name"])()
    # declared mutators: operate on a copy so that "operands unchanged" stays meaningful for the others
    z = copy.deepcopy(x)
    if o == "set_units":
        z.set_units(*st["to"])
    elif o == "set_l2t":
        z.set_units_from_list_to_total()
    elif o == "set_l2e":
        z.set_units_from_list_to_element()
    elif o == "set_e2l":
        z.set_units_from_element_to_list()
    else:
        raise ValueError("unknown op " + o)
    return z


def snapshot(f):
    """everything observable about a Food (values with their container types, labels, list, NMONTHS)"""
    if f is None:
        return None
    def cont(v):
        return (type(v).__name__, [float(t).hex() for t in np.array(v, dtype=float).ravel().tolist()])
    nm = f.NMONTHS
    nm = None if (isinstance(nm, float) and math.isnan(nm)) else int(nm)
    return (cont(f.kcals), cont(f.fat), cont(f.protein), f.kcals_units, f.fat_units, f.protein_units,
            list(f.units), nm)


def shares(a, b):
    if a is None or b is None:
        return False
    for u in (a.kcals, a.fat, a.protein):
        for v in (b.kcals, b.fat, b.protein):
            if isinstance(u, np.ndarray) and isinstance(v, np.ndarray) and u.size and v.size and np.shares_memory(u, v):
                return True
    return a.units is b.units


def fj(f):
    d = food_json(f)
    return d


def getters(x):
    out = {}
    for name, fn in (("l2t", "get_units_from_list_to_total"), ("l2e", "get_units_from_list_to_element"),
                     ("e2l", "get_units_from_element_to_list"), ("units", "get_units"),
                     ("is_ratio", "is_a_ratio"), ("is_percent", "is_units_percent")):
        z = copy.deepcopy(x)
        try:
            r = getattr(z, fn)()
            out[name] = bool(r) if isinstance(r, (bool, np.bool_)) else list(r)
        except BaseException as e:
            out[name] = {"err": classify(e)}
    return out


def run_seq(seq, rng):
    res = {"steps": []}
    try:
        with quiet():
            x = build(seq["init"])
        res["start"] = fj(x)
    except BaseException as e:
        res["start"] = {"err": classify(e), "msg": str(e)[:120]}
        return res
    if seq.get("getters"):
        res["start_getters"] = getters(x)
    for st in seq["steps"]:
        r = {}
        y = None
        if "y" in st:
            try:
                with quiet():
                    y = operand(st["y"], x, rng)
                r["y"] = fj(y)
            except BaseException as e:
                r["y"] = {"err": classify(e)}
                res["steps"].append(r)
                break
        bx, by = snapshot(x), snapshot(y)
        if st["op"] == "index":
            r["key"] = make_key(x, st)[1]
        try:
            with quiet():
                z = apply(x, st, y)
            r["res"] = fj(z)
        except BaseException as e:
            z = None
            r["res"] = {"err": classify(e), "msg": str(e)[:120]}
        r["unchanged"] = (snapshot(x) == bx and snapshot(y) == by)
        r["alias"] = bool(z is not None and st["op"] != "set_req" and (shares(z, x) or shares(z, y) or z is x or z is y))
        if z is not None and seq.get("getters"):
            r["getters"] = getters(z)
        res["steps"].append(r)
        if z is None:
            break
        if r["alias"] and not st["op"].startswith("set_"):
            how, tried = mutation_through_alias(z, x, y, bx, by)
            r["alias_mutation"] = how
            r["alias_tried"] = tried
            break               # the result may have been mutated by the probe: the history ends here
        x = z
    return res


def run_pred(pc, rng):
    r = {}
    try:
        with quiet():
            x = build(pc["x"])
            y = None
            if pc.get("y") is not None:
                y = build(pc["y"]) if "k" in pc["y"] else operand(pc["y"], x, rng)
        r["x"] = fj(x)
        r["y"] = fj(y) if y is not None else None
    except BaseException as e:
        r["x"] = {"err": classify(e)}
        return r
    bx, by = snapshot(x), snapshot(y)
    try:
        with quiet():
            m = getattr(x, PRED_METHOD[pc["pred"]])
            v = m(y, **pc.get("kw", {})) if pc["pred"] in BINARY else m(**pc.get("kw", {}))
        r["val"] = bool(v)
    except BaseException as e:
        r["val"] = {"err": classify(e), "msg": str(e)[:120]}
    r["unchanged"] = (snapshot(x) == bx and snapshot(y) == by)
    return r


def run(payload):
    out = []
    for grp in payload["groups"]:
        set_flags(grp["settings"], grp["flags"][0], grp["flags"][1])
        g = {"ctors": [], "seqs": [], "preds": []}
        for a in grp.get("ctors", []):
            try:
                with quiet():
                    g["ctors"].append(fj(build(a)))
            except BaseException as e:
                g["ctors"].append({"err": classify(e), "msg": str(e)[:120]})
        for seq in grp.get("seqs", []):
            set_flags(grp["settings"], grp["flags"][0], grp["flags"][1])
            g["seqs"].append(run_seq(seq, random.Random(seq["seed"])))
        set_flags(grp["settings"], grp["flags"][0], grp["flags"][1])
        for pc in grp.get("preds", []):
            g["preds"].append(run_pred(pc, random.Random(pc["seed"])))
        out.append(g)
    return {"groups": out}


if __name__ == "__main__":
    main_io(run)
