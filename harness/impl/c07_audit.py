"""C07 direct audit on real-country runs: animal_populations.main() traced month by month (feed_the_species calls recorded
by wrapping the method); every clause of the property is evaluated on each month (c06_impl.audit_c07_month)."""
from implutil import main_io
import c06_impl


def run(payload):
    return c06_impl.run(payload)


if __name__ == "__main__":
    main_io(run)
