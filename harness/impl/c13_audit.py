"""C13 direct audit: the clauses of the property evaluated on the implementation itself (no model).
 A  every documented / dispatched value is accepted somewhere; unknown values and missing keys are rejected before
    Parameters / the optimiser are reached (full path through RunModelNoTrade.run_optimizer_for_country);
 B  exactly-once: second setter of the same family raises and leaves both dictionaries and the flags untouched;
 C  the caller's option dictionary equals its deep copy afterwards;
 D  override frame: dispatch with and without each numeric override differ exactly at the named keys;
 E  a '<species>_head' option reaches the table AnimalModelBuilder.create_animal_objects sees (same column, only it);
 F  check_all_set passes after every accepted dispatch.
Each failure carries `check` and `input` so that replay can re-execute it."""
import copy
import inspect
import random
import re

import numpy as np
import pandas as pd

from implutil import classify, quiet, main_io
from c13_impl import flat, Rows, same_dict

OVS = [("MINIMUM_PERCENT_FED_BEFORE_NONHUMAN_CONSUMPTION_ALLOWED", 0, 100), ("RATIO_STOCKS_UNTOUCHED", 0, 1)]
MULS = [("CROP_PRODUCTION_MULTIPLIER", "RATIO_CROPS_YEAR"), ("GRASSES_PRODUCTION_MULTIPLIER", "RATIO_GRASSES_YEAR")]


def readme_values():
    fam, out = None, {}
    on = False
    for line in open("scenarios/README.md"):
        if line.startswith("## Allowed Values"):
            on = True
        elif line.startswith("## ") and on:
            break
        if not on:
            continue
        m = re.match(r"\s*- \*\*(\w+)\*\*:", line)
        if m:
            fam = m.group(1)
            continue
        m = re.match(r"\s+- `([\w]+)` - ", line)
        if m and fam and fam not in ("settings", "simulations"):
            out.setdefault(fam, []).append(m.group(1))
    return out


def code_values():
    """literals compared with scenario_option_copy[...] in the dispatch (read from the source text, independent of
    the translator)"""
    from src.scenarios.run_scenario import ScenarioRunner
    src = inspect.getsource(ScenarioRunner.set_depending_on_option)
    out = {}
    for m in re.finditer(r'scenario_option_copy\[\s*"(\w+)"\s*\]\s*==\s*"(\w+)"', src):
        out.setdefault(m.group(1), []).append(m.group(2))
    return out


def setter_families():
    from src.scenarios.scenarios import Scenarios
    fams = {}
    for name, fn in inspect.getmembers(Scenarios, inspect.isfunction):
        m = re.search(r"assert not self\.(\w+_SET)", inspect.getsource(fn))
        if m:
            fams[name] = m.group(1)
    return fams


def dispatch(opts_pairs, row):
    from src.scenarios.run_scenario import ScenarioRunner
    opts = {k: v for k, v in opts_pairs}
    snap = copy.deepcopy(opts)
    try:
        with quiet():
            cp, tc, loader = ScenarioRunner().set_depending_on_option(opts, country_data=row)
        r = {"ok": True, "cp": cp, "tc": tc, "loader": loader}
    except BaseException as e:
        r = {"ok": False, "kind": classify(e), "msg": str(e)[:100]}
    r["caller_unmodified"] = same_dict(opts, snap)
    return r


def fl(d):
    return {k: v for k, v in flat(d)}


def veq(a, b):
    return a == b


class Audit:
    def __init__(self, payload):
        self.p = payload
        self.rng = random.Random(payload.get("seed", 0))
        self.rows = Rows()
        self.failures = []
        self.counts = {}
        self.distinct = 0
        self.obs = {}
        self.B = {k: [tuple(x) for x in v] for k, v in payload["bases"].items()}

    def fail(self, key, what, check, inp):
        self.failures.append({"key": key, "what": what, "check": check, "input": inp})

    def cnt(self, k, distinct=True):
        self.counts[k] = self.counts.get(k, 0) + 1
        if distinct:
            self.distinct += 1

    def row(self, rid):
        return None if rid is None else self.rows.get(rid)[0]

    # ---- A
    def check_value(self, fam, val, inp_rows):
        accepted_somewhere = False
        kinds = []
        for base, rid in inp_rows:
            o = [(k, (val if k == fam else v)) for k, v in self.B[base]]
            r = dispatch(o, self.row(rid))
            self.cnt("A_value_calls", False)
            if not r["caller_unmodified"]:
                self.fail("C13:caller-dict-modified@run_scenario.set_depending_on_option", "option dictionary modified",
                          "value", {"fam": fam, "val": val, "rows": [[base, rid]]})
            if r["ok"]:
                accepted_somewhere = True
                try:
                    r["loader"].check_all_set()
                except AssertionError:
                    self.fail("C13:accepted-but-not-all-set@run_scenario.set_depending_on_option",
                              f"{fam}={val} accepted but check_all_set fails", "value", {"fam": fam, "val": val, "rows": [[base, rid]]})
            else:
                kinds.append(r["kind"])
        return accepted_somewhere, kinds

    def check_rejected_before_computation(self, opts, rid, why):
        """full path: run_optimizer_for_country must raise before Parameters / the optimiser are touched"""
        from src.scenarios.run_model_no_trade import ScenarioRunnerNoTrade
        import src.scenarios.run_scenario as rs
        import src.optimizer.parameters as par
        reached = []
        o1, o2 = rs.ScenarioRunner.run_and_analyze_scenario, par.Parameters.compute_parameters_first_round

        def stop1(self, *a, **k):
            reached.append("run_and_analyze_scenario")
            raise RuntimeError("reached computation")

        def stop2(self, *a, **k):
            reached.append("compute_parameters_first_round")
            raise RuntimeError("reached computation")
        rs.ScenarioRunner.run_and_analyze_scenario = stop1
        par.Parameters.compute_parameters_first_round = stop2
        opts_d = {k: v for k, v in opts}
        snap = copy.deepcopy(opts_d)
        raised = None
        try:
            with quiet():
                ScenarioRunnerNoTrade().run_optimizer_for_country(self.row(rid), opts_d, False, False, False)
        except BaseException as e:
            raised = classify(e)
        finally:
            rs.ScenarioRunner.run_and_analyze_scenario = o1
            par.Parameters.compute_parameters_first_round = o2
        self.cnt("A_rejected_before_computation")
        inp = {"opts": [list(x) for x in opts], "row": rid, "why": why}
        if reached or raised is None:
            self.fail(f"C13:bad-option-reached-computation@run_model_no_trade.run_optimizer_for_country:{why.split('=')[0]}",
                      f"options with {why} were not rejected before computation (reached {reached})", "reject", inp)
        if not same_dict(opts_d, snap):
            self.fail("C13:caller-dict-modified@run_scenario.set_depending_on_option", "option dictionary modified", "reject", inp)
        return raised

    def part_A(self):
        doc = readme_values()
        code = code_values()
        rows = self.p["special_rows"]
        inp_rows = [["G", None], ["C", rows[4]], ["C2", rows[5]], ["C", rows[0]]]
        not_accepted_doc, exits, undocumented = [], [], []
        for fam in sorted(set(doc) | set(code)):
            for val in sorted(set(doc.get(fam, [])) | set(code.get(fam, []))):
                ok, kinds = self.check_value(fam, val, inp_rows)
                self.cnt("A_family_values")
                if val in code.get(fam, []) and val not in doc.get(fam, []):
                    undocumented.append(f"{fam}={val}")
                if not ok:
                    if "Exit" in kinds:
                        exits.append(f"{fam}={val}")
                    elif val in code.get(fam, []):
                        self.fail(f"C13:dispatched-value-never-accepted@run_scenario.set_depending_on_option:{fam}={val}",
                                  f"{fam}={val} is dispatched by the code but rejected on every base configuration ({kinds})",
                                  "value", {"fam": fam, "val": val, "rows": inp_rows})
                    else:
                        not_accepted_doc.append(f"{fam}={val}")
        self.obs["documented_but_rejected"] = not_accepted_doc
        self.obs["terminate_with_sys_exit"] = exits
        self.obs["accepted_but_undocumented"] = undocumented
        # unknown values / missing keys: rejected before any computation (full path)
        fams = sorted(code)
        for fam in fams:
            for val in [code[fam][0] + "_typo", None, 7]:
                o = [(k, (val if k == fam else v)) for k, v in self.B["C"]]
                self.check_rejected_before_computation(o, rows[4], f"{fam}={val!r}")
            o = [(k, v) for k, v in self.B["C"] if k != fam]
            self.check_rejected_before_computation(o, rows[4], f"{fam}=<missing>")
        o = [(k, v) for k, v in self.B["C"] if k != "NMONTHS"]
        self.check_rejected_before_computation(o, rows[4], "NMONTHS=<missing>")

    # ---- G: documented literals (README: months of feed / biofuel, thresholds, flags), checked on the real dispatch
    DOC = {
        ("shutoff", "immediate"): {"DELAY.FEED_SHUTOFF_MONTHS": 0, "DELAY.BIOFUEL_SHUTOFF_MONTHS": 0,
                                   "MINIMUM_PERCENT_FED_BEFORE_NONHUMAN_CONSUMPTION_ALLOWED": 100},
        ("shutoff", "short_delayed_shutoff"): {"DELAY.FEED_SHUTOFF_MONTHS": 2, "DELAY.BIOFUEL_SHUTOFF_MONTHS": 1,
                                               "MINIMUM_PERCENT_FED_BEFORE_NONHUMAN_CONSUMPTION_ALLOWED": 100},
        ("shutoff", "long_delayed_shutoff"): {"DELAY.FEED_SHUTOFF_MONTHS": 3, "DELAY.BIOFUEL_SHUTOFF_MONTHS": 2,
                                              "MINIMUM_PERCENT_FED_BEFORE_NONHUMAN_CONSUMPTION_ALLOWED": 100},
        ("shutoff", "one_month_delayed_shutoff"): {"DELAY.FEED_SHUTOFF_MONTHS": 1, "DELAY.BIOFUEL_SHUTOFF_MONTHS": 1,
                                                   "MINIMUM_PERCENT_FED_BEFORE_NONHUMAN_CONSUMPTION_ALLOWED": 100},
        ("shutoff", "continued"): {"DELAY.FEED_SHUTOFF_MONTHS": 120, "DELAY.BIOFUEL_SHUTOFF_MONTHS": 120,
                                   "MINIMUM_PERCENT_FED_BEFORE_NONHUMAN_CONSUMPTION_ALLOWED": 100},
        ("shutoff", "continued_after_10_percent_fed"): {"DELAY.FEED_SHUTOFF_MONTHS": 120, "DELAY.BIOFUEL_SHUTOFF_MONTHS": 120,
                                                        "MINIMUM_PERCENT_FED_BEFORE_NONHUMAN_CONSUMPTION_ALLOWED": 10},
        ("shutoff", "long_delayed_shutoff_after_10_percent_fed"): {"DELAY.FEED_SHUTOFF_MONTHS": 12, "DELAY.BIOFUEL_SHUTOFF_MONTHS": 6,
                                                                   "MINIMUM_PERCENT_FED_BEFORE_NONHUMAN_CONSUMPTION_ALLOWED": 10},
        ("cull", "do_eat_culled"): {"ADD_MEAT": True, "ADD_MILK": True},
        ("cull", "dont_eat_culled"): {"ADD_MEAT": False, "ADD_MILK": False},
        ("stored_food", "zero"): {"ADD_STORED_FOOD": False, "PERCENT_STORED_FOOD_TO_USE": 0},
        ("stored_food", "baseline"): {"ADD_STORED_FOOD": True, "PERCENT_STORED_FOOD_TO_USE": 100},
        ("ratio_stocks_untouched", "zero"): {"RATIO_STOCKS_UNTOUCHED": 0, "STORE_FOOD_BETWEEN_YEARS": True},
        ("ratio_stocks_untouched", "baseline"): {"RATIO_STOCKS_UNTOUCHED": 1, "STORE_FOOD_BETWEEN_YEARS": True},
        ("ratio_stocks_untouched", "no_stored_between_years"): {"RATIO_STOCKS_UNTOUCHED": 0, "STORE_FOOD_BETWEEN_YEARS": False},
        ("waste", "zero"): {"WASTE_RETAIL": 0, "WASTE_DISTRIBUTION.CROPS": 0, "WASTE_DISTRIBUTION.MEAT": 0},
        ("waste", "baseline_globally"): {"WASTE_RETAIL": 24.98, "WASTE_DISTRIBUTION.CROPS": 4.96},
        ("waste", "doubled_prices_globally"): {"WASTE_RETAIL": 10.6},
        ("waste", "tripled_prices_globally"): {"WASTE_RETAIL": 6.08},
        ("nutrition", "baseline"): {"NUTRITION.KCALS_DAILY": 2100, "NUTRITION.FAT_DAILY": 61.7, "NUTRITION.PROTEIN_DAILY": 59.5},
        ("nutrition", "catastrophe"): {"NUTRITION.KCALS_DAILY": 2100, "NUTRITION.FAT_DAILY": 47, "NUTRITION.PROTEIN_DAILY": 51},
        ("meat_strategy", "reduce_breeding"): {"BREEDING_STRATEGY": "reduced"},
        ("meat_strategy", "baseline_breeding"): {"BREEDING_STRATEGY": "baseline"},
        ("scenario", "no_resilient_foods"): {"ADD_SEAWEED": False, "ADD_METHANE_SCP": False, "ADD_CELLULOSIC_SUGAR": False,
                                             "ADD_GREENHOUSES": False, "OG_USE_BETTER_ROTATION": False},
        ("scenario", "seaweed"): {"ADD_SEAWEED": True, "ADD_METHANE_SCP": False, "ADD_CELLULOSIC_SUGAR": False, "ADD_GREENHOUSES": False},
        ("scenario", "all_resilient_foods"): {"ADD_SEAWEED": True, "ADD_METHANE_SCP": True, "ADD_CELLULOSIC_SUGAR": True,
                                              "ADD_GREENHOUSES": True, "OG_USE_BETTER_ROTATION": True},
        ("crop_disruption", "all_crops_die_instantly"): {"ADD_OUTDOOR_GROWING": False, "RATIO_CROPS_YEAR1": 0, "RATIO_CROPS_YEAR11": 0},
        ("crop_disruption", "zero"): {"ADD_OUTDOOR_GROWING": True, "RATIO_CROPS_YEAR1": 1, "RATIO_CROPS_YEAR10": 1},
        ("grasses", "baseline"): {"RATIO_GRASSES_YEAR1": 1, "RATIO_GRASSES_YEAR10": 1},
        ("protein", "not_required"): {"INCLUDE_PROTEIN": False},
        ("fat", "not_required"): {"INCLUDE_FAT": False},
    }

    def check_doc(self, fam, val):
        want = self.DOC[(fam, val)]
        o = [(k, (val if k == fam else v)) for k, v in self.B["G"]]
        r = dispatch(o, None)
        self.cnt("G_documented_literals")
        inp = {"fam": fam, "val": val}
        if not r["ok"]:
            self.fail(f"C13:documented-value-rejected@run_scenario.set_depending_on_option:{fam}={val}",
                      f"{fam}={val} rejected on the global base: {r.get('kind')} {r.get('msg')}", "doc", inp)
            return
        got = fl(r["cp"])
        bad = []
        for k, w in want.items():
            g = got.get(k)
            gv = None if g is None else g.get("n", g.get("b", g.get("s")))
            if isinstance(w, bool):
                ok = g is not None and "b" in g and g["b"] == w
            elif isinstance(w, str):
                ok = gv == w
            else:
                ok = g is not None and "n" in g and abs(g["n"] - w) <= 1e-12 * max(1.0, abs(w))
            if not ok:
                bad.append((k, gv, w))
        if bad:
            self.fail(f"C13:documented-constant-differs@run_scenario.set_depending_on_option:{fam}={val}",
                      f"{fam}={val} sets {[(k, g) for k, g, _ in bad]}, documentation says {[(k, w) for k, _, w in bad]}", "doc", inp)

    def part_G(self):
        for fam, val in self.DOC:
            self.check_doc(fam, val)

    # ---- H: country-dependent setters: constants == documented function of the row's cells (cells read with the csv
    #         module here, independently of pandas / the code under test)
    MONTHS = ["JAN", "FEB", "MAR", "APR", "MAY", "JUN", "JUL", "AUG", "SEP", "OCT", "NOV", "DEC"]

    def csv_rows(self):
        if not hasattr(self, "_csv"):
            import csv
            with open("data/no_food_trade/computer_readable_combined.csv") as f:
                self._csv = {r["iso3"]: r for r in csv.DictReader(f)}
        return self._csv

    def expected_country(self, c, waste_col):
        f = lambda col: float(c[col])
        E = {}
        I = "init_country_food_system_properties"
        for key, col in [("POP", "population"), ("BASELINE_CROP_KCALS", "crop_kcals"), ("BASELINE_CROP_FAT", "crop_fat"),
                         ("BASELINE_CROP_PROTEIN", "crop_protein"), ("BIOFUEL_KCALS", "biofuel_kcals"), ("BIOFUEL_FAT", "biofuel_fat"),
                         ("BIOFUEL_PROTEIN", "biofuel_protein"), ("FEED_KCALS", "feed_kcals"), ("FEED_FAT", "feed_fat"),
                         ("FEED_PROTEIN", "feed_protein"), ("INITIAL_MILK_CATTLE", "dairy_cows"), ("INIT_SMALL_ANIMALS", "small_animals"),
                         ("INIT_MEDIUM_ANIMALS", "medium_animals"), ("INIT_LARGE_ANIMALS_WITH_MILK_COWS", "large_animals"),
                         ("SCP_GLOBAL_PRODUCTION_FRACTION", "percent_of_global_capex"),
                         ("CS_GLOBAL_PRODUCTION_FRACTION", "percent_of_global_production"),
                         ("INITIAL_SEAWEED_FRACTION", "initial_seaweed_fraction"), ("SEAWEED_NEW_AREA_FRACTION", "new_area_fraction"),
                         ("SEAWEED_MAX_AREA_FRACTION", "max_area_fraction"), ("POWER_LAW_IMPROVEMENT", "power_law_improvement"),
                         ("ROTATION_IMPROVEMENTS.POWER_LAW_IMPROVEMENT", "power_law_improvement"),
                         ("INITIAL_BUILT_SEAWEED_FRACTION", "initial_built_fraction"), ("INITIAL_CROP_AREA_FRACTION", "fraction_crop_area"),
                         ("FISH_DRY_CALORIC_ANNUAL", "aq_kcals"), ("FISH_FAT_TONS_ANNUAL", "aq_fat"), ("FISH_PROTEIN_TONS_ANNUAL", "aq_protein"),
                         ("TONS_MILK_ANNUAL", "dairy"), ("TONS_BEEF_ANNUAL", "beef"),
                         ("MILK_YIELD_KG_PER_MILK_BEARING_ANIMAL_PER_YEAR", "milk_yield_kg_per_milk_bearing_animal_per_year"),
                         ("KG_MEAT_PER_PIG", "kg_meat_per_pig"), ("KG_MEAT_PER_CHICKEN", "kg_meat_per_chicken")]:
            E[key] = (I, f(col))
        E["HUMAN_INEDIBLE_FEED_BASELINE_MONTHLY"] = (I, f("grasses_baseline") / 12)
        E["INITIAL_CROP_AREA_HA"] = (I, f("crop_area_1000ha") * 1000)
        E["TONS_CHICKEN_AND_PORK_ANNUAL"] = (I, f("chicken") + f("pork"))
        for m in self.MONTHS:
            E["END_OF_MONTH_STOCKS." + m] = (I, f("stocks_kcals_" + m.lower()))
        for col in c:
            if col.startswith("seaweed_growth_per_day_"):
                E["SEAWEED_GROWTH_PER_DAY." + col[len("seaweed_growth_per_day_"):]] = (I, f(col))
        E["COUNTRY_CODE"] = ("set_depending_on_option", c["iso3"])
        W = {"retail_waste_baseline": "set_country_waste_to_baseline_prices", "retail_waste_price_double": "set_country_waste_to_doubled_prices",
             "retail_waste_price_triple": "set_country_waste_to_tripled_prices"}[waste_col]
        for key, col in [("SUGAR", "sugar"), ("CROPS", "crops"), ("MEAT", "meat"), ("MILK", "dairy"), ("SEAFOOD", "seafood"), ("SEAWEED", "seafood")]:
            E["WASTE_DISTRIBUTION." + key] = (W, f("distribution_loss_" + col) * 100)
        E["WASTE_RETAIL"] = (W, f(waste_col) * 100)
        E["SEASONALITY"] = ("set_country_seasonality", [f(f"seasonality_m{i}") for i in range(1, 13)])
        for i in range(1, 11):
            E[f"RATIO_GRASSES_YEAR{i}"] = ("set_country_grasses_nuclear_winter", 1 + f(f"grasses_reduction_year{i}"))
            E[f"RATIO_CROPS_YEAR{i}"] = ("set_nuclear_winter_country_disruption_to_crops", 1 + f(f"crop_reduction_year{i}"))
        # the eleventh crop year repeats the tenth (the table has ten years)
        E["RATIO_CROPS_YEAR11"] = ("set_nuclear_winter_country_disruption_to_crops", 1 + f("crop_reduction_year10"))
        return E

    def check_country(self, iso, waste_val="baseline_in_country"):
        c = self.csv_rows()[iso]
        waste_col = {"baseline_in_country": "retail_waste_baseline", "doubled_prices_in_country": "retail_waste_price_double",
                     "tripled_prices_in_country": "retail_waste_price_triple"}[waste_val]
        o = [(k, (waste_val if k == "waste" else v)) for k, v in self.B["C"]]
        r = dispatch(o, self.row(iso))
        self.cnt("H_country_rows")
        inp = {"iso3": iso, "waste": waste_val}
        if not r["ok"]:
            self.fail(f"C13:country-row-rejected@run_scenario.set_depending_on_option:{iso}",
                      f"country base configuration rejected for {iso}: {r.get('kind')} {r.get('msg')}", "country", inp)
            return
        got = fl(r["cp"])
        bad = {}
        for key, (setter, want) in self.expected_country(c, waste_col).items():
            g = got.get(key)
            if isinstance(want, str):
                ok = g is not None and g.get("s") == want
            elif isinstance(want, list):
                ok = g is not None and "l" in g and len(g["l"]) == len(want) and all(
                    abs(a - b) <= 1e-12 * max(1.0, abs(b)) for a, b in zip(g["l"], want))
            else:
                ok = g is not None and "n" in g and abs(g["n"] - want) <= 1e-12 * max(1.0, abs(want))
            if not ok:
                gv = None if g is None else g.get("n", g.get("l", g.get("s")))
                bad.setdefault(setter, []).append((key, gv, want))
        for setter, items in bad.items():
            self.fail(f"C13:country-constant@{setter}:{iso}",
                      f"{iso}: {setter} wrote {[(k, g) for k, g, _ in items[:3]]}, the row's cells give {[(k, w) for k, _, w in items[:3]]}"
                      f" ({len(items)} constants differ)", "country",
                      {**inp, "differs": [[k, g, w] for k, g, w in items[:6]]})

    def part_H(self):
        rows = self.csv_rows()
        per_setter = {}
        for n, iso in enumerate(rows):
            before = len(self.failures)
            self.check_country(iso, ["baseline_in_country", "doubled_prices_in_country", "tripled_prices_in_country"][n % 3])
            # keep at most five rows per setter in the report (all are counted)
            kept = []
            for f in self.failures[before:]:
                st = f["key"].split("@")[1].split(":")[0]
                per_setter[st] = per_setter.get(st, 0) + 1
                if per_setter[st] <= 5:
                    kept.append(f)
            self.failures[before:] = kept
        self.obs["country_constant_rows_failing_per_setter"] = per_setter

    # ---- B
    def check_pair(self, a, b, glob, rid):
        from src.scenarios.scenarios import Scenarios
        ld = Scenarios()
        row = self.row(rid)
        cp, tc = {}, {}
        inp = {"a": a, "b": b, "glob": glob, "row": rid}

        def call(name, cp, tc):
            m = getattr(ld, name)
            params = list(inspect.signature(m).parameters)
            args = [cp if p == "constants_for_params" else row if p == "country_data" else tc for p in params]
            out = m(*args)
            if any(p.startswith("time_consts") for p in params):
                return cp, out
            return out, tc
        try:
            with quiet():
                if not (a.startswith("init_") or b.startswith("init_")):
                    cp, tc = call("init_global_food_system_properties" if glob else "init_country_food_system_properties", cp, tc)
                    cp["NMONTHS"] = 120
                    cp["STORE_FOOD_BETWEEN_YEARS"] = True
                cp, tc = call(a, cp, tc)
        except BaseException:
            return "first-rejected"
        snap_cp, snap_tc = copy.deepcopy(cp), copy.deepcopy(tc)
        flags = {k: v for k, v in vars(ld).items() if k.endswith("_SET") or k == "IS_GLOBAL_ANALYSIS"}
        try:
            with quiet():
                call(b, cp, tc)
            self.fail(f"C13:second-set-not-rejected@scenarios.{b}", f"{b} after {a} (same family) was accepted", "pair", inp)
            return "accepted"
        except AssertionError:
            pass
        except BaseException as e:
            self.fail(f"C13:second-set-wrong-rejection@scenarios.{b}", f"{b} after {a}: {classify(e)} {str(e)[:80]}", "pair", inp)
            return "other"

        def deq(x, y):
            fx, fy = fl(x), fl(y)
            return fx == fy
        flags2 = {k: v for k, v in vars(ld).items() if k.endswith("_SET") or k == "IS_GLOBAL_ANALYSIS"}
        if not deq(cp, snap_cp) or not deq(tc, snap_tc) or flags != flags2:
            self.fail(f"C13:partial-write-on-rejection@scenarios.{b}",
                      f"{b} rejected after {a} but a dictionary / flag changed before the rejection", "pair", inp)
        return "rejected-clean"

    def part_B(self):
        fams = setter_families()
        self.obs["setter_families"] = len(set(fams.values()))
        from src.scenarios.scenarios import Scenarios
        rows = self.p["special_rows"]
        for a in sorted(fams):
            for b in sorted(fams):
                if fams[a] != fams[b]:
                    continue
                src = inspect.getsource(getattr(Scenarios, a)) + inspect.getsource(getattr(Scenarios, b))
                need_g = "assert self.IS_GLOBAL_ANALYSIS" in inspect.getsource(getattr(Scenarios, a))
                configs = [(True, None)] if need_g else [(False, self.rng.choice(rows))]
                if not need_g and "IS_GLOBAL_ANALYSIS" not in src and "country_data" not in src:
                    configs.append((True, None))
                if a.startswith("init_"):
                    configs = [(a == "init_global_food_system_properties", None if a != "init_country_food_system_properties" else rows[4])]
                done = False
                for glob, rid in configs:
                    r = self.check_pair(a, b, glob, rid)
                    self.cnt("B_same_family_pairs", r == "rejected-clean")
                    done = done or r != "first-rejected"
                if not done:
                    self.cnt("B_pairs_first_call_rejected", False)

    # ---- D
    def check_frame(self, base, rid, extra, expect, base_opts=None, tag=""):
        """expect: dict key -> function(old value or None) -> new value ; keys with unchanged value are ignored.
        base_opts / tag: an explicit base configuration (family value the override is combined with)"""
        bo = list(self.B[base]) if base_opts is None else [tuple(x) for x in base_opts]
        r0 = dispatch(bo, self.row(rid))
        if tag and not r0["ok"]:
            return "base-rejected"   # this family value is not valid on this scale: nothing to combine with
        r1 = dispatch(bo + [tuple(x) for x in extra], self.row(rid))
        inp = {"base": base, "row": rid, "extra": [list(x) for x in extra], "tag": tag}
        name = "+".join(k for k, _ in extra) + (("|" + tag) if tag else "")
        self.cnt("D_override_frames" if not tag else "D_override_x_family_frames")
        if not (r0["ok"] and r1["ok"]):
            self.fail(f"C13:override-rejected@run_scenario.set_depending_on_option:{name}",
                      f"in-range override {extra} rejected ({r1.get('kind')}, base ok={r0['ok']})", "frame", inp)
            return
        if not r1["caller_unmodified"]:
            self.fail("C13:caller-dict-modified@run_scenario.set_depending_on_option", "option dictionary modified", "frame", inp)
        f0, f1 = fl(r0["cp"]), fl(r1["cp"])
        changed = {k for k in set(f0) | set(f1) if f0.get(k) != f1.get(k)}
        exp_changed = set()
        bad = []
        for k, fn in expect.items():
            want = fn(f0.get(k))
            if want is None:
                continue
            if f0.get(k) != {"n": want}:
                exp_changed.add(k)
            got = f1.get(k)
            if got is None or "n" not in got or abs(got["n"] - want) > 1e-12 * max(1.0, abs(want)):
                bad.append((k, got, want))
        if changed != exp_changed or bad or fl(r0["tc"]) != fl(r1["tc"]):
            extra_changed = sorted(changed - exp_changed)
            self.fail(f"C13:override-frame@run_scenario.set_depending_on_option:{name}",
                      f"override {extra}{' on top of ' + tag if tag else ''} (row {rid}): changed keys {sorted(changed)} expected "
                      f"{sorted(exp_changed)}; also changed: {[(k, f0.get(k), f1.get(k)) for k in extra_changed[:4]]}; "
                      f"wrong values {bad[:3]}", "frame", inp)

    def part_D2(self, species):
        """every numeric override on top of EVERY value of the option families it could interact with"""
        code = code_values()
        rows = self.p["special_rows"]

        def variants(fam):
            for base, rid in (("G", None), ("C", rows[4])):
                for val in code.get(fam, []):
                    yield base, rid, [(k, (val if k == fam else v)) for k, v in self.B[base]], f"{fam}={val}"
        for base, rid, bo, tag in variants("ratio_stocks_untouched"):
            for v in (0, 1, 0.375):
                self.check_frame(base, rid, [("RATIO_STOCKS_UNTOUCHED", v)], {"RATIO_STOCKS_UNTOUCHED": (lambda old, v=v: float(v))}, bo, tag)
        for base, rid, bo, tag in variants("shutoff"):
            for v in (0, 100, 42.5):
                k = "MINIMUM_PERCENT_FED_BEFORE_NONHUMAN_CONSUMPTION_ALLOWED"
                self.check_frame(base, rid, [(k, v)], {k: (lambda old, v=v: float(v))}, bo, tag)
        for okey, pre, fam in (("CROP_PRODUCTION_MULTIPLIER", "RATIO_CROPS_YEAR", "crop_disruption"),
                               ("GRASSES_PRODUCTION_MULTIPLIER", "RATIO_GRASSES_YEAR", "grasses")):
            for base, rid, bo, tag in variants(fam):
                for m in (0.5, 2.25):
                    self.check_frame(base, rid, [(okey, m)], {f"{pre}{i}": (lambda old, m=m: None if old is None else old["n"] * m)
                                                              for i in range(1, 12)}, bo, tag)
        for base, rid, bo, tag in variants("meat_strategy"):
            self.check_frame(base, rid, [("kg_meat_per_large_animal", 233.5)], {"kg_meat_per_large_animal": (lambda old: 233.5)}, bo, tag)
            for sp in species:
                self.check_frame(base, rid, [(sp, 31415)], {sp + "_start": (lambda old: 31415.0)}, bo, tag)

    # ---- J: alter_scenario_if_known_to_fail: which (country, option combination) has an option REWRITTEN
    ALTER_FAMILIES = ["scenario", "shutoff", "meat_strategy", "cull", "ratio_stocks_untouched", "crop_disruption"]

    def alter_table_countries(self):
        from src.scenarios.run_scenario import ScenarioRunner
        src = inspect.getsource(ScenarioRunner.alter_scenario_if_known_to_fail)
        return sorted(set(re.findall(r'"country_code":\s*"(\w+)"', src)))

    def rewrites_for(self, iso, fams, code):
        """every combination of the given families (all dispatched values) for which the function returns a dictionary that
        differs from the one it was given -> list of (combination string, rewrite string)"""
        import itertools
        from src.scenarios.run_scenario import ScenarioRunner
        runner = ScenarioRunner()
        base = {k: v for k, v in self.B["C"]}
        out = []
        n = 0
        with quiet():
            for combo in itertools.product(*[code[f] for f in fams]):
                o = dict(base)
                o.update(zip(fams, combo))
                n += 1
                try:
                    r = runner.alter_scenario_if_known_to_fail(o, iso)
                except BaseException as e:
                    out.append(("|".join(f"{f}={v}" for f, v in zip(fams, combo)), "<" + classify(e) + ">"))
                    continue
                if r != o:
                    ch = sorted((k, r.get(k)) for k in set(r) | set(o) if r.get(k) != o.get(k))
                    out.append(("|".join(f"{f}={v}" for f, v in zip(fams, combo)), ",".join(f"{k}={v}" for k, v in ch)))
        return n, out

    def part_J(self, quick):
        code = code_values()
        fams = [f for f in self.ALTER_FAMILIES if f in code]
        table_c = self.alter_table_countries()
        all_codes = [str(x) for x in self.rows.table["iso3"]]
        others = ["USA", "IND"] if quick else [c for c in all_codes if c not in table_c]
        recorded = self.p.get("recorded_rewrites")
        found = {}
        for iso in table_c + others:
            n, rw = self.rewrites_for(iso, fams, code)
            self.counts["J_alter_combinations"] = self.counts.get("J_alter_combinations", 0) + n
            self.distinct += 1
            if rw:
                found[iso] = rw
        self.obs["option_rewrites_by_country"] = {iso: {"combinations": len(rw), "rewrites": sorted(set(r for _, r in rw))}
                                                  for iso, rw in found.items()}
        self.found_rewrites = sorted(f"{iso}|{c}=>{r}" for iso, rw in found.items() for c, r in rw)
        if recorded is None:
            self.fail("C13:rewrite-record-missing@corpus/C13/known_rewrites.json",
                      "the recorded set of documented option rewrites is missing; cannot tell documented exceptions from new ones",
                      "alter", {})
            return
        rec = set(recorded)
        new = [x for x in self.found_rewrites if x not in rec]
        per = {}
        for x in new:
            iso = x.split("|")[0]
            per[iso] = per.get(iso, 0) + 1
            if per[iso] > 2:
                continue
            combo, rewrite = x[len(iso) + 1:].split("=>")
            o = [(k, v) for k, v in self.B["C"]]
            kv = dict(p.split("=", 1) for p in combo.split("|"))
            o = [(k, kv.get(k, v)) for k, v in o]
            row = iso if iso in self.rows.by_iso else None
            detail = ""
            if row is not None:
                r = dispatch(o, self.row(row))
                if r["ok"]:
                    got = fl(r["cp"])
                    detail = (f"; constants actually used: FEED_SHUTOFF_MONTHS={got.get('DELAY.FEED_SHUTOFF_MONTHS', {}).get('n')}, "
                              f"BIOFUEL_SHUTOFF_MONTHS={got.get('DELAY.BIOFUEL_SHUTOFF_MONTHS', {}).get('n')}")
                    want = self.DOC.get(("shutoff", kv.get("shutoff")))
                    if want:
                        detail += (f" (documented for shutoff={kv.get('shutoff')}: {want['DELAY.FEED_SHUTOFF_MONTHS']} / "
                                   f"{want['DELAY.BIOFUEL_SHUTOFF_MONTHS']})")
            self.fail(f"C13:option-rewritten@run_scenario.alter_scenario_if_known_to_fail:{iso}",
                      f"country {iso}, options {combo}: the requested option is silently replaced ({rewrite}); this combination is "
                      f"not among the recorded maintainers' exceptions ({len([y for y in new if y.startswith(iso + '|')])} new "
                      f"combinations for {iso}){detail}", "alter", {"iso3": iso, "combination": kv, "rewrite": rewrite})
        gone = [x for x in rec if x not in set(self.found_rewrites)
                and (x.split("|")[0] in table_c + others)]
        if gone:
            self.obs["recorded_rewrites_no_longer_applied"] = {"count": len(gone), "examples": sorted(gone)[:3]}

    def part_D(self, species):
        rng = self.rng
        rows = self.p["special_rows"]
        for base, rid in (("G", None), ("C", rows[4]), ("C2", rows[5]), ("C", rng.choice(rows))):
            for k, lo, hi in OVS:
                for v in (lo, hi, lo + (hi - lo) * rng.randint(1, 63) / 64):
                    self.check_frame(base, rid, [(k, v)], {k: (lambda old, v=v: float(v))})
            for k, pre in MULS:
                for m in (0, 10, rng.randint(1, 640) / 64, 1):
                    self.check_frame(base, rid, [(k, m)], {f"{pre}{i}": (lambda old, m=m: None if old is None else old["n"] * m)
                                                            for i in range(1, 12)})
            v = rng.randint(100, 400) + 0.5
            self.check_frame(base, rid, [("kg_meat_per_large_animal", v)], {"kg_meat_per_large_animal": (lambda old, v=v: v)})
            for sp in species:
                v = rng.choice([rng.randint(0, 10 ** 9), rng.randint(0, 10 ** 6) + 0.75])
                self.check_frame(base, rid, [(sp, v)], {sp + "_start": (lambda old, v=v: float(int(v)))})
            # two at once
            sp = rng.choice(species)
            self.check_frame(base, rid, [(sp, 4242), ("RATIO_STOCKS_UNTOUCHED", 0.25), ("CROP_PRODUCTION_MULTIPLIER", 0.5)],
                             {sp + "_start": (lambda old: 4242.0), "RATIO_STOCKS_UNTOUCHED": (lambda old: 0.25),
                              **{f"RATIO_CROPS_YEAR{i}": (lambda old: None if old is None else old["n"] * 0.5) for i in range(1, 12)}})

    # ---- E
    def check_head(self, sp, code, value=987654321):
        """option '<sp>' = value on country `code`, through the real dispatch, then animal_populations.main up to
        create_animal_objects: exactly the cell (row of `code`, column sp) must change to value"""
        import src.food_system.animal_populations as ap
        r = dispatch(list(self.B["C"]) + [(sp, value)], self.row(code) if code in self.rows.by_iso else self.row("USA"))
        inp = {"species": sp, "code": code, "value": value}
        self.cnt("E_head_overrides")
        if not r["ok"]:
            self.fail(f"C13:override-rejected@run_scenario.set_depending_on_option:{sp}", f"{sp} override rejected", "head", inp)
            return
        cp = dict(r["cp"])
        cp["COUNTRY_CODE"] = code

        class Stop(Exception):
            pass
        seen = []

        def fake(stock, attrs):
            seen.append(stock.copy())
            raise Stop()

        class F:
            kcals = [0] * 12
        orig = ap.AnimalModelBuilder.create_animal_objects
        ap.AnimalModelBuilder.create_animal_objects = staticmethod(fake)
        try:
            for ci in (cp, {k: v for k, v in cp.items() if "_head_start" not in k}):
                try:
                    with quiet():
                        ap.main(code, F(), F(), cp["BREEDING_STRATEGY"], ci)
                except Stop:
                    pass
                except BaseException as e:
                    self.fail(f"C13:head-override-crash@animal_populations.main:{code}", f"{classify(e)} {str(e)[:80]}", "head", inp)
                    return
        finally:
            ap.AnimalModelBuilder.create_animal_objects = orig
        if len(seen) != 2:
            return
        w, wo = seen
        cols = sorted(set(w.index) | set(wo.index))
        changed = [c for c in cols if not (c in w.index and c in wo.index and (w[c] == wo[c] or (w[c] != w[c] and wo[c] != wo[c])))]
        if changed == [sp] and w[sp] == value:
            return
        if not changed:
            self.fail(f"C13:head-override-lost@animal_populations.main:{code}",
                      f"option {sp}={value} for country {code} does not reach the head-count row create_animal_objects reads "
                      f"(row label {w.name}; value seen {w.get(sp)})", "head", inp)
        else:
            self.fail(f"C13:head-override-wrong-column@animal_populations.main:{sp}",
                      f"option {sp}={value} for {code} changed columns {changed} (expected only {sp})", "head", inp)

    def part_E(self, species, codes):
        for code in codes:
            for sp in species:
                self.check_head(sp, code, self.rng.randint(10 ** 6, 10 ** 9))


FULL_RUNS = [("NZL", "milk_cattle_head", 8000000, 96, "continued"),
             # several head-count overrides in NON-alphabetical order with distinct values: each must land on its own species
             ("ARG", {"pig_head": 1000000, "meat_cattle_head": 30000000, "chicken_head": 50000000}, None, 96, "continued"),
             ("NZL", {"milk_cattle_head": 7000000, "meat_sheep_head": 9000000, "chicken_head": 11000000, "horse_head": 123456}, None, 72,
              "long_delayed_shutoff"),
             ("IND", "milk_buffalo_head", 20000000, 72, "long_delayed_shutoff"), ("USA", "pig_head", 40000000, 84, "continued")]


def check_full_run(a, iso, sp, value, nmonths, shutoff):
    """a FULL three-round run with a '<species>_head' option: every create_animal_objects call of the run (whatever
    the round) must read a head-count row that carries the override"""
    import runutil
    import src.food_system.animal_populations as ap
    import src.optimizer.parameters as par
    runutil.redirect_results()
    wanted = dict(sp) if isinstance(sp, dict) else {sp: value}
    opt = runutil.option(NMONTHS=nmonths, shutoff=shutoff)
    opt.update(wanted)   # insertion order = the order written by the user
    rnd = [0]
    calls = []
    names = {1: "compute_parameters_first_round", 2: "compute_parameters_second_round", 3: "compute_parameters_third_round"}
    origs = {k: getattr(par.Parameters, n) for k, n in names.items()}

    def mk(k):
        def w(self, *args, **kw):
            prev = rnd[0]
            rnd[0] = k
            try:
                return origs[k](self, *args, **kw)
            finally:
                rnd[0] = prev
        return w
    orig_static = ap.AnimalModelBuilder.__dict__["create_animal_objects"]
    orig_fn = orig_static.__func__ if isinstance(orig_static, staticmethod) else orig_static

    def rec(stock, attrs):
        seen = {}
        for c in wanted:
            try:
                seen[c] = float(stock[c])
            except Exception:
                seen[c] = None
        calls.append((rnd[0], seen, str(stock.name)))
        return orig_fn(stock, attrs)
    for k, n in names.items():
        setattr(par.Parameters, n, mk(k))
    ap.AnimalModelBuilder.create_animal_objects = staticmethod(rec)
    err = None
    try:
        with quiet():
            runutil.run_country(iso, opt, title="c13_full")
    except BaseException as e:
        err = classify(e) + ": " + str(e)[:100]
    finally:
        for k, n in names.items():
            setattr(par.Parameters, n, origs[k])
        ap.AnimalModelBuilder.create_animal_objects = orig_static
        runutil.cleanup_cwd()
    a.cnt("F_full_runs")
    inp = {"iso3": iso, "species": sp, "value": value, "nmonths": nmonths, "shutoff": shutoff}
    per_round = {}
    for k, seen, label in calls:
        per_round[k] = per_round.get(k, 0) + 1
        a.cnt("F_animal_model_calls", False)
        wrong = {c: seen[c] for c in wanted if seen[c] != float(wanted[c])}
        if wrong:
            a.fail(f"C13:head-override-lost@parameters.{names.get(k, 'outside_rounds')}:round{k}",
                   f"{iso} options {wanted} (in this order; {nmonths} months, shutoff {shutoff}): the animal model built in round {k} "
                   f"reads {wrong} from row {label} - the override did not reach the species it names", "fullrun", inp)
    a.obs.setdefault("full_runs", []).append({"run": inp, "animal_model_calls_per_round": per_round, "error": err})
    return per_round, err


# ------------------------------------------------------------------ I: results must not depend on / rewrite earlier calls
def deep_flat(x, path=""):
    """every leaf of a nested structure with its path; arrays element-wise; unknown objects by type name"""
    out = {}
    if isinstance(x, dict):
        out[path + "{}"] = sorted(str(k) for k in x)
        for k, v in x.items():
            out.update(deep_flat(v, path + "/" + str(k)))
    elif isinstance(x, np.ndarray):
        out[path] = ["array"] + [float(v) for v in np.ravel(x).tolist()]
    elif isinstance(x, (list, tuple)):
        out[path + "[]"] = len(x)
        for i, v in enumerate(x):
            out.update(deep_flat(v, f"{path}/{i}"))
    elif isinstance(x, (bool, np.bool_)):
        out[path] = bool(x)
    elif isinstance(x, (int, float, np.integer, np.floating)):
        f = float(x)
        out[path] = "nan" if f != f else f
    elif isinstance(x, str) or x is None:
        out[path] = x
    else:
        out[path] = "<" + type(x).__name__ + ">"
    return out


def flat_diff(a, b, limit=6):
    keys = sorted(set(a) | set(b))
    return [[k, a.get(k, "<absent>"), b.get(k, "<absent>")] for k in keys if a.get(k, "<absent>") != b.get(k, "<absent>")][:limit]


def lost_or_changed(before, after, limit=6):
    """entries present before that are gone or different afterwards (additions are not modifications of what was handed in)"""
    out = []
    for k, v in before.items():
        w = after.get(k, "<absent>")
        if k.endswith("{}"):
            if w == "<absent>" or not set(v) <= set(w):
                out.append([k, [x for x in v if w == "<absent>" or x not in w], "<keys removed>"])
        elif w != v:
            out.append([k, v, w])
    return out[:limit]


def in_child(fn):
    """run fn() in a forked child (pristine copy of this process' module state) and return its JSON-able result"""
    import os
    import json as _json
    r, w = os.pipe()
    pid = os.fork()
    if pid == 0:
        code = 0
        try:
            os.close(r)
            try:
                res = {"ok": True, "res": fn()}
            except BaseException as e:  # noqa
                res = {"ok": False, "err": classify(e) + ": " + str(e)[:200]}
            with os.fdopen(w, "w") as f:
                _json.dump(res, f)
        except BaseException:
            code = 1
        finally:
            os._exit(code)
    os.close(w)
    with os.fdopen(r) as f:
        txt = f.read()
    os.waitpid(pid, 0)
    return _json.loads(txt) if txt else {"ok": False, "err": "child died"}


def one_call(rows, call):
    from src.scenarios.run_scenario import ScenarioRunner
    row = None if call["row"] is None else rows.get(call["row"])[0]
    opts = {k: v for k, v in call["opts"]}
    try:
        with quiet():
            cp, tc, loader = ScenarioRunner().set_depending_on_option(opts, country_data=row)
        return {"ok": True, "cp": cp, "tc": tc}
    except BaseException as e:
        return {"ok": False, "kind": classify(e)}


def check_call_history(a, history):
    """history: list of {"opts": [[k, v]...], "row": iso3|None}.  Every call's WHOLE result (all nested dictionaries)
    must equal the result of the same call made first in a pristine process, and no later call may rewrite a
    dictionary returned earlier."""
    import src.scenarios.run_scenario  # noqa: imported before forking so that children are cheap
    rows = a.rows

    def reference(call):
        def f():
            r = one_call(rows, call)
            return {"ok": r["ok"], "kind": r.get("kind"), "cp": deep_flat(r["cp"]) if r["ok"] else None,
                    "tc": deep_flat(r["tc"]) if r["ok"] else None}
        return in_child(f)

    def whole():
        out = {"calls": [], "rewritten": []}
        kept = []
        for i, call in enumerate(history):
            r = one_call(rows, call)
            if r["ok"]:
                kept.append((i, r["cp"], r["tc"], deep_flat(r["cp"]), deep_flat(r["tc"])))
                out["calls"].append({"ok": True, "cp": kept[-1][3], "tc": kept[-1][4]})
            else:
                out["calls"].append({"ok": False, "kind": r["kind"]})
            # every dictionary returned earlier must still be what it was when it was returned
            for j, cp, tc, fcp, ftc in kept[:-1] if r["ok"] else kept:
                d = flat_diff(fcp, deep_flat(cp)) + flat_diff(ftc, deep_flat(tc))
                if d:
                    out["rewritten"].append({"earlier": j, "by": i, "diff": d})
        return out
    refs = [reference(c) for c in history]
    got = in_child(whole)
    a.cnt("I_call_histories")
    inp = {"history": history}
    if not got["ok"] or not all(r["ok"] for r in refs):
        a.obs.setdefault("history_errors", []).append(str(got.get("err")) + str([r.get("err") for r in refs if not r["ok"]]))
        return
    for i, (ref, g) in enumerate(zip(refs, got["res"]["calls"])):
        ref = ref["res"]
        a.cnt("I_calls_compared", False)
        if ref["ok"] != g["ok"]:
            a.fail("C13:result-depends-on-earlier-call@set_depending_on_option",
                   f"call {i + 1} of the history is {'accepted' if g['ok'] else 'rejected'} but "
                   f"{'accepted' if ref['ok'] else 'rejected'} when made first in a fresh process", "history", {**inp, "index": i})
            continue
        if not ref["ok"]:
            continue
        d = flat_diff(ref["cp"], g["cp"]) + flat_diff(ref["tc"], g["tc"])
        if d:
            a.fail("C13:result-depends-on-earlier-call@set_depending_on_option",
                   f"call {i + 1} of {len(history)} ({dict((k, v) for k, v in history[i]['opts'] if k in ('scenario', 'shutoff', 'scale'))}, "
                   f"row {history[i]['row']}) returns constants that differ from the same call made first in a fresh process: "
                   f"[path, fresh, in-history] {d[:4]}", "history", {**inp, "index": i, "diff": d})
    for rw in got["res"]["rewritten"]:
        a.fail("C13:earlier-result-rewritten@set_depending_on_option",
               f"the constants returned by call {rw['earlier'] + 1} were rewritten by call {rw['by'] + 1}: "
               f"[path, when returned, now] {rw['diff'][:4]}", "history", {**inp, **rw})


def part_I(a, quick):
    B = a.B
    rows = a.p["special_rows"]

    def v(base, **kw):
        return [[k, kw.get(k, val)] for k, val in B[base]]
    hs = [
        [{"opts": v("C"), "row": rows[4]}, {"opts": v("C", scenario="no_resilient_foods", shutoff="immediate"), "row": rows[4]}],
        [{"opts": v("G"), "row": None}, {"opts": v("G", scenario="no_resilient_foods", shutoff="immediate"), "row": None},
         {"opts": v("G", scenario="seaweed", shutoff="short_delayed_shutoff"), "row": None}],
        [{"opts": v("C2"), "row": rows[5]}, {"opts": v("C"), "row": rows[0]},
         {"opts": v("C", scenario="greenhouse", shutoff="immediate", waste="zero"), "row": rows[4]}],
        [{"opts": v("C", scenario="no_resilient_foods", shutoff="immediate"), "row": rows[3]}, {"opts": v("G"), "row": None},
         {"opts": v("C", scenario="no_resilient_foods", shutoff="immediate"), "row": rows[3]}],
    ]
    scen = ["all_resilient_foods", "all_resilient_foods_and_more_area", "no_resilient_foods", "seaweed", "methane_scp",
            "cellulosic_sugar", "relocated_crops", "greenhouse", "industrial_foods"]
    shut = ["immediate", "one_month_delayed_shutoff", "short_delayed_shutoff", "long_delayed_shutoff", "continued",
            "continued_after_10_percent_fed", "long_delayed_shutoff_after_10_percent_fed"]
    for _ in range(3 if quick else 14):
        h = []
        for _ in range(a.rng.randint(2, 3)):
            if a.rng.random() < 0.3:
                h.append({"opts": v("G", scenario=a.rng.choice(scen), shutoff=a.rng.choice(shut),
                                    nutrition=a.rng.choice(["baseline", "catastrophe"])), "row": None})
            else:
                h.append({"opts": v(a.rng.choice(["C", "C2"]), scenario=a.rng.choice(scen), shutoff=a.rng.choice(shut),
                                    cull=a.rng.choice(["do_eat_culled", "dont_eat_culled"])), "row": a.rng.choice(rows)})
        hs.append(h)
    for h in hs:
        check_call_history(a, h)


# ------------------------------------------------------------------ full runs with every numeric override
OVERRIDE_RUNS = [
    ("ARG", 96, "continued", {"kg_meat_per_large_animal": 311.5, "MINIMUM_PERCENT_FED_BEFORE_NONHUMAN_CONSUMPTION_ALLOWED": 85,
                              "RATIO_STOCKS_UNTOUCHED": 0.25, "CROP_PRODUCTION_MULTIPLIER": 0.75, "GRASSES_PRODUCTION_MULTIPLIER": 0.5}),
    ("NZL", 96, "continued", {"kg_meat_per_large_animal": 198.25, "RATIO_STOCKS_UNTOUCHED": 0.5}),
    ("IND", 72, "long_delayed_shutoff", {"kg_meat_per_large_animal": 150.0, "CROP_PRODUCTION_MULTIPLIER": 1.25,
                                         "MINIMUM_PERCENT_FED_BEFORE_NONHUMAN_CONSUMPTION_ALLOWED": 60}),
]


def check_override_run(a, iso, nmonths, shutoff, extras):
    """a FULL three-round run with numeric overrides: the constants handed to every compute_parameters_*_round carry
    the override values, MeatAndDairy uses the override in every round, and neither the constants nor the caller's
    option dictionary are modified by the run"""
    import runutil
    import src.optimizer.parameters as par
    import src.food_system.meat_and_dairy as mad
    from src.scenarios.run_scenario import ScenarioRunner
    runutil.redirect_results()
    opt = runutil.option(NMONTHS=nmonths, shutoff=shutoff, **extras)
    opt_snapshot = copy.deepcopy(opt)
    inp = {"iso3": iso, "nmonths": nmonths, "shutoff": shutoff, "extras": extras}
    r, country_data = runutil.country_row(iso, copy.deepcopy(opt))
    # expectation: the same dispatch without the extras, then the documented effect of each override
    base_opt = {k: v for k, v in opt.items() if k not in extras}
    with quiet():
        base_cp, _, _ = ScenarioRunner().set_depending_on_option(copy.deepcopy(base_opt), country_data=country_data)
    expect = {}
    for k, v in extras.items():
        if k == "CROP_PRODUCTION_MULTIPLIER" or k == "GRASSES_PRODUCTION_MULTIPLIER":
            pre = "RATIO_CROPS_YEAR" if k.startswith("CROP") else "RATIO_GRASSES_YEAR"
            for i in range(1, 12):
                if pre + str(i) in base_cp:
                    expect[pre + str(i)] = float(base_cp[pre + str(i)]) * float(v)
        else:
            expect[k] = float(v)
    names = {1: "compute_parameters_first_round", 2: "compute_parameters_second_round", 3: "compute_parameters_third_round"}
    origs = {k: getattr(par.Parameters, n) for k, n in names.items()}
    rnd = [0]
    seen_rounds, kg_used = {}, []

    def mk(k):
        def w(self, constants_inputs, *args, **kw):
            prev = rnd[0]
            rnd[0] = k
            before = deep_flat(constants_inputs)
            seen_rounds[k] = {key: constants_inputs.get(key, "<absent>") for key in expect}
            try:
                return origs[k](self, constants_inputs, *args, **kw)
            finally:
                rnd[0] = prev
                after = deep_flat(constants_inputs)
                added = sorted(set(after) - set(before))
                if added:
                    a.obs.setdefault("constants_added_during_rounds", {})[names[k]] = [x for x in added if not x.endswith("{}")][:8]
                d = lost_or_changed(before, after)
                if d:
                    a.fail(f"C13:constants-modified-in-run@parameters.{names[k]}",
                           f"{iso}: the constants dictionary handed to round {k} was modified during the round: "
                           f"[path, before, after] {d[:4]}", "overriderun", inp)
        return w
    orig_init = mad.MeatAndDairy.__init__

    def init(self, constants_for_params, *args, **kw):
        orig_init(self, constants_for_params, *args, **kw)
        kg_used.append((rnd[0], float(self.KG_PER_LARGE_ANIMAL)))
    for k, n in names.items():
        setattr(par.Parameters, n, mk(k))
    mad.MeatAndDairy.__init__ = init
    err = None
    try:
        with quiet():
            r.run_optimizer_for_country(country_data, opt, False, False, False, title="c13_ovr")
    except BaseException as e:
        err = classify(e) + ": " + str(e)[:100]
    finally:
        for k, n in names.items():
            setattr(par.Parameters, n, origs[k])
        mad.MeatAndDairy.__init__ = orig_init
        runutil.cleanup_cwd()
    a.cnt("F_override_runs")
    for k, vals in sorted(seen_rounds.items()):
        for key, want in expect.items():
            got = vals.get(key)
            a.cnt("F_override_values_checked", False)
            ok = isinstance(got, (int, float, np.integer, np.floating)) and abs(float(got) - want) <= 1e-12 * max(1.0, abs(want))
            if not ok:
                a.fail(f"C13:override-lost-in-later-round@parameters.{names[k]}:{key}",
                       f"{iso}: round {k} is handed {key}={got!r}, the option asks for {want}", "overriderun", inp)
    if "kg_meat_per_large_animal" in extras:
        for k, used in kg_used:
            a.cnt("F_override_values_checked", False)
            if abs(used - float(extras["kg_meat_per_large_animal"])) > 1e-12 * used:
                a.fail("C13:override-lost-in-later-round@MeatAndDairy.__init__",
                       f"{iso}: MeatAndDairy built in round {k} uses {used} kg per large animal, the option says "
                       f"{extras['kg_meat_per_large_animal']}", "overriderun", inp)
    if opt != opt_snapshot or list(opt) != list(opt_snapshot):
        a.fail("C13:caller-dict-modified@run_model_no_trade.run_optimizer_for_country", f"{iso}: option dictionary modified by the run",
               "overriderun", inp)
    a.obs.setdefault("override_runs", []).append({"run": inp, "rounds_seen": sorted(seen_rounds),
                                                  "meat_and_dairy_rounds": [k for k, _ in kg_used], "error": err})


def check_yaml_driver(a, config):
    """the REAL run_scenarios_from_yaml driver with the per-simulation model run stubbed: every simulation must receive
    exactly its own YAML entry (+ NMONTHS from the settings), and the constants derived from what it receives must equal
    those derived from its own entry alone"""
    import src.scenarios.run_scenarios_from_yaml as drv
    original = copy.deepcopy(config)
    received = []

    class Stub:
        def run_model_no_trade(self, **kw):
            received.append({"title": kw.get("title"), "options": copy.deepcopy(kw.get("scenario_option")),
                             "countries": copy.deepcopy(kw.get("countries_list"))})
    orig_cls = drv.ScenarioRunnerNoTrade
    drv.ScenarioRunnerNoTrade = Stub
    err = None
    try:
        with quiet():
            drv.run_scenarios_from_yaml(config, False, False, False)
    except BaseException as e:
        err = classify(e) + ": " + str(e)[:100]
    finally:
        drv.ScenarioRunnerNoTrade = orig_cls
    a.cnt("K_yaml_configs")
    inp = {"config": original}
    sims = list(original["simulations"].items())
    if err or len(received) != len(sims):
        a.fail("C13:yaml-driver-failed@run_scenarios_from_yaml", f"driver error {err}; {len(received)} of {len(sims)} simulations run",
               "yaml", inp)
        return
    iso = original["settings"]["countries"][0]
    row = a.row(iso)
    for i, ((name, entry), got) in enumerate(zip(sims, received)):
        a.cnt("K_yaml_simulations", False)
        want = dict(entry)
        want["NMONTHS"] = original["settings"]["NMONTHS"]
        extra = {k: got["options"][k] for k in got["options"] if k not in want}
        differ = {k: (got["options"].get(k, "<absent>"), v) for k, v in want.items() if got["options"].get(k, "<absent>") != v}
        if extra or differ:
            carried = {k: v for k, v in extra.items() if any(k in dict(e) for _, e in sims[:i])}
            detail = ""
            r_got = dispatch(list(got["options"].items()), row)
            r_own = dispatch(list(want.items()), row)
            if r_got["ok"] and r_own["ok"]:
                d = flat_diff(deep_flat(r_own["cp"]), deep_flat(r_got["cp"]))
                detail = f"; constants for this simulation [path, own entry alone, as run] {d[:4]}"
            a.fail("C13:option-carried-over-between-simulations@run_scenarios_from_yaml",
                   f"simulation {i + 1} ('{name}') of the YAML receives options that are not in its own entry: {extra} "
                   f"(carried over from an earlier simulation: {sorted(carried)}); entries that differ: {differ}{detail}", "yaml",
                   {**inp, "simulation": name})


def yaml_configs():
    import runutil
    base = {k: v for k, v in runutil.BASE_OPTION.items() if k != "NMONTHS"}
    s1 = dict(base, title="with overrides", CROP_PRODUCTION_MULTIPLIER=0.5, RATIO_STOCKS_UNTOUCHED=0.25,
              MINIMUM_PERCENT_FED_BEFORE_NONHUMAN_CONSUMPTION_ALLOWED=40, kg_meat_per_large_animal=300.5, pig_head=123456)
    s2 = dict(base, title="plain", scenario="seaweed", shutoff="continued")
    s3 = dict(base, title="other overrides", GRASSES_PRODUCTION_MULTIPLIER=2, chicken_head=777)
    s4 = dict(base, title="plain again", cull="dont_eat_culled")
    return [{"settings": {"NMONTHS": 96, "countries": ["NZL"]}, "simulations": {"a": s1, "b": s2, "c": s3, "d": s4}},
            {"settings": {"NMONTHS": 72, "countries": ["ARG"]}, "simulations": {"only": copy.deepcopy(s2), "then": copy.deepcopy(s1),
                                                                                 "last": copy.deepcopy(s4)}}]


CUSTOM_COLUMNS = ["aq_kcals", "crop_kcals", "population", "crop_reduction_year3", "grasses_reduction_year2", "stocks_kcals_jan",
                  "kg_meat_per_pig", "seasonality_m4", "dairy_cows", "retail_waste_baseline"]


def check_custom_parameter(a, iso, extras):
    """the REAL ScenarioRunnerNoTrade.apply_custom_parameters: an option whose key is a column of the country table must put
    float(value) into exactly that column (also when the value is 0); nothing else may change; a key that is not a column
    creates no column (reference recorded from the unchanged tree: only 'kg_meat_per_large_animal' is added)"""
    import runutil
    from src.scenarios.run_model_no_trade import ScenarioRunnerNoTrade
    row = a.rows.by_iso[iso].copy()
    before = row.copy()
    opt = dict(runutil.BASE_OPTION)
    opt.update(extras)
    snap = copy.deepcopy(opt)
    inp = {"iso3": iso, "extras": extras}
    try:
        with quiet():
            out = ScenarioRunnerNoTrade().apply_custom_parameters(row, opt)
    except BaseException as e:
        a.fail("C13:custom-parameter-rejected@apply_custom_parameters", f"{iso} {extras}: {classify(e)} {str(e)[:80]}", "custom", inp)
        return
    a.cnt("L_custom_parameter_cases")
    if opt != snap or list(opt) != list(snap):
        a.fail("C13:caller-dict-modified@apply_custom_parameters", f"{iso} {extras}: option dictionary modified", "custom", inp)
    allowed_new = {"kg_meat_per_large_animal"} & set(extras)
    new_cols = [c for c in out.index if c not in before.index]
    if set(new_cols) != allowed_new:
        a.fail("C13:custom-parameter-creates-column@apply_custom_parameters",
               f"{iso} {extras}: columns created {new_cols}, reference behaviour creates {sorted(allowed_new)}", "custom", inp)
    for c in before.index:
        old, new = before[c], out[c]
        if c in extras:
            want = float(extras[c])
            if not (isinstance(new, (int, float, np.integer, np.floating)) and float(new) == want):
                a.fail(f"C13:custom-parameter-not-applied@apply_custom_parameters:{c}={extras[c]!r}",
                       f"{iso}: option {c}={extras[c]!r} must set the country row's {c} to {want}; the row handed on has {new!r} "
                       f"(table value {old!r})", "custom", inp)
        elif not (old == new or (old != old and new != new)):
            a.fail(f"C13:custom-parameter-changes-other-column@apply_custom_parameters:{c}",
                   f"{iso} {extras}: column {c} changed from {old!r} to {new!r}", "custom", inp)
    if "kg_meat_per_large_animal" in extras and float(out.get("kg_meat_per_large_animal", float("nan"))) != float(extras["kg_meat_per_large_animal"]):
        a.fail("C13:custom-parameter-not-applied@apply_custom_parameters:kg_meat_per_large_animal",
               f"{iso} {extras}: kg_meat_per_large_animal not carried by the row", "custom", inp)


def part_L(a, quick):
    isos = ["USA", "NZL", "SWT", "IND"] if quick else ["USA", "NZL", "SWT", "IND", "ARG", "SLV", "CHN", "ISL"]
    isos = [i for i in isos if i in a.rows.by_iso]
    for iso in isos:
        row = a.rows.by_iso[iso]
        for col in CUSTOM_COLUMNS:
            tv = float(row[col])
            for v in (0, 0.0, 1e-9, 0.5 * tv, 1e12, "0"):
                check_custom_parameter(a, iso, {col: v})
        check_custom_parameter(a, iso, {"aq_kcals": 0, "crop_reduction_year3": 0.0, "population": 2.5e6})
        check_custom_parameter(a, iso, {"not_a_column": 3, "chicken_head": 0, "kg_meat_per_large_animal": 250})
        check_custom_parameter(a, iso, {"kg_meat_per_large_animal": 0})
        check_custom_parameter(a, iso, {})
    # report at most four distinct instances (all are counted in the observations)
    cust = [f for f in a.failures if f["check"] == "custom"]
    if cust:
        a.obs["custom_parameter_failures"] = {"count": len(cust), "keys": sorted(set(f["key"] for f in cust))[:20]}
        keep, seen = [], set()
        for f in cust:
            if f["key"] not in seen and len(seen) < 4:
                seen.add(f["key"])
                keep.append(f)
        a.failures = [f for f in a.failures if f["check"] != "custom"] + keep


def species_columns():
    t = pd.read_csv("data/no_food_trade/animal_feed_data/FAOSTAT_head_and_slaughter.csv", nrows=1)
    return [c for c in t.columns if c.endswith("_head")]


def run(payload):
    a = Audit(payload)
    species = species_columns()
    if "replay" in payload:
        rep = payload["replay"]
        chk, inp = rep.get("check"), rep.get("input", {})
        if chk == "value":
            a.check_value(inp["fam"], inp["val"], inp["rows"])
        elif chk == "reject":
            a.check_rejected_before_computation([tuple(x) for x in inp["opts"]], inp["row"], inp["why"])
        elif chk == "pair":
            a.check_pair(inp["a"], inp["b"], inp["glob"], inp["row"])
        elif chk == "head":
            a.check_head(inp["species"], inp["code"], inp["value"])
        elif chk == "doc":
            a.check_doc(inp["fam"], inp["val"])
        elif chk == "custom":
            check_custom_parameter(a, inp["iso3"], inp["extras"])
        elif chk == "yaml":
            check_yaml_driver(a, inp["config"])
        elif chk == "history":
            check_call_history(a, inp["history"])
        elif chk == "overriderun":
            check_override_run(a, inp["iso3"], inp["nmonths"], inp["shutoff"], inp["extras"])
        elif chk == "fullrun":
            check_full_run(a, inp["iso3"], inp["species"], inp["value"], inp["nmonths"], inp["shutoff"])
        elif chk == "country":
            a.check_country(inp["iso3"], inp.get("waste", "baseline_in_country"))
        elif chk == "frame":
            # frames are re-derived (expectation functions are not serialisable): re-run the whole family of frames
            a.part_D(species)
            a.part_D2(species)
            a.failures = [f for f in a.failures if f["key"] == rep.get("key")]
        elif chk == "alter":
            a.part_J(True)
            a.failures = [f for f in a.failures if f["key"] == rep.get("key")]
        else:
            # tie-broken / proof-broken replays carry no direct implementation property; re-run the audit
            a.part_A(); a.part_B(); a.part_D(species); a.part_G()
        return {"failures": a.failures, "replayed": chk, "counts": a.counts, "observations": a.obs, "distinct": a.distinct}
    quick = payload.get("tier") == "quick"
    part_I(a, quick)   # first: needs a process in which no Scenarios method has run yet
    a.part_A()
    a.part_G()
    a.part_H()
    a.part_B()
    a.part_D(species)
    a.part_D2(species)
    a.part_J(quick)
    all_codes = [str(x) for x in a.rows.table["iso3"]]
    if quick:
        codes = ["USA", "SWT", "SWZ", "WOR"] + a.rng.sample(all_codes, 3)
    else:
        codes = all_codes + ["WOR", "SWZ"]
    a.part_E(species, codes)
    for fr in (FULL_RUNS[:2] if quick else FULL_RUNS):
        check_full_run(a, *fr)
    for cfg in yaml_configs():
        check_yaml_driver(a, cfg)
    part_L(a, quick)
    for orun in (OVERRIDE_RUNS[:2] if quick else OVERRIDE_RUNS):
        check_override_run(a, *orun)
    return {"failures": a.failures, "counts": a.counts, "observations": a.obs, "distinct": a.distinct,
            "found_rewrites": getattr(a, "found_rewrites", None)}


if __name__ == "__main__":
    main_io(run)
