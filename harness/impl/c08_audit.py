"""C08 direct audit: the clauses of the property evaluated on the implementation alone.

For each case (synthetic constants or a real country x options): run the real code (c08_impl.run_case) and check
 * exactly NMONTHS finite non-negative values per series
 * closed forms, recomputed here with exact fractions from the inputs, written from the property text
   (calendar, year blocks 8 / 12 / 16, one start-up delay, ramp tables, caps)
 * ramps monotone and capped
 * homogeneity: baseline x c  ==>  series x c   (c = 1/1024 and 3; exact up to float rounding)
The SCP series is compared with the property's reading (delay applied once); when it instead equals the
delay-applied-twice reading the failure kind is 'scp-delay-applied-twice'.
"""
import copy
import math
from fractions import Fraction as F
from implutil import main_io
import c08_impl
import c09_audit

REL = 1e-9
SCP_TABLE = [0] * 12 + [2] * 5 + [4] + [7] * 5 + [9] + [11] * 6 + [13]
CS_TABLE = [F(0)] * 5 + [F(47, 10)] * 3


def tab(table, last, k):
    if k < 0:
        return F(0)
    return F(table[k]) if k < len(table) else F(last)


def industrial(p, x):
    needs = F(x["global_pop"]) * F(x["kcals_monthly"]) / 10 ** 9
    return p / (1 - F(12, 100)) * F(x["slope"]) / 100 * needs * F(x["fraction"]) * (1 - F(x["wd"]) / 100)


def expected(i):
    """documented series from the inputs (exact)"""
    N = i["N"]
    e = {}
    f = i["fish"]
    coef = (1 - F(f["wd"]) / 100) * (1 - F(f["wr"]) / 100)
    e["fish"] = [(F(f["pct"][m]) / 100 * F(f["annual"]) * coef * 4000000 / 10 ** 9 / 12) if f["add"] else F(0)
                 for m in range(min(N, len(f["pct"])))]
    for nm in ("feed", "biofuel"):
        d = i[nm]
        e[nm] = [F(d["per_year"]) / 12 * 4000000 / 10 ** 9 if m < d["dur"] else F(0) for m in range(N)]
    for nu in ("fat", "protein"):
        e["fish_" + nu] = [(F(f["pct"][m]) / 100 * F(f[nu + "_annual"]) / 1000 / 12 * coef) if f["add"] else F(0)
                           for m in range(min(N, len(f["pct"])))]
        for nm in ("feed", "biofuel"):
            d = i[nm]
            e[f"{nm}_{nu}"] = [F(d[nu]) / 12 / 1000 if m < d["dur"] else F(0) for m in range(N)]
    g = i["grass"]
    ny = N // 12
    e["grass"] = [F(g["ratios"][0 if m < 8 else min((m - 8) // 12 + 1, ny - 1)]) * F(g["baseline"]) * 4000 for m in range(N)] if ny >= 1 else []
    s = i["scp"]
    e["scp"] = [industrial(tab(SCP_TABLE, 15, m - s["delay"]), s) if s["add"] else F(0) for m in range(N)]
    e["scp_twice"] = [industrial(tab(SCP_TABLE, 15, m - 2 * s["delay"]), s) if s["add"] else F(0) for m in range(N)]
    e["scp_cap"] = industrial(F(15), s) if s["add"] else F(0)
    c = i["cs"]
    e["cs"] = [industrial(tab(CS_TABLE, F(95, 10), m - c["delay"]), c) if c["add"] else F(0) for m in range(N)]
    e["cs_cap"] = industrial(F(95, 10), c) if c["add"] else F(0)
    w = i["seaweed"]
    init = F(1, 10) * F(w["new_frac"])
    per = F(20765, 10000) * 30 * F(w["new_frac"])
    mx = 1853 * F(w["max_frac"])
    e["built_area"] = [min(mx, init if (not w["add"] or m < w["delay"]) else init + (m - w["delay"]) * per) for m in range(N)]
    e["built_cap"] = mx
    e["growth"] = [100 * (F(d) / 100 + 1) ** 30 for d in w["daily"][:N]]
    st = i["stored"]
    if st["add"]:
        before = F(st["stocks"][(i["start"] - 2) % 12])
        tons = before * F(st["pct"]) / 100 - min(F(x) for x in st["stocks"]) * F(st["ratio"])
        e["stored"] = [tons * 4000000 / 10 ** 9 * (1 - F(st["wd"]) / 100)]
    else:
        e["stored"] = [F(0)]
    return e


def relerr(a, b, scale):
    return abs(a - b) / max(abs(a), abs(b), scale * 1e-3, 1e-300)


def cmp_series(obs, want):
    """index of first month where obs differs from want, or None"""
    if len(obs) != len(want):
        return -1
    scale = max([abs(float(x)) for x in want], default=0.0)
    for m, (a, b) in enumerate(zip(obs, want)):
        if relerr(a, float(b), scale) > REL:
            return m
    return None


BASELINE_KEYS = {"fish": ["FISH_DRY_CALORIC_ANNUAL"], "feed": ["FEED_KCALS"], "biofuel": ["BIOFUEL_KCALS"],
                 "grass": ["HUMAN_INEDIBLE_FEED_BASELINE_MONTHLY"], "scp": ["SCP_GLOBAL_PRODUCTION_FRACTION"],
                 "cs": ["CS_GLOBAL_PRODUCTION_FRACTION"], "stored": ["END_OF_MONTH_STOCKS"],
                 "crops": ["BASELINE_CROP_KCALS", "BASELINE_CROP_FAT", "BASELINE_CROP_PROTEIN"]}
SERIES = ["fish", "feed", "biofuel", "grass", "scp", "cs", "built_area", "stored",
          "fish_fat", "fish_protein", "feed_fat", "feed_protein", "biofuel_fat", "biofuel_protein",
          "scp_fat", "scp_protein", "cs_fat", "cs_protein"]
SCP_CONV = {"scp_fat": F(10 ** 9) / 5350 * F(9, 100) / 10 ** 6, "scp_protein": F(10 ** 9) / 5350 * F(65, 100) / 10 ** 6}
BASELINE_KEYS.update({"fish_fat": ["FISH_FAT_TONS_ANNUAL"], "fish_protein": ["FISH_PROTEIN_TONS_ANNUAL"],
                      "feed_fat": ["FEED_FAT"], "feed_protein": ["FEED_PROTEIN"], "biofuel_fat": ["BIOFUEL_FAT"],
                      "biofuel_protein": ["BIOFUEL_PROTEIN"]})


def scaled_case(case, name, factor):
    c2 = copy.deepcopy(case)
    if case["kind"] == "real":
        sc = dict(c2.get("scale") or {})
        for k in BASELINE_KEYS[name]:
            if k == "END_OF_MONTH_STOCKS":
                return None
            sc[k] = sc.get(k, 1) * factor
        c2["scale"] = sc
        return c2
    for k in BASELINE_KEYS[name]:
        if k == "END_OF_MONTH_STOCKS":
            c2["consts"][k] = {m: v * factor for m, v in c2["consts"][k].items()}
        elif k in c2["consts"]:
            c2["consts"][k] = c2["consts"][k] * factor
    return c2


SEQ_SERIES = ["feed", "biofuel", "fish", "grass", "scp", "cs", "built_area", "stored"]


def audit_sequence(case, failures, stats):
    """a run's result for a country must not depend on which countries were run before it with the same options"""
    rs = c08_impl.run_case(case)
    stats["cases"] += 1
    stats["sequence_cases"] = stats.get("sequence_cases", 0) + 1
    opt = rs["options_before"]
    if not rs["options_unchanged"]:
        diff = {k: (opt.get(k), rs["options_after"].get(k)) for k in set(opt) | set(rs["options_after"]) if opt.get(k) != rs["options_after"].get(k)}
        failures.append({"kind": "shared-options-modified", "kind_of_failure": "shared-options-modified", "case": case,
                         "what": f"running {case['isos']} in one sequence changed the caller's scenario options: {diff}"})
    for iso, r in zip(case["isos"], rs["sequence"]):
        alone = c08_impl.run_case({"kind": "real", "iso3": iso, "options": opt})
        stats["checks"] += 1
        if r["inputs"] is None or alone["inputs"] is None:
            continue
        for nm in SEQ_SERIES + ["crops"]:
            a = r["crops"]["obs"]["prod"] if nm == "crops" else r["obs"].get(nm)
            b = alone["crops"]["obs"]["prod"] if nm == "crops" else alone["obs"].get(nm)
            if a is None or b is None:
                continue
            scale = max([abs(x) for x in b], default=0.0)
            if len(a) != len(b) or any(relerr(x, y, scale) > REL for x, y in zip(a, b)):
                m = next((k for k, (x, y) in enumerate(zip(a, b)) if relerr(x, y, scale) > REL), -1)
                kind = "series-depends-on-earlier-countries-" + nm
                failures.append({"kind": kind, "kind_of_failure": kind, "case": case, "month": m,
                                 "what": f"{iso} run after {case['isos'][:case['isos'].index(iso)]} with one shared option dict: {nm} month {m} is "
                                         f"{a[m] if m >= 0 else len(a)!r}, run alone it is {b[m] if m >= 0 else len(b)!r}"})
                break


HANDOFF = [("fish", "fish"), ("scp_prod", "scp"), ("cs_prod", "cs"), ("built_area", "built_area"), ("growth", "growth")]


def audit_handoff(case, failures, stats):
    """the series each round's optimiser receives == the first-round series (themselves compared with the closed forms)"""
    opt, lps, err = c09_audit.three_round_run(case)
    stats["cases"] += 1
    stats["handoff_runs"] = stats.get("handoff_runs", 0) + 1
    if err or len(lps) not in c09_audit.ROUND_NAMES:
        stats["handoff_skipped"] = stats.get("handoff_skipped", 0) + 1
        return
    r = c08_impl.run_case({"kind": "real", "iso3": case["iso3"], "options": opt})
    if r["inputs"] is None:
        return
    e = expected(r["inputs"])
    for (k, rname), lp in zip(c09_audit.ROUND_NAMES[len(lps)], lps):
        for key, nm in HANDOFF:
            stats["checks"] += 1
            got, ref = lp[key], r["obs"][nm]
            bad = cmp_series(got, [F(x) for x in ref])
            if bad is None and not (nm == "scp"):
                bad = cmp_series(got, e[nm])
            if bad is not None:
                kind = f"{nm}-handed-to-round{k}-differs@compute_parameters_{rname}"
                failures.append({"kind": kind, "kind_of_failure": kind, "case": case, "month": bad,
                                 "what": f"{case['iso3']}: round {k} optimiser receives {got[bad] if bad >= 0 else len(got)!r} for {nm} month {bad}; "
                                         f"the first-round series has {ref[bad] if bad >= 0 else len(ref)!r}"})


def audit_case(case, failures, stats):
    def fail(kind, what, **kw):
        failures.append({"kind": kind, "what": what, "case": case, "kind_of_failure": kind, **kw})

    if case["kind"] == "sequence":
        return audit_sequence(case, failures, stats)
    if case["kind"] == "handoff":
        return audit_handoff(case, failures, stats)
    r = c08_impl.run_case(case)
    stats["cases"] += 1
    if r["inputs"] is None:
        stats["rejected"] += 1
        if case["kind"] == "real":
            fail("real-run-rejected", f"{case['iso3']} {case['options'].get('scenario')}: {r['errs']}")
        return
    i, o = r["inputs"], r["obs"]
    N = i["N"]
    e = expected(i)
    stats["distinct"] += 1
    for nm, err in r["errs"].items():
        fail("rejected-" + nm, f"{nm}: the implementation raised {err} on admissible inputs")
    admissible = {"feed": i["feed"]["dur"] <= N, "biofuel": i["biofuel"]["dur"] <= N, "grass": N % 12 == 0 and N >= 24,
                  "fish": len(i["fish"]["pct"]) >= N}
    for nu in ("fat", "protein"):
        for nm in ("fish", "feed", "biofuel"):
            admissible[f"{nm}_{nu}"] = admissible[nm]
    # SCP / CS fat and protein: conversion constant x the kcal series / zeros
    for k, conv in SCP_CONV.items():
        if "scp" in o:
            e[k] = [F(x) * conv for x in o["scp"]]
    for k in ("cs_fat", "cs_protein"):
        if "cs" in o:
            e[k] = [F(0)] * len(o["cs"])
    for nm in SERIES:
        if nm not in o:
            continue
        v = o[nm]
        stats["checks"] += 1
        n_want = 1 if nm == "stored" else N
        if len(v) != n_want and admissible.get(nm, True):
            fail("length-" + nm, f"{nm} has {len(v)} values for NMONTHS={N}")
        if any(math.isnan(x) or math.isinf(x) for x in v):
            fail("non-finite-" + nm, f"{nm} contains a non-finite value")
        elif any(x < 0 for x in v):
            fail("negative-" + nm, f"{nm} contains a negative value {min(v)}")
        # closed form
        stats["checks"] += 1
        if not admissible.get(nm, True):
            continue
        bad = cmp_series(v, e[nm])
        if bad is not None:
            if nm == "scp" and cmp_series(v, e["scp_twice"]) is None:
                fail("scp-delay-applied-twice",
                     f"SCP production starts after 2 x {i['scp']['delay']} + 12 months, not {i['scp']['delay']} + 12: month {bad} is "
                     f"{v[bad]!r}, a single start-up delay gives {float(e['scp'][bad])!r}", month=bad)
            else:
                fail("closed-form-" + nm, f"{nm} month {bad}: {v[bad] if bad >= 0 else len(v)!r} but the documented function of the inputs "
                     f"gives {float(e[nm][bad]) if bad >= 0 else len(e[nm])!r}", month=bad)
    if "growth" in o:
        stats["checks"] += 1
        bad = cmp_series(o["growth"], e["growth"])
        if bad is not None:
            fail("closed-form-growth", f"seaweed growth factor {bad}: {o['growth'][bad] if bad >= 0 else len(o['growth'])!r} vs "
                 f"{float(e['growth'][bad]) if bad >= 0 else len(e['growth'])!r}")
        if any(x < 0 or math.isnan(x) or math.isinf(x) for x in o["growth"]):
            fail("negative-growth", "seaweed growth factors contain a negative or non-finite value")
        if len(o["growth"]) != N and len(i["seaweed"]["daily"]) >= N:
            fail("length-growth", f"{len(o['growth'])} seaweed growth factors for NMONTHS={N}")
    # ramps: monotone and capped
    for nm, cap in (("scp", e["scp_cap"]), ("cs", e["cs_cap"]), ("built_area", max(e["built_cap"], 0))):
        if nm not in o:
            continue
        stats["checks"] += 1
        v = o[nm]
        for m in range(1, len(v)):
            if v[m] < v[m - 1] * (1 - 1e-12):
                fail("not-monotone-" + nm, f"{nm} falls from {v[m-1]!r} to {v[m]!r} at month {m}", month=m)
                break
        if v and max(v) > float(cap) * (1 + 1e-9) + 1e-300:
            fail("above-cap-" + nm, f"{nm} reaches {max(v)!r}, above its configured maximum {float(cap)!r}")
    if "built_area" in o and i["seaweed"]["add"]:
        d = min(i["seaweed"]["delay"], N)
        if any(x != o["built_area"][0] for x in o["built_area"][:d]):
            fail("built-area-before-delay", "built seaweed area changes before the start-up delay has passed")
    # demand: zero after the shut-off
    for nm in ("feed", "biofuel"):
        if nm in o and any(x != 0 for x in o[nm][i[nm]["dur"]:]):
            fail("demand-after-shutoff-" + nm, f"{nm} demand non-zero after month {i[nm]['dur']}")
    # homogeneity
    for nm in ("fish", "feed", "biofuel", "grass", "scp", "cs", "stored", "fish_fat", "fish_protein", "feed_fat",
               "feed_protein", "biofuel_fat", "biofuel_protein"):
        if nm not in o or not admissible.get(nm, True):
            continue
        for factor in (1 / 1024, 3.0):
            c2 = scaled_case(case, nm, factor)
            if c2 is None:
                continue
            if nm in ("scp", "cs") and i[nm]["fraction"] * factor > 1:
                continue
            r2 = c08_impl.run_case(c2)
            stats["checks"] += 1
            if r2["inputs"] is None or nm not in r2["obs"]:
                fail("not-homogeneous-" + nm, f"{nm}: baseline x {factor} was rejected: {r2['errs']}")
                continue
            want = [x * factor for x in o[nm]]
            scale = max([abs(x) for x in want], default=0.0)
            got = r2["obs"][nm]
            if len(got) != len(want) or any(relerr(a, b, scale) > 1e-12 for a, b in zip(got, want)):
                fail("not-homogeneous-" + nm, f"{nm}: baseline x {factor} does not scale the series by {factor}")
    # numeric overrides of the option layer: every yearly ratio of the run WITHOUT the override, times the multiplier,
    # must be what the series of the run WITH the override follow (month by month, incl. the last year block)
    opts = case.get("options") or {}
    if case["kind"] == "real" and ("CROP_PRODUCTION_MULTIPLIER" in opts or "GRASSES_PRODUCTION_MULTIPLIER" in opts) and r.get("crops"):
        stats["checks"] += 2
        stats["override_cases"] = stats.get("override_cases", 0) + 1
        base_case = copy.deepcopy(case)
        mc = float(base_case["options"].pop("CROP_PRODUCTION_MULTIPLIER", 1.0))
        mg = float(base_case["options"].pop("GRASSES_PRODUCTION_MULTIPLIER", 1.0))
        r0 = c08_impl.run_case(base_case)
        if r0["inputs"] is None or not r0.get("crops"):
            fail("override-base-rejected", f"{case['iso3']}: the same options without the multipliers were rejected: {r0['errs']}")
        else:
            ci = copy.deepcopy(r0["crops"]["inputs"])
            ci["ratios"] = [x * mc for x in ci["ratios"]]
            if ci["add"]:
                want, _, _ = c09_audit.closed_form(ci, r["crops"]["pw"])
                bad = cmp_series(r["crops"]["obs"]["prod"], want)
                if bad is not None:
                    fail("override-crops", f"{case['iso3']} CROP_PRODUCTION_MULTIPLIER={mc}: outdoor crops month {bad} is "
                         f"{r['crops']['obs']['prod'][bad]!r}; table ratio x multiplier gives {float(want[bad])!r}", month=bad)
            gi = copy.deepcopy(r0["inputs"])
            gi["grass"]["ratios"] = [x * mg for x in gi["grass"]["ratios"]]
            wantg = expected(gi)["grass"]
            bad = cmp_series(o["grass"], wantg)
            if bad is not None:
                fail("override-grass", f"{case['iso3']} GRASSES_PRODUCTION_MULTIPLIER={mg}: grass month {bad} is {o['grass'][bad]!r}; "
                     f"table ratio x multiplier gives {float(wantg[bad])!r}", month=bad)
    # crops of real runs: shape + closed form + homogeneity
    if r.get("crops"):
        cr = r["crops"]
        ci, co = cr["inputs"], cr["obs"]
        stats["checks"] += 3
        for key in ("prod", "ghk"):
            v = co[key]
            if len(v) != N:
                fail("length-" + key, f"{key} has {len(v)} values for NMONTHS={N}")
            if any(math.isnan(x) or math.isinf(x) or x < 0 for x in v):
                fail("negative-" + key, f"{key} contains a negative or non-finite value")
        if ci["add"] or ci["gadd"]:
            want, _, _ = c09_audit.closed_form(ci, cr["pw"])
            bad = cmp_series(co["prod"], want)
            if bad is not None:
                fail("closed-form-crops", f"outdoor crops month {bad}: {co['prod'][bad]!r} vs documented {float(want[bad])!r}", month=bad)
        c2 = scaled_case(case, "crops", 1 / 1024)
        r2 = c08_impl.run_case(c2)
        if r2.get("crops"):
            got = r2["crops"]["obs"]["prod"]
            want = [x / 1024 for x in co["prod"]]
            scale = max(want, default=0.0)
            if len(got) != len(want) or any(relerr(a, b, scale) > 1e-12 for a, b in zip(got, want)):
                fail("not-homogeneous-crops", "outdoor crops: baseline / 1024 does not scale the series by 1/1024 (quantised?)")
            got = r2["crops"]["obs"]["ghk"]
            want = [x / 1024 for x in co["ghk"]]
            scale = max(want, default=0.0)
            if len(got) != len(want) or any(relerr(a, b, scale) > 1e-12 for a, b in zip(got, want)):
                fail("not-homogeneous-greenhouse", "greenhouse crops: baseline / 1024 does not scale the series by 1/1024")
        else:
            fail("not-homogeneous-crops", f"scaled crops rejected: {r2['errs']}")


def run(payload):
    failures = []
    stats = {"cases": 0, "rejected": 0, "distinct": 0, "checks": 0}
    for c in payload["cases"]:
        audit_case(c, failures, stats)
    kinds = {}
    keep = []
    for f in failures:
        kinds[f["kind"]] = kinds.get(f["kind"], 0) + 1
        if kinds[f["kind"]] <= 2:
            keep.append(f)
    stats["failures"] = keep
    stats["failure_kinds"] = kinds
    return stats


if __name__ == "__main__":
    main_io(run)
