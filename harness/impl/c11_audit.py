"""C11 direct audit: every clause of the property evaluated on the implementation itself (no model).
Clauses: (a) the combined label list agrees with the three labels; (b) series <-> " each month" suffix (exactly once,
at the end), single value <-> no "each month"; (c) per-operation label table (independent token-level spec);
(d) operands unchanged; (e) refusal on differing units; (f) ratio x quantity keeps the quantity's units on either
side; (g) the 16 predicates agree between a single value and the one-month series under all four flag settings."""
import copy
import itertools
import random

import numpy as np
from implutil import classify, main_io, quiet
import c11_impl as I
from src.food_system.food import Food

EACH, PER = " each month", " per month"
FLAGS = [(True, True), (True, False), (False, True), (False, False)]
METHOD = {"add": "Food.__add__", "sub": "Food.__sub__", "neg": "Food.__neg__", "abs": "Food.get_abs_values",
          "mul_food": "Food.__mul__", "rmul_food": "Food.__mul__", "mul_num": "Food.__mul__", "rmul_num": "Food.__rmul__",
          "mul_arr": "Food.__mul__", "div_food": "Food.__truediv__", "div_num": "Food.__truediv__",
          "index": "Food.__getitem__:int-index", "slice": "Food.__getitem__:slice", "month": "Food.get_month",
          "first_month": "Food.get_first_month", "sum": "Food.get_nutrients_sum",
          "runsum": "Food.get_running_total_nutrients_sum", "min_all": "Food.get_min_all_months",
          "max_all": "Food.get_max_all_months", "min_elem": "Food.min_elementwise", "min_elem_r": "Food.min_elementwise",
          "round": "Food.get_rounded_to_decimal", "clip": "Food.negative_values_to_zero", "shift": "Food.shift",
          "in_units": "Food.in_units", "helper": "Food.in_units_helper", "set_units": "UnitConversions.set_units",
          "set_req": "UnitConversions.set_nutrition_requirements",
          "set_l2t": "UnitConversions.set_units_from_list_to_total",
          "set_l2e": "UnitConversions.set_units_from_list_to_element",
          "set_e2l": "UnitConversions.set_units_from_element_to_list"}
HELPER_TARGETS = {
    "in_units_billions_fed": ["billion people fed"] * 3,
    "in_units_percent_fed": ["percent people fed"] * 3,
    "in_units_kcals_equivalent": ["kcals per person per day", "effective kcals per person per day",
                                  "effective kcals per person per day"],
    "in_units_kcals_grams_grams_per_person": ["kcals per person per day", "grams per person per day",
                                              "grams per person per day"],
    "in_units_bil_kcals_thou_tons_thou_tons_per_month": ["billion kcals", "thousand tons", "thousand tons"]}


def labels(f):
    return [f.kcals_units, f.fat_units, f.protein_units]


def label_ok(monthly, L):
    if monthly:
        return L.endswith(EACH) and "each month" not in L[: -len(EACH)]
    return "each month" not in L


def shape_ok(f):
    if f.is_list_monthly():
        return all(isinstance(v, np.ndarray) and v.ndim == 1 for v in (f.kcals, f.fat, f.protein)) and \
            len(f.kcals) == len(f.fat) == len(f.protein) > 0
    return not any(isinstance(v, (list, np.ndarray)) for v in (f.kcals, f.fat, f.protein))


def wf(f):
    return shape_ok(f) and list(f.units) == labels(f) and all(label_ok(f.is_list_monthly(), L) for L in labels(f))


def is_ratio(f):
    return all("ratio" in L for L in labels(f))


def expected_labels(st, x, y):
    """independent specification table; None = no expectation"""
    o = st["op"]
    Lx = labels(x)
    if o in ("add", "sub", "neg", "abs", "mul_num", "rmul_num", "div_num", "runsum", "round", "clip", "shift", "slice",
             "min_elem"):
        return [Lx]
    if o == "min_elem_r":
        return [labels(y)]
    if o in ("mul_food", "rmul_food"):
        rx, ry = is_ratio(x), is_ratio(y)
        if rx and ry:
            return [Lx, labels(y)]
        return [Lx] if ry else [labels(y)]
    if o == "mul_arr":
        return [Lx] if x.is_list_monthly() else [[L + EACH for L in Lx]]
    if o == "div_food":
        return [["ratio" + (EACH if x.is_list_monthly() else "")] * 3]
    if o in ("index", "month", "first_month"):
        return [[L[: -len(EACH)] + PER for L in Lx]]
    if o in ("sum", "min_all", "max_all"):
        return [[L[: -len(EACH)] for L in Lx]]
    if o in ("in_units", "helper"):
        to = st["to"] if o == "in_units" else HELPER_TARGETS[st["name"]]
        s = EACH if Lx[0].endswith(EACH) else PER if Lx[0].endswith(PER) else ""
        return [[t + s for t in to]]
    return None


def probe_conversions(cur, where, fail, counts):
    """(i) conversions follow the CURRENT requirements: one unit of each nutrient against the defining formulas"""
    counts["settings_probes"] += 1
    kd, fd, pd, pop = cur["kcals_daily"], cur["fat_daily"], cur["protein_daily"], cur["population"]
    need = [kd * 30 * pop / 1e9, fd / 1e6 * 30 / 1000 * pop, pd / 1e6 * 30 / 1000 * pop]
    exp = {"in_units_percent_fed": [100 / v for v in need],
           "in_units_billions_fed": [pop / 1e9 / v for v in need],
           "in_units_kcals_grams_grams_per_person": [kd / need[0], fd / need[1], pd / need[2]]}
    for name, e in exp.items():
        with quiet():
            u = getattr(Food(1.0, 1.0, 1.0, "billion kcals", "thousand tons", "thousand tons"), name)()
        got = [float(u.kcals), float(u.fat), float(u.protein)]
        if any(abs(g - x) > 1e-9 * abs(x) for g, x in zip(got, e)):
            fail("C11:conversion-ignores-current-requirements@UnitConversions." + name,
                 f"{where}: with requirements {cur} one unit converts to {got}, the requirements give {e}")
            return


def audit_seq(seq, flags, fails, counts, settings):
    I.set_flags(settings, flags[0], flags[1])
    cur_settings = settings
    rng = random.Random(seq["seed"])
    case = {"type": "seq", "flags": list(flags), "seq": seq}

    def fail(key, what):
        fails.append({"key": key, "what": what, "case": case})
    try:
        with quiet():
            x = I.build(seq["init"])
    except BaseException:
        counts["ctor_rejected"] += 1
        return
    audit_ctor_result(seq["init"], x, fails, counts)
    for i, st in enumerate(seq["steps"]):
        y = None
        if "y" in st:
            try:
                with quiet():
                    y = I.operand(st["y"], x, rng)
            except BaseException:
                return
        bx, by = I.snapshot(x), I.snapshot(y)
        m = METHOD[st["op"]]
        if st["op"] == "index":
            m = "Food.__getitem__:" + st.get("kt", "int") + "-index"
        try:
            with quiet():
                z = I.apply(x, st, y)
            err = None
        except BaseException as e:
            z, err = None, classify(e)
        counts["steps"] += 1
        if st["op"] == "set_req" and err is None:
            cur_settings = st["settings"]
            probe_conversions(cur_settings, f"step {i} after set_nutrition_requirements", fail, counts)
        # (d) operands unchanged
        if I.snapshot(x) != bx or I.snapshot(y) != by:
            fail("C11:operand-modified@" + m, f"step {i} {st['op']} modified an operand")
        # (e) refusal on differing units
        if y is not None and st["op"] in ("add", "sub", "div_food", "min_elem", "min_elem_r"):
            counts["unit_check_cases"] += 1
            if list(x.units) != list(y.units):
                counts["unit_mismatch_cases"] += 1
                if err is None:
                    fail("C11:no-refusal@" + m, f"step {i} {st['op']} combined {x.units} with {y.units}")
        if y is not None and st["op"] in ("mul_food", "rmul_food") and not is_ratio(x) and not is_ratio(y):
            counts["unit_mismatch_cases"] += 1
            if err is None:
                fail("C11:no-refusal@" + m, f"step {i} multiplied two non-ratio quantities {x.units} * {y.units}")
        # (f) ratio on either side
        if y is not None and st["op"] in ("mul_food", "rmul_food") and wf(x) and wf(y) and (is_ratio(x) != is_ratio(y)):
            counts["ratio_side_cases"] += 1
            a, b = (x, y) if st["op"] == "mul_food" else (y, x)
            try:
                with quiet():
                    z2 = b * a
                err2 = None
            except BaseException as e:
                z2, err2 = None, classify(e)
            q = y if is_ratio(x) else x
            if (err is None) != (err2 is None):
                fail("C11:ratio-side@" + m, f"step {i}: a*b {'accepted' if err is None else err} but b*a "
                                            f"{'accepted' if err2 is None else err2} ({a.units} * {b.units})")
            elif err is None:
                same = labels(z) == labels(z2) == labels(q) and list(z.units) == list(z2.units) == labels(q) and \
                    np.array_equal(np.array(z.kcals), np.array(z2.kcals)) and \
                    np.array_equal(np.array(z.fat), np.array(z2.fat)) and \
                    np.array_equal(np.array(z.protein), np.array(z2.protein))
                if not same:
                    fail("C11:ratio-side@" + m, f"step {i}: ratio x quantity gives {labels(z)} / {labels(z2)}, "
                                                f"quantity has {labels(q)}")
        if z is None:
            return
        counts["accepted"] += 1
        if st["op"] in ("in_units", "helper") and wf(x):
            to = st["to"] if st["op"] == "in_units" else HELPER_TARGETS[st["name"]]
            check_conversion_numbers(x, z, to, cur_settings, f"step {i} {st['op']}", m, fail, counts)
        # (h) indexing with any integer key (Python int or numpy integer) is get_month
        if st["op"] == "index":
            index_vs_month(x, z, I.make_key(x, st)[1], m, i, fail, counts)
        # (a) combined list agrees with the labels
        if list(z.units) != labels(z):
            fail("C11:units-list-stale@" + m, f"step {i} {st['op']}: units {z.units} but labels {labels(z)}")
        elif not st["op"].startswith("set_") and wf(x) and (y is None or wf(y)) and shape_ok(z):
            counts["wf_in_cases"] += 1
            # (b) series <-> " each month"
            if not all(label_ok(z.is_list_monthly(), L) for L in labels(z)):
                fail("C11:shape-label-mismatch@" + m,
                     f"step {i} {st['op']}: {'series' if z.is_list_monthly() else 'single value'} labelled {labels(z)} "
                     f"(operand labelled {labels(x)})")
            else:
                exp = expected_labels(st, x, y)
                if exp is not None:
                    counts["label_table_cases"] += 1
                    if labels(z) not in exp:
                        fail("C11:labels-wrong@" + m, f"step {i} {st['op']}: labels {labels(z)}, expected {exp[0]} "
                                                      f"(operand {labels(x)})")
        x = z
        if not np.all(np.isfinite(np.array(x.kcals, dtype=float))):
            return


def index_vs_month(x, z, k, m, i, fail, counts):
    counts["index_cases"] += 1
    try:
        with quiet():
            g = x.get_month(k)
    except BaseException as e:
        fail("C11:index-differs-from-get_month@" + m, f"step {i}: x[{k}] accepted but get_month({k}) raised {classify(e)}")
        return
    if z.is_list_monthly() or labels(z) != labels(g) or list(z.units) != list(g.units) or \
            I.snapshot(z)[:3] != I.snapshot(g)[:3]:
        fail("C11:index-differs-from-get_month@" + m,
             f"step {i}: x[{k}] is labelled {labels(z)} / {z.units}, get_month({k}) is labelled {labels(g)} "
             f"(series labelled {labels(x)})")
        return
    try:
        with quiet():
            z + g
    except BaseException as e:
        fail("C11:index-differs-from-get_month@" + m, f"step {i}: x[{k}] + get_month({k}) raised {classify(e)}")


def audit_ctor_result(a, x, fails, counts):
    counts["ctor_cases"] += 1
    case = {"type": "ctor", "args": a}
    mon = a["k"]["t"] in ("list", "arr")
    if not shape_ok(x):
        return
    given = [a["lk"], a["lf"], a["lp"]]
    ints = [a[k]["t"] == "int" for k in ("k", "f", "p")]
    inst = ":int-placeholder" if (mon and any(ints[1:])) else ""
    if list(x.units) != labels(x):
        fails.append({"key": "C11:units-list-stale@Food.__init__", "what": f"units {x.units} labels {labels(x)}", "case": case})
        return
    if mon:
        # a series must come out labelled "<given base> each month", exactly once
        if all(label_ok(False, g) or label_ok(True, g) for g in given):
            exp = [g if g.endswith(EACH) else g + EACH for g in given]
            if labels(x) != exp:
                fails.append({"key": "C11:labels-wrong@Food.__init__" + inst,
                              "what": f"Food({'list'}, fat={a['f']['t']}, protein={a['p']['t']}, labels={given}) is labelled "
                                      f"{labels(x)}, expected {exp}", "case": case})
    else:
        if labels(x) != given:
            fails.append({"key": "C11:labels-wrong@Food.__init__", "what": f"{given} -> {labels(x)}", "case": case})


def call_pred(f, name, other, kw):
    try:
        with quiet():
            m = getattr(f, I.PRED_METHOD[name])
            v = m(other, **kw) if name in I.BINARY else m(**kw)
        return bool(v)
    except BaseException as e:
        return "err:" + classify(e)


def audit_pred_case(name, xv, yv, kw, labs, fails, counts, settings, flag_list=FLAGS):
    for fl in flag_list:
        I.set_flags(settings, fl[0], fl[1])
        xs = Food(xv[0], xv[1], xv[2], *labs)
        xm = Food(np.array([xv[0]]), np.array([xv[1]]), np.array([xv[2]]), *[L + EACH for L in labs])
        ys = ym = None
        if name in I.BINARY:
            ys = Food(yv[0], yv[1], yv[2], *labs)
            ym = Food(np.array([yv[0]]), np.array([yv[1]]), np.array([yv[2]]), *[L + EACH for L in labs])
        before = (I.snapshot(xs), I.snapshot(xm), I.snapshot(ys), I.snapshot(ym))
        a = call_pred(xs, name, ys, kw)
        b = call_pred(xm, name, ym, kw)
        counts["pred_pairs"] += 1
        case = {"type": "pred", "pred": name, "x": list(xv), "y": list(yv) if yv else None, "kw": kw,
                "labels": list(labs), "flags": list(fl)}
        if a != b:
            inst = ":" + "+".join(sorted(k for k, v in kw.items() if v)) if any(kw.values()) else ""
            fails.append({"key": "C11:predicate-scalar-series-disagree@Food." + I.PRED_METHOD[name] + inst,
                          "what": f"{I.PRED_METHOD[name]}({kw}) include_fat={fl[0]} include_protein={fl[1]}: single value "
                                  f"{tuple(xv)} vs {tuple(yv) if yv else ''} -> {a}, one-month series -> {b}", "case": case})
        if before != (I.snapshot(xs), I.snapshot(xm), I.snapshot(ys), I.snapshot(ym)):
            fails.append({"key": "C11:operand-modified@Food." + I.PRED_METHOD[name], "what": "predicate modified an operand",
                          "case": case})


def audit_preds(grid, fails, counts, settings):
    labs = ("billion kcals", "thousand tons", "thousand tons")
    trip = list(itertools.product(grid, repeat=3))
    for name in I.PRED_METHOD:
        if name in I.BINARY:
            for xv in trip:
                for yv in trip:
                    audit_pred_case(name, xv, yv, {}, labs, fails, counts, settings)
        else:
            kws = [{}]
            if name == "all_ge_zero":
                kws = [{}, {"threshold": 0}, {"threshold": 2.0}]
            if name == "all_zero":
                kws = [{}, {"rounding_decimals": 0}]
            for kw in kws:
                for xv in trip:
                    audit_pred_case(name, xv, None, kw, labs, fails, counts, settings)


def boundary_values(d):
    """magnitudes around every tolerance boundary of a 10^-d rounding (0.5 and 1 units), both signs, none ON a boundary"""
    u = 10.0 ** (-d)
    mags = [0.3, 0.49, 0.51, 0.7, 0.99, 1.01, 1.6, 2.4]
    return [0.0] + [sg * m * u for m in mags for sg in (1.0, -1.0)]


def audit_pred_boundaries(fails, counts, settings):
    """unary predicates with one nutrient placed around a tolerance boundary (the others zero, or clearly non-zero),
    single value AND one-month series, all four flag settings, plus an independent reading of all_equals_zero"""
    labs = ("billion kcals", "thousand tons", "thousand tons")
    unary = [n for n in I.PRED_METHOD if n not in I.BINARY]
    for name in unary:
        kws = [{}]
        if name == "all_zero":
            kws = [{}, {"rounding_decimals": 9}, {"rounding_decimals": 3}, {"rounding_decimals": 0}]
        if name == "all_ge_zero":
            kws = [{}, {"threshold": 2.0}, {"threshold": 1e-9}]
        for kw in kws:
            d = kw.get("rounding_decimals", 9)
            vals = boundary_values(d)
            if "threshold" in kw:
                t = kw["threshold"]
                vals = vals + [-t * (1 + 1e-6), -t * (1 - 1e-6), t]
            for pos in range(3):
                for other in (0.0, 5.0):
                    for v in vals:
                        xv = [other] * 3
                        xv[pos] = v
                        n0 = len(fails)
                        audit_pred_case(name, xv, None, kw, labs, fails, counts, settings)
                        if name == "all_zero" and len(fails) == n0:
                            for fl in FLAGS:
                                I.set_flags(settings, fl[0], fl[1])
                                counted = [xv[0]] + ([xv[1]] if fl[0] else []) + ([xv[2]] if fl[1] else [])
                                want = all(abs(c) * 10 ** d < 0.5 for c in counted)
                                got = call_pred(Food(np.array([xv[0]]), np.array([xv[1]]), np.array([xv[2]]),
                                                     *[L + EACH for L in labs]), name, None, kw)
                                counts["pred_pairs"] += 1
                                if got != want:
                                    fails.append({"key": "C11:predicate-wrong@Food.all_equals_zero",
                                                  "what": f"all_equals_zero({kw}) include_fat={fl[0]} include_protein={fl[1]} on "
                                                          f"{xv}: {got}, rounding to {d} decimals gives {want}",
                                                  "case": {"type": "pred", "pred": name, "x": xv, "y": None, "kw": kw,
                                                           "labels": list(labs), "flags": list(fl)}})
                                    break


# defining formulas of the unit multipliers (relative to billion kcals / thousand tons / thousand tons), per nutrient
def multipliers(cur):
    kd, fd, pd, pop = cur["kcals_daily"], cur["fat_daily"], cur["protein_daily"], cur["population"]
    out = [{"billion kcals": 1.0, "billion people fed": 1 / (kd * 30), "percent people fed": 100 / (kd * 30 * pop / 1e9),
            "million dry caloric tons": 1 / 4000.0, "kcals per person per day": 1e9 / (30 * pop)}]
    for g in (fd, pd):
        monthly = g / 1e6 * 30 / 1000
        out.append({"thousand tons": 1.0, "million tons": 1 / 1000.0, "billion people fed": 1 / monthly / 1e9,
                    "percent people fed": 100 / (monthly * pop),
                    "effective kcals per person per day": 1 / monthly / 1e9 * (1e9 / pop * kd),
                    "grams per person per day": 100 / (monthly * pop) * g / 100})
    return out


def strip_sfx(L):
    for sf in (EACH, PER):
        if L.endswith(sf):
            return L[: -len(sf)]
    return L


def check_conversion_numbers(x, z, to, cur, where, m, fail, counts):
    """(j) every nutrient is converted with ITS OWN source and target unit"""
    mult = multipliers(cur)
    src = [strip_sfx(L) for L in labels(x)]
    if any(a not in t for a, t in zip(src, mult)) or any(b not in t for b, t in zip(to, mult)):
        return
    counts["conversion_number_cases"] += 1
    for nm, xa, za, a, b, t in zip(("kcals", "fat", "protein"), (x.kcals, x.fat, x.protein), (z.kcals, z.fat, z.protein),
                                   src, to, mult):
        want = np.asarray(xa, dtype=float) * (t[b] / t[a])
        got = np.asarray(za, dtype=float)
        if want.shape != got.shape or np.any(np.abs(got - want) > 1e-9 * np.maximum(np.abs(want), 1e-300)):
            fail("C11:conversion-wrong-number@" + m,
                 f"{where}: {nm} {np.asarray(xa).tolist()} '{a}' -> '{b}' gives {got.tolist()}, the units' definitions give "
                 f"{want.tolist()} (targets {to}, requirements {cur})")
            return


REFUSING = {"add": lambda a, b: a + b, "sub": lambda a, b: a - b, "div_food": lambda a, b: a / b,
            "min_elementwise": lambda a, b: Food.min_elementwise(a, b),
            "min_elementwise (swapped)": lambda a, b: Food.min_elementwise(b, a),
            "get_remaining_food_needed_and_amount_used (demand)": lambda a, b: Food.get_remaining_food_needed_and_amount_used(a, b, 0.5),
            "get_remaining_food_needed_and_amount_used (resource)": lambda a, b: Food.get_remaining_food_needed_and_amount_used(b, a, 0.5),
            "__eq__": lambda a, b: a == b, "__ne__": lambda a, b: a != b,
            "all_greater_than": lambda a, b: a.all_greater_than(b), "all_less_than": lambda a, b: a.all_less_than(b),
            "any_greater_than": lambda a, b: a.any_greater_than(b), "any_less_than": lambda a, b: a.any_less_than(b),
            "all_greater_than_or_equal_to": lambda a, b: a.all_greater_than_or_equal_to(b),
            "all_less_than_or_equal_to": lambda a, b: a.all_less_than_or_equal_to(b),
            "any_greater_than_or_equal_to": lambda a, b: a.any_greater_than_or_equal_to(b),
            "any_less_than_or_equal_to": lambda a, b: a.any_less_than_or_equal_to(b)}
# as written, any_less_than_or_equal_to on a series compares without looking at the units (recorded as a note)
NOT_REFUSING_AS_WRITTEN = {("any_less_than_or_equal_to", True)}


def audit_one_label_differs(fails, counts, settings, only=None):
    """(e') operands whose labels differ in exactly ONE of the three positions are refused by every binary operation,
    single values and series, under all four flag settings"""
    notes = {}
    for fl in FLAGS:
        I.set_flags(settings, fl[0], fl[1])
        for mon in (False, True):
            for sfx in ((EACH,) if mon else ("", PER)):
                base = ["billion kcals" + sfx, "thousand tons" + sfx, "thousand tons" + sfx]
                for pos in range(3):
                    other = list(base)
                    other[pos] = I.other_unit(base[pos], pos)

                    def mk(labs, a):
                        if mon:
                            return Food(np.array([a, 2 * a]), np.array([a / 2, a]), np.array([a / 4, a / 2]), *labs)
                        return Food(a, a / 2, a / 4, *labs)
                    for name, fn in REFUSING.items():
                        if only and name != only:
                            continue
                        counts["one_label_differs_cases"] += 1
                        x, y = mk(base, 8.0), mk(other, 6.0)
                        try:
                            with quiet():
                                fn(x, y)
                            refused = False
                        except BaseException:
                            refused = True
                        if refused:
                            continue
                        if (name, mon) in NOT_REFUSING_AS_WRITTEN:
                            notes[name] = notes.get(name, 0) + 1
                            continue
                        fails.append({"key": "C11:no-refusal@Food." + name.split(" ")[0] + ":one-label-differs",
                                      "what": f"{name} accepted {'series' if mon else 'single values'} labelled {base} and {other} "
                                              f"(include_fat={fl[0]}, include_protein={fl[1]})",
                                      "case": {"type": "one_label", "name": name, "flags": list(fl)}})
    return notes


def run(payload):
    settings = payload["settings"]
    fails = []
    counts = {k: 0 for k in ("steps", "accepted", "ctor_cases", "ctor_rejected", "unit_check_cases",
                             "unit_mismatch_cases", "ratio_side_cases", "wf_in_cases", "label_table_cases", "pred_pairs", "index_cases", "settings_probes",
                             "conversion_number_cases", "one_label_differs_cases")}
    if "replay" in payload:
        c = payload["replay"]
        if c["type"] == "seq":
            audit_seq(c["seq"], tuple(c["flags"]), fails, counts, settings)
        elif c["type"] == "one_label":
            audit_one_label_differs(fails, counts, settings, only=c["name"])
        elif c["type"] == "ctor":
            I.set_flags(settings, True, True)
            audit_ctor_result(c["args"], I.build(c["args"]), fails, counts)
        else:
            audit_pred_case(c["pred"], c["x"], c["y"], c["kw"], c["labels"], fails, counts, settings,
                            [tuple(c["flags"])])
        return {"failures": fails, "counts": counts}
    for j, seq in enumerate(payload["seqs"]):
        audit_seq(seq, FLAGS[j % 4], fails, counts, settings)
    grid = [-1.5, 0.0, 2.0] if payload.get("grid") == "quick" else [-1.5, 0.0, 0.5, 2.0]
    audit_preds(grid, fails, counts, settings)
    audit_pred_boundaries(fails, counts, settings)
    unit_notes = audit_one_label_differs(fails, counts, settings)
    # directed conversions: every pair of DIFFERENT fat / protein target units, every source form
    kc = ["billion kcals", "billion people fed", "percent people fed", "million dry caloric tons", "kcals per person per day"]
    fp = ["thousand tons", "million tons", "billion people fed", "percent people fed", "effective kcals per person per day",
          "grams per person per day"]
    j = 0
    for sfx in ("", EACH, PER):
        for tf, tp in itertools.product(fp, repeat=2):
            if tf == tp and j % 3:
                j += 1
                continue
            j += 1
            tk = kc[j % len(kc)]
            mon = sfx == EACH
            def v(a):
                return {"t": "arr", "v": [a, a * 3]} if mon else {"t": "float", "v": a}
            src_f, src_p = fp[j % 2], fp[(j // 2) % 2]
            a = {"k": v(640.5), "f": v(12.25), "p": v(7.75), "lk": "billion kcals" + sfx, "lf": src_f + sfx, "lp": src_p + sfx}
            seq = {"init": a, "steps": [{"op": "in_units", "to": [tk, tf, tp]},
                                        {"op": "in_units", "to": ["billion kcals", src_p, src_f]}], "seed": 1, "getters": False}
            audit_seq(seq, FLAGS[j % 4], fails, counts, settings)
    # directed index cases: every key kind x every position (negative too), directly and after a slice
    for kt in ("int", "int64", "int32", "0d", "arange", "argmin"):
        for n in (1, 3, 5):
            for k in range(-n, n):
                for pre in ([], [{"op": "slice", "a": 1, "b": n}] if n > 1 else []):
                    kk = k
                    if pre:
                        m = n - 1
                        if not (-m <= k < m):
                            continue
                    a = {"k": {"t": "arr", "v": [float((7 * j) % 5 - 2) + j / 64 for j in range(n)]},
                         "f": {"t": "arr", "v": [float(j) for j in range(n)]}, "p": {"t": "arr", "v": [1.5] * n},
                         "lk": "billion kcals each month", "lf": "thousand tons each month",
                         "lp": "thousand tons each month"}
                    seq = {"init": a, "steps": pre + [{"op": "index", "i": kk, "kt": kt}], "seed": 1, "getters": False}
                    audit_seq(seq, FLAGS[(n + k) % 4], fails, counts, settings)
    # directed constructor cases: every combination of nutrient kinds x label suffix
    for mon in (True, False):
        for fk, pk in itertools.product(("int", "arr", "list") if mon else ("int", "float"), repeat=2):
            for sfx in ("", EACH, PER):
                def side(t):
                    if t == "int":
                        return {"t": "int", "v": 0}
                    if t == "float":
                        return {"t": "float", "v": 1.5}
                    return {"t": t, "v": [1.0, 2.5]}
                a = {"k": side("arr" if mon else "float"), "f": side(fk), "p": side(pk),
                     "lk": "billion kcals" + sfx, "lf": "thousand tons" + sfx, "lp": "thousand tons" + sfx}
                try:
                    with quiet():
                        x = I.build(a)
                except BaseException:
                    counts["ctor_rejected"] += 1
                    continue
                audit_ctor_result(a, x, fails, counts)
    # keep the output small: at most 3 failures per key
    per = {}
    out = []
    for f in fails:
        per[f["key"]] = per.get(f["key"], 0) + 1
        if per[f["key"]] <= 3:
            out.append(f)
    counts["failures_per_key"] = per
    counts["not_refusing_as_written"] = unit_notes
    return {"failures": out, "counts": counts, "distinct": min(counts["accepted"] + counts["pred_pairs"], 100000)}


if __name__ == "__main__":
    main_io(run)
