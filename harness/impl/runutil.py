"""Shared helpers to run the real model for one (country, scenario option) and to capture what each
Optimizer is given and returns.  Runs under /venv/bin/python with cwd=/repo (the code calls git.Repo(".")).

No source hooks: everything is wrapped from this process."""
import contextlib
import copy
import io
import os
import sys

import numpy as np

_TABLE = None
_PRESETS = None


def redirect_results():
    """per-round csv files go to $VERIF_WORK/results instead of /repo/results"""
    work = os.environ.get("VERIF_WORK")
    if not work:
        return
    os.makedirs(os.path.join(work, "results"), exist_ok=True)
    import src.optimizer.interpret_results as ir
    import src.scenarios.run_scenario as rs
    ir.repo_root = work
    rs.repo_root = work


def cleanup_cwd():
    try:
        os.remove("model.json")
    except OSError:
        pass


def table():
    global _TABLE
    if _TABLE is None:
        import pandas as pd
        _TABLE = pd.read_csv(os.path.join("data", "no_food_trade", "computer_readable_combined.csv"))
    return _TABLE


def all_codes():
    return [str(c) for c in table()["iso3"].tolist()]


def presets():
    """name -> option dict for every simulation of every shipped yaml (NMONTHS set as the yaml runner does)"""
    global _PRESETS
    if _PRESETS is None:
        import yaml
        out = {}
        for fn in sorted(os.listdir("scenarios")):
            if fn.endswith(".yaml"):
                cfg = yaml.load(open(os.path.join("scenarios", fn)), Loader=yaml.FullLoader)
                for name, sim in cfg["simulations"].items():
                    sim = dict(sim)
                    sim["NMONTHS"] = cfg["settings"]["NMONTHS"]
                    out[name] = sim
        _PRESETS = out
    return copy.deepcopy(_PRESETS)


# the documented option families and their values (scenarios/README.md + set_depending_on_option)
BASE_OPTION = {
    "title": "verif", "scale": "country", "seasonality": "country", "grasses": "country_nuclear_winter",
    "crop_disruption": "country_nuclear_winter", "scenario": "no_resilient_foods", "fish": "nuclear_winter",
    "waste": "baseline_in_country", "nutrition": "catastrophe", "intake_constraints": "enabled",
    "stored_food": "baseline", "ratio_stocks_untouched": "zero", "shutoff": "long_delayed_shutoff",
    "cull": "do_eat_culled", "fat": "not_required", "protein": "not_required",
    "meat_strategy": "reduce_breeding", "NMONTHS": 120,
}


def option(**kw):
    o = dict(BASE_OPTION)
    o.update(kw)
    return o


@contextlib.contextmanager
def quiet():
    so = sys.stdout
    sys.stdout = io.StringIO()
    try:
        yield
    finally:
        sys.stdout = so


def country_row(iso3, scenario_option):
    from src.scenarios.run_model_no_trade import ScenarioRunnerNoTrade
    t = table()
    country_data = None
    for _, row in t.iterrows():  # exactly as run_model_no_trade does (python floats, not np.float64 cells)
        if row["iso3"] == iso3:
            country_data = row
            break
    if country_data is None:
        raise KeyError(iso3)
    r = ScenarioRunnerNoTrade()
    country_data = r.apply_custom_parameters(country_data, scenario_option)
    r.verify_country_data(country_data)
    return r, country_data


def run_country(iso3, scenario_option, title="verif"):
    """-> (needs_ratio, interpreted_results).  The caller's option dict is deep-copied first."""
    opt = copy.deepcopy(scenario_option)
    r, country_data = country_row(iso3, opt)
    try:
        needs_ratio, _desc, interp = r.run_optimizer_for_country(country_data, opt, False, False, False, title=title)
    finally:
        cleanup_cwd()
    return needs_ratio, interp


# ------------------------------------------------------------------ optimiser capture

SLOTS = {  # variables-dictionary key -> slot id of coq/Model/LP.v
    "stored_food_start": 0, "stored_food_end": 1, "stored_food_to_humans": 2, "stored_food_feed": 3,
    "stored_food_biofuel": 4, "methane_scp_to_humans": 5, "methane_scp_feed": 6, "methane_scp_biofuel": 7,
    "cellulosic_sugar_to_humans": 8, "cellulosic_sugar_feed": 9, "cellulosic_sugar_biofuel": 10,
    "meat_start": 11, "meat_end": 12, "meat_eaten": 13, "crops_food_storage": 14, "crops_food_consumed": 15,
    "crops_food_to_humans": 16, "crops_food_feed": 17, "crops_food_biofuel": 18, "seaweed_wet_on_farm": 19,
    "seaweed_to_humans": 20, "seaweed_feed": 21, "seaweed_biofuel": 22, "used_area": 23, "consumed_kcals": 24,
    "objective_function": 25,
}


def fl(x):
    return [float(v) for v in np.asarray(x, dtype=float).tolist()]


def _sf0(consts):
    x = consts["stored_food"].initial_available.kcals
    try:
        return float(x)
    except TypeError:
        if not consts["ADD_STORED_FOOD"]:   # never read by the optimiser in that case
            return 0.0
        raise


def extract_lp_in(consts, tc, opt_type):
    """every field of consts_for_optimizer / time_consts that the optimiser reads for kcals (-> Model/LP.v lp_in)"""
    n = int(consts["NMONTHS"])
    inp = consts["inputs"]

    def series(x):
        v = fl(x)
        return v

    d = {
        "NM": n, "ty": opt_type,
        "add_sw": bool(consts["ADD_SEAWEED"]), "add_cr": bool(consts["ADD_OUTDOOR_GROWING"]),
        "add_sf": bool(consts["ADD_STORED_FOOD"]), "add_meat": bool(consts["ADD_MEAT"]),
        "add_scp": bool(consts["ADD_METHANE_SCP"]), "add_cs": bool(consts["ADD_CELLULOSIC_SUGAR"]),
        "store_years": bool(consts["STORE_FOOD_BETWEEN_YEARS"]),
        "pop": float(consts["POP"]), "kcals_monthly_pp": float(consts["KCALS_MONTHLY"]),
        "need": float(consts["BILLION_KCALS_NEEDED"]),
        "w_sf": float(consts["STORED_FOOD_WASTE_RETAIL"]), "w_cr": float(consts["CROP_WASTE_RETAIL"]),
        "w_meat": float(consts["MEAT_WASTE_RETAIL"]), "w_scp": float(consts["SCP_RETAIL_WASTE"]),
        "w_cs": float(consts["CELL_SUGAR_RETAIL_WASTE"]), "w_sw": float(consts["SEAWEED_WASTE_RETAIL"]),
        "sf0": _sf0(consts),
        "meat_total": float(consts["meat_summed_consumption"]),
        "sw_kcals": float(consts["SEAWEED_KCALS"]), "sw_init": float(consts["INITIAL_SEAWEED"]),
        "sw_init_area": float(consts["INITIAL_BUILT_SEAWEED_AREA"]),
        "sw_min_density": float(consts["MINIMUM_DENSITY"]), "sw_max_density": float(consts["MAXIMUM_DENSITY"]),
        "sw_harvest_loss": float(consts["HARVEST_LOSS"]),
        "relocated": bool(inp["OG_USE_BETTER_ROTATION"]),
        "harvest_delay": int(consts["INITIAL_HARVEST_DURATION_IN_MONTHS"] + consts["DELAY"]["ROTATION_CHANGE_IN_MONTHS"]),
        "include_fat": bool(inp["INCLUDE_FAT"]), "include_protein": bool(inp["INCLUDE_PROTEIN"]),
    }
    for food, tag in (("SEAWEED", "sw"), ("METHANE_SCP", "scp"), ("CELLULOSIC_SUGAR", "cs")):
        for use, u in (("HUMANS", "h"), ("FEED", "f"), ("BIOFUEL", "b")):
            d[f"cap_{tag}_{u}"] = float(inp[f"MAX_{food}_AS_PERCENT_KCALS_{use}"])
    d["crops_prod"] = series(tc["outdoor_crops"].production.kcals)
    d["milk"] = series(tc["milk_kcals"])
    d["greenhouse"] = [float(tc["greenhouse_crops"][m].kcals) for m in range(n)]
    d["fish"] = series(tc["fish"].to_humans.kcals)
    d["scp_prod"] = series(tc["methane_scp"].kcals)
    d["cs_prod"] = series(tc["cellulosic_sugar"].kcals)
    d["built_area"] = series(tc["built_area"])
    d["growth"] = series(tc["growth_rates_monthly"])
    d["feed_charge"] = series(tc["feed"].kcals)
    d["biofuel_charge"] = series(tc["biofuel"].kcals)
    d["meat_monthly"] = [float(tc["each_month_meat_slaughtered"][m].kcals) for m in range(n)]
    d["meat_running"] = series(tc["max_consumed_culled_kcals_each_month"])
    z = [0.0] * n
    if opt_type == "to_animals":
        d["max_feed"] = series(tc["max_feed_that_could_be_used"].kcals)
        d["max_biofuel"] = series(tc["max_biofuel_that_could_be_used"].kcals)
        mh = tc["min_human_food_consumption"]
        for key, tag in (("outdoor_crops", "cr"), ("stored_food", "sf"), ("meat", "meat"), ("methane_scp", "scp"),
                         ("cellulosic_sugar", "cs"), ("seaweed", "sw")):
            conv = mh[key].in_units_bil_kcals_thou_tons_thou_tons_per_month()
            d["pin_" + tag] = [float(conv[m].kcals) for m in range(n)]
    else:
        d["max_feed"] = z
        d["max_biofuel"] = z
        for tag in ("cr", "sf", "meat", "scp", "cs", "sw"):
            d["pin_" + tag] = z
    return d


def var_index(variables):
    """LpVariable name -> (slot id, month) through its position in the optimiser's variables dictionary"""
    import pulp
    idx = {}
    for key, val in variables.items():
        if key not in SLOTS:
            continue
        if isinstance(val, pulp.LpVariable):
            idx[val.name] = (SLOTS[key], 0)
        elif isinstance(val, list):
            for m, v in enumerate(val):
                if isinstance(v, pulp.LpVariable):
                    idx[v.name] = (SLOTS[key], m)
    return idx


def extract_rows(model, variables):
    """rows of the PuLP model in insertion order: [sense(-1 Le,0 Eq,1 Ge), rhs, [[slot, month, coef]...]] ;
    a variable outside the slot table is reported with slot 99"""
    idx = var_index(variables)
    rows = []
    for name, c in model.constraints.items():
        terms = []
        for v, coef in c.items():
            s, m = idx.get(v.name, (99, 0))
            terms.append([s, m, float(coef)])
        terms.sort()
        rows.append([int(c.sense), float(-c.constant), terms])
    return rows


def var_values(variables):
    """final values: {slot id: [value per month]} (None for absent variables -> 0)"""
    import pulp
    out = {}
    for key, sid in SLOTS.items():
        val = variables.get(key)
        if isinstance(val, pulp.LpVariable):
            out[sid] = [float(val.varValue) if val.varValue is not None else 0.0]
        elif isinstance(val, list):
            out[sid] = [float(v.varValue) if isinstance(v, pulp.LpVariable) and v.varValue is not None else 0.0
                        for v in val]
    return out


class OptimizerCapture:
    """wraps Optimizer methods; records one dict per solve in self.solves"""

    def __init__(self, want_rows=True):
        self.solves = []
        self.want_rows = want_rows
        self._orig = {}
        self._by_model = {}

    def __enter__(self):
        from src.optimizer.optimizer import Optimizer
        cap = self
        self._cls = Optimizer
        o_add = Optimizer.add_variables_and_constraints_to_model
        o_h = Optimizer.optimize_to_humans
        o_a = Optimizer.optimize_feed_to_animals
        self._orig = {"add_variables_and_constraints_to_model": o_add, "optimize_to_humans": o_h,
                      "optimize_feed_to_animals": o_a}

        def add(self_, model, variables, consts, optimization_type):
            res = o_add(self_, model, variables, consts, optimization_type)
            rec = {"ty": optimization_type}
            try:
                rec["lp_in"] = extract_lp_in(self_.consts_for_optimizer, self_.time_consts, optimization_type)
                if cap.want_rows:
                    rec["rows"] = extract_rows(res[0], res[1])
                rec["nvars"] = len(res[0].variables())
            except Exception as e:  # never disturb the run
                rec["capture_error"] = repr(e)
            self_._verif_rec = rec
            try:
                cap._by_model[id(res[0])] = (rec, var_index(res[1]))
            except Exception:  # noqa
                pass
            return res

        import pulp
        o_solve = pulp.LpProblem.solve
        self._pulp = pulp
        self._o_solve = o_solve

        def solve(model, *a, **k):
            # the objective PuLP is actually asked to optimise, per solve (the first one defines the reported number)
            hit = cap._by_model.get(id(model))
            if hit is not None:
                rec, idx = hit
                try:
                    obj = model.objective
                    terms = sorted([list(idx.get(v.name, (99, 0))) + [float(c)] for v, c in obj.items()]) if obj is not None else []
                    rec.setdefault("objectives", []).append({"sense": int(model.sense), "terms": terms,
                                                             "constant": float(getattr(obj, "constant", 0.0) or 0.0)})
                except Exception as e:  # never disturb the run
                    rec.setdefault("objectives", []).append({"capture_error": repr(e)})
            return o_solve(model, *a, **k)

        pulp.LpProblem.solve = solve

        def wrap_opt(orig):
            def f(self_, *a, **k):
                res = orig(self_, *a, **k)
                rec = getattr(self_, "_verif_rec", {"ty": "?"})
                rec["values"] = var_values(res[1])
                rec["percent_fed_from_model"] = float(res[3]) if res[3] is not None else None
                rec["final_rows"] = len(res[0].constraints)
                rec["country"] = str(self_.consts_for_optimizer["inputs"].get("COUNTRY_CODE", "?"))
                cap.solves.append(rec)
                return res
            return f

        Optimizer.add_variables_and_constraints_to_model = add
        Optimizer.optimize_to_humans = wrap_opt(o_h)
        Optimizer.optimize_feed_to_animals = wrap_opt(o_a)
        return self

    def __exit__(self, *a):
        for k, v in self._orig.items():
            setattr(self._cls, k, v)
        self._pulp.LpProblem.solve = self._o_solve
        self._by_model.clear()
        return False
