"""C17 implementation-side runner.
payload keys (all optional):
  "wavg":   [{"ps": [float], "ws": [float]}]           -> ImportUtilities.weighted_average_percentages
  "avg":    [[float]]                                  -> ImportUtilities.average_percentages
  "verify": [{"row": int, "ovs": [[col, float|"nan"]]}] -> ScenarioRunnerNoTrade.verify_country_data on a modified row
  "table":  true                                       -> the table as pandas reads it + verify_country_data on all rows
"""
import math

import numpy as np
import pandas as pd

from implutil import classify, main_io, quiet


def fl(x):
    x = float(x)
    if math.isnan(x):
        return "nan"
    if math.isinf(x):
        return "inf" if x > 0 else "-inf"
    return x


def run(payload):
    out = {}
    from src.utilities.import_utilities import ImportUtilities
    if "wavg" in payload:
        res = []
        for c in payload["wavg"]:
            try:
                ws = np.array(c["ws"], dtype=float) if c.get("np") else list(c["ws"])
                res.append({"v": fl(ImportUtilities.weighted_average_percentages(list(c["ps"]), ws))})
            except BaseException as e:
                res.append({"err": classify(e)})
        out["wavg"] = res
    if "avg" in payload:
        res = []
        for ps in payload["avg"]:
            try:
                res.append({"v": fl(ImportUtilities.average_percentages(list(ps)))})
            except BaseException as e:
                res.append({"err": classify(e)})
        out["avg"] = res
    if "verify" in payload or payload.get("table"):
        import src.scenarios.run_model_no_trade as M
        path = M.Path(M.repo_root) / "data" / "no_food_trade" / "computer_readable_combined.csv"
        table = pd.read_csv(path)
        runner = M.ScenarioRunnerNoTrade()
        if "verify" in payload:
            res = []
            rows = [r for _, r in table.iterrows()]
            for c in payload["verify"]:
                cd = rows[c["row"]].copy()
                for col, v in c["ovs"]:
                    cd[col] = float("nan") if v == "nan" else float(v)
                try:
                    with quiet():
                        runner.verify_country_data(cd)
                    res.append({"ok": True})
                except BaseException as e:
                    res.append({"ok": False, "err": classify(e), "msg": str(e)[:120]})
            out["verify"] = res
        if payload.get("table"):
            cols = list(table.columns)
            t = {"columns": cols, "rows": [], "verify": [], "null_cells": []}
            for _, r in table.iterrows():
                vals = []
                for c in cols[2:]:
                    try:
                        vals.append(fl(r[c]))
                    except (TypeError, ValueError):
                        vals.append("text:" + str(r[c])[:30])
                t["rows"].append([str(r["iso3"]), str(r["country"]), vals])
                try:
                    with quiet():
                        runner.verify_country_data(r.copy())
                    t["verify"].append(None)
                except BaseException as e:
                    t["verify"].append(classify(e) + ": " + str(e)[:150])
            nulls = table.isnull()
            for i, j in zip(*np.where(nulls.values)):
                t["null_cells"].append([str(table.iloc[i, 0]), cols[j]])
            codes = list(ImportUtilities.country_codes)
            t["expected_codes"] = [c.replace("SWZ", "SWT") for c in codes]
            out["table"] = t
    return out


if __name__ == "__main__":
    main_io(run)
