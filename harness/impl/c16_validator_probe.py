"""C16 (c) probe: calls the REAL Validator methods on rounds captured from one real three-round run, to sanity-check the
reading of the tolerances in coq/Model/Validator.v.  Not wired into any check.

  cd /repo && VERIF_WORK=/verif/work/C16val PYTHONPATH=/repo:/verif/harness/impl MPLBACKEND=Agg \
      /venv/bin/python /verif/harness/impl/c16_validator_probe.py [ISO3] [NMONTHS] [--constraints]

Prints one JSON object: for each probe the expected outcome under the model's reading and what the code did."""
import copy
import json
import sys
import time

import numpy as np

import runutil


def outcome(f):
    try:
        f()
        return "pass"
    except AssertionError:
        return "AssertionError"
    except Exception as e:  # noqa
        return type(e).__name__


def main():
    args = [a for a in sys.argv[1:] if not a.startswith("--")]
    iso3 = args[0] if args else "ARG"
    nmonths = int(args[1]) if len(args) > 1 else 120
    want_constraints = "--constraints" in sys.argv
    runutil.redirect_results()
    from src.optimizer.optimizer import Optimizer
    from src.optimizer.validate_results import Validator
    from src.scenarios.run_scenario import ScenarioRunner

    solves, interps, feed_calls, bio_calls, r3_calls, md_calls = [], [], [], [], [], []
    o_h, o_a = Optimizer.optimize_to_humans, Optimizer.optimize_feed_to_animals
    o_int = ScenarioRunner.interpret_optimizer_results
    o_feed, o_bio = Validator.assert_feed_used_below_feed_demand, Validator.assert_biofuels_used_below_biofuels_demand
    o_r3, o_md = (Validator.assert_round3_percent_fed_not_lower_than_round1,
                  Validator.assert_meat_dairy_doesnt_decrease_round_2)

    def wrap_opt(orig, ty):
        def f(self_, *a, **k):
            res = orig(self_, *a, **k)
            solves.append({"ty": ty, "model": res[0], "variables": res[1], "maximize_constraints": res[2],
                           "percent_fed_from_model": res[3]})
            return res
        return f

    def w_int(self_, consts, model, variables, time_consts, interpreter, pf, optimization_type, title="Untitled"):
        r = o_int(self_, consts, model, variables, time_consts, interpreter, pf, optimization_type, title=title)
        interps.append({"ty": optimization_type, "interpreted": r, "pf": pf, "code": consts["inputs"]["COUNTRY_CODE"],
                        "time_consts": time_consts})
        return r

    def w_feed(feed_demand, interpreted_results, round, epsilon=1e-4):
        feed_calls.append((copy.deepcopy(feed_demand), interpreted_results, round))
        return o_feed(feed_demand, interpreted_results, round, epsilon)

    def w_bio(biofuels_demand, interpreted_results, round, epsilon=1e-4):
        bio_calls.append((copy.deepcopy(biofuels_demand), interpreted_results, round))
        return o_bio(biofuels_demand, interpreted_results, round, epsilon)

    def w_r3(minimum, r1, r3, epsilon=1):
        r3_calls.append((float(minimum), float(r1), float(r3)))
        return o_r3(minimum, r1, r3, epsilon)

    def w_md(m1, m2, k1, k2, epsilon=1e-2):
        md_calls.append((np.array(m1, dtype=float), np.array(m2, dtype=float), np.array(k1, dtype=float),
                         np.array(k2, dtype=float)))
        return o_md(m1, m2, k1, k2, epsilon)

    Optimizer.optimize_to_humans = wrap_opt(o_h, "to_humans")
    Optimizer.optimize_feed_to_animals = wrap_opt(o_a, "to_animals")
    ScenarioRunner.interpret_optimizer_results = w_int
    Validator.assert_feed_used_below_feed_demand = staticmethod(w_feed)
    Validator.assert_biofuels_used_below_biofuels_demand = staticmethod(w_bio)
    Validator.assert_round3_percent_fed_not_lower_than_round1 = staticmethod(w_r3)
    Validator.assert_meat_dairy_doesnt_decrease_round_2 = staticmethod(w_md)
    t0 = time.time()
    try:
        with runutil.quiet():
            runutil.run_country(iso3, runutil.option(NMONTHS=nmonths), title="c16val")
    finally:
        Optimizer.optimize_to_humans, Optimizer.optimize_feed_to_animals = o_h, o_a
        ScenarioRunner.interpret_optimizer_results = o_int
        Validator.assert_feed_used_below_feed_demand = staticmethod(o_feed)
        Validator.assert_biofuels_used_below_biofuels_demand = staticmethod(o_bio)
        Validator.assert_round3_percent_fed_not_lower_than_round1 = staticmethod(o_r3)
        Validator.assert_meat_dairy_doesnt_decrease_round_2 = staticmethod(o_md)
    out = {"iso3": iso3, "nmonths": nmonths, "run_seconds": round(time.time() - t0, 1), "rounds": len(interps),
           "probes": []}
    v = Validator()

    def probe(name, expected, f):
        with runutil.quiet():
            got = outcome(f)
        out["probes"].append({"probe": name, "expected": expected, "got": got, "agree": expected == got})

    # ---- ensure_optimizer_returns_same_as_sum_nutrients: round(model - headline, 0) == 0 ; five countries: < 5
    humans = [r for r in interps if r["ty"] == "to_humans"]
    r = humans[-1]
    h = float(r["interpreted"].percent_people_fed)
    out["headline"] = h
    out["percent_fed_from_model"] = float(r["pf"])
    out["model_minus_headline"] = float(r["pf"]) - h
    # offsets are applied around the headline itself, with dyadic values so that float subtraction is exact enough
    for d, exp in ((0.0, "pass"), (0.5, "pass"), (-0.5, "pass"), (0.5078125, "AssertionError"),
                   (-0.5078125, "AssertionError"), (1.4921875, "AssertionError")):
        hh = 64.0  # a dyadic stand-in headline: the check only reads the two numbers

        class I:  # noqa
            percent_people_fed = hh
        probe(f"sum_nutrients:USA:d={d}", exp,
              lambda d=d: v.ensure_optimizer_returns_same_as_sum_nutrients(hh + d, I, False, False, "USA"))
    for d, exp in ((4.5, "pass"), (4.4921875, "pass"), (4.5078125, "AssertionError"), (-100.0, "pass"),
                   (5.5, "AssertionError")):
        class I:  # noqa
            percent_people_fed = 64.0
        probe(f"sum_nutrients:EST:d={d}", exp,
              lambda d=d: v.ensure_optimizer_returns_same_as_sum_nutrients(64.0 + d, I, False, False, "EST"))
    probe("sum_nutrients:real_round", "pass",
          lambda: v.ensure_optimizer_returns_same_as_sum_nutrients(r["pf"], r["interpreted"], False, False, r["code"]))

    # ---- the three per-round checks on every captured round
    for k, rr in enumerate(interps):
        probe(f"zero_kcals:round{k}", "pass", lambda rr=rr: v.ensure_zero_kcals_have_zero_fat_and_protein(rr["interpreted"]))
        probe(f"never_nan:round{k}", "pass", lambda rr=rr: v.ensure_never_nan(rr["interpreted"]))
        probe(f"ge_zero:round{k}", "pass", lambda rr=rr: v.ensure_all_greater_than_or_equal_to_zero(rr["interpreted"]))
    # thresholds of ensure_all_greater_than_or_equal_to_zero on a copy
    ir = copy.deepcopy(interps[-1]["interpreted"])
    base = {a: np.array(getattr(ir, a).kcals, dtype=float).copy() for a in
            ("cell_sugar", "scp", "greenhouse", "fish", "meat", "milk", "new_stored_outdoor_crops",
             "immediate_outdoor_crops")}

    def with_value(attr, val):
        def f():
            for a, b in base.items():
                getattr(ir, a).kcals = b.copy()
            x = base[attr].copy()
            x[0] = val
            getattr(ir, attr).kcals = x
            v.ensure_all_greater_than_or_equal_to_zero(ir)
        return f
    for attr, val, exp in (("cell_sugar", -1e-6, "pass"), ("cell_sugar", -1.5e-6, "AssertionError"),
                           ("scp", -1e-6, "pass"), ("scp", -1.5e-6, "AssertionError"),
                           ("greenhouse", -4e-7, "pass"), ("greenhouse", -6e-7, "AssertionError"),
                           ("fish", -1e-12, "AssertionError"), ("meat", -4e-7, "pass"),
                           ("meat", -6e-7, "AssertionError"), ("milk", -1e-12, "AssertionError"),
                           ("new_stored_outdoor_crops", -1e-12, "AssertionError"),
                           ("immediate_outdoor_crops", -5.0, "pass")):
        probe(f"ge_zero:{attr}={val}", exp, with_value(attr, val))

    # ---- assert_feed_used_below_feed_demand: (demand - used * (1 - 1e-4)).kcals > -1e-6
    for (dem, ires, rnd) in feed_calls:
        probe(f"feed_below_demand:round{rnd}", "pass", lambda dem=dem, ires=ires, rnd=rnd: o_feed(dem, ires, rnd))
    for (dem, ires, rnd) in bio_calls:
        probe(f"biofuels_below_demand:round{rnd}", "pass", lambda dem=dem, ires=ires, rnd=rnd: o_bio(dem, ires, rnd))
    dem, ires, rnd = feed_calls[-1]
    used = Validator.sum_feed_sources(ires).in_units_bil_kcals_thou_tons_thou_tons_per_month()
    out["feed_used_units"] = list(used.units)
    out["feed_demand_units"] = list(dem.units)
    out["feed_used_max"] = float(np.max(used.kcals))
    out["feed_demand_minus_used_min"] = float(np.min(np.array(dem.kcals) - np.array(used.kcals)))
    for shift, exp in ((0.0, "pass"), (-0.5e-6, "pass"), (-2e-6, "AssertionError")):
        d2 = copy.deepcopy(dem)
        d2.kcals = np.array(used.kcals) * (1 - 1e-4) + shift   # demand placed exactly `shift` above the reduced use
        probe(f"feed_below_demand:demand=reduced{shift:+g}", exp, lambda d2=d2: o_feed(d2, ires, rnd))

    # ---- cross-round checks
    out["round3_vs_round1_calls"] = r3_calls
    out["meat_dairy_calls"] = [{"meat1": float(a.sum()), "meat2": float(b.sum()), "milk1": float(c.sum()),
                                "milk2": float(d.sum())} for a, b, c, d in md_calls]
    one = np.array([10.0, 10.0])
    probe("meat_dairy:equal", "pass", lambda: o_md(one, one, np.array([1.0, 1.0]), np.array([0.0, 0.0])))
    probe("meat_dairy:-0.5%", "pass", lambda: o_md(one, one * 0.995, np.array([0.0, 0.0]), np.array([0.0, 0.0])))
    probe("meat_dairy:-2%", "AssertionError",
          lambda: o_md(one, one * 0.98, np.array([0.0, 0.0]), np.array([0.0, 0.0])))
    probe("meat_dairy:milk2_not_read", "pass",
          lambda: o_md(one, one, np.array([1.0, 1.0]), np.array([-1e9, -1e9])))
    probe("round3_vs_round1:prints_only", "pass", lambda: o_r3(100, 100.0, 50.0))

    # ---- check_constraints_satisfied on the last captured solve (slow: string substitution per variable per row)
    if want_constraints:
        s = solves[-1]
        t1 = time.time()
        probe("check_constraints:last_solve", "pass",
              lambda: v.check_constraints_satisfied(s["model"], s["maximize_constraints"], s["model"].variables()))
        out["check_constraints_seconds"] = round(time.time() - t1, 1)
        out["check_constraints_rows"] = len(s["model"].constraints)
        # tolerance is the absolute number 1: move one variable of an equality row by 0.9 / 1.1
        names = [n for n, c in s["model"].constraints.items() if c.sense == 0 and n not in s["maximize_constraints"]]
        c0 = s["model"].constraints[names[0]]
        var0, coef0 = next(iter(c0.items()))
        old = var0.varValue
        for delta, exp in ((0.9, "pass"), (1.1, "AssertionError")):
            var0.varValue = old + delta / abs(coef0)

            def only_row():
                # the same arithmetic on that one row (the full pass costs minutes)
                class M:  # noqa
                    constraints = {names[0]: c0}

                    @staticmethod
                    def variables():
                        return s["model"].variables()
                v.check_constraints_satisfied(M, s["maximize_constraints"], s["model"].variables())
            probe(f"check_constraints:row_off_by_{delta}", exp, only_row)
        var0.varValue = old
    out["all_agree"] = all(p["agree"] for p in out["probes"])
    runutil.cleanup_cwd()
    print(json.dumps(out, indent=1))


if __name__ == "__main__":
    main()
