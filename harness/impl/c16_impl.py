"""C16 implementation side: run grid cells (country x preset, or world x preset) to completion and report
completion / exception / percent fed / validation banners printed by the model.
payload: {"cells": [{"iso3": "ARG"|"WOR", "preset": name, "option": {...}|{"yaml": name}}], "procs": n}"""
import io
import math
import multiprocessing as mp
import sys
import traceback

import runutil as ru
from implutil import classify, main_io


def one(cell):
    out = {"iso3": cell["iso3"], "preset": cell["preset"]}
    opt = cell["option"]
    if "yaml" in opt:
        opt = ru.presets()[opt["yaml"]]
    buf = io.StringIO()
    so = sys.stdout
    sys.stdout = buf
    try:
        if cell["iso3"] == "WOR":
            from src.scenarios.run_scenario import ScenarioRunner
            import copy
            sr = ScenarioRunner()
            c, t, loader = sr.set_depending_on_option(copy.deepcopy(opt))
            interp = sr.run_and_analyze_scenario(c, t, loader, False, False, "_world", None, False, "world", "WOR", title="verif")
            pf = float(interp.percent_people_fed)
        else:
            ratio, interp = ru.run_country(cell["iso3"], opt)
            pf = float(interp.percent_people_fed)
        out["percent_fed"] = pf
        out["ok"] = bool(math.isfinite(pf) and pf >= 0)
    except BaseException as e:  # noqa
        out["ok"] = False
        out["error"] = classify(e)
        out["detail"] = str(e)[:300]
        out["trace"] = traceback.format_exc()[-800:]
    finally:
        sys.stdout = so
        ru.cleanup_cwd()
    txt = buf.getvalue()
    out["banner"] = ("ASSERT FAILED" in txt) or ("ERROR!" in txt) or ("assert percent_fed_round1" in txt)
    if out["banner"]:
        i = max(txt.find("ASSERT FAILED"), txt.find("assert percent_fed_round1"), txt.find("ERROR!"))
        out["banner_text"] = txt[max(0, i - 200): i + 600]
    return out


def run(payload):
    ru.redirect_results()
    import src.scenarios.run_model_no_trade  # noqa
    ru.table()
    ru.presets()
    with mp.get_context("fork").Pool(int(payload.get("procs", 14))) as pool:
        cells = pool.map(one, payload["cells"], chunksize=1)
    # the manuscript script's own dictionaries (with end_simulation_stocks_ratio) as shipped
    shipped = None
    if payload.get("check_shipped_manuscript"):
        from src.scenarios.run_model_no_trade import ScenarioRunnerNoTrade
        opt = dict(payload["check_shipped_manuscript"])
        try:
            with ru.quiet():
                r, cd = ru.country_row("ARG", opt)
                r.set_depending_on_option(opt, country_data=cd)
            shipped = "accepted"
        except BaseException as e:  # noqa
            shipped = classify(e) + ": " + str(e)[:120]
    return {"cells": cells, "shipped_manuscript": shipped}


if __name__ == "__main__":
    main_io(run)
