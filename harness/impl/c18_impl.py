"""C18: call the hand-off helpers of src/optimizer/parameters.py::Parameters directly on given arrays, and capture
the real hand-offs of three-round runs (wrapping the helpers and compute_parameters_second/third_round from this
process; no source hooks).  JSON in -> JSON out; floats travel as float.hex() strings to stay exact."""
import copy
import sys
import traceback

import numpy as np
from implutil import classify, main_io, quiet

ATTRS = ["fish", "meat", "milk", "greenhouse", "immediate_outdoor_crops", "new_stored_outdoor_crops", "stored_food",
         "scp", "cell_sugar", "seaweed"]
OUT_KEYS = ["fish", "meat", "dairy", "greenhouse", "outdoor_crops", "stored_food", "methane_scp", "cellulosic_sugar",
            "seaweed"]
PIN_TAGS = {"outdoor_crops": "cr", "stored_food": "sf", "meat": "meat", "methane_scp": "scp", "cellulosic_sugar": "cs",
            "seaweed": "sw"}   # dictionary key -> tag of runutil.extract_lp_in (pins of the to_animals solve)
HELPERS = ("fill_negatives_with_positives", "get_second_round_kcals_with_redistributed_meat",
           "calculate_human_consumption_for_min_needs", "increase_biofuels_then_feed", "consume",
           "assert_consumption_within_limits")


def unhex(x):
    if isinstance(x, list):
        return [unhex(v) for v in x]
    return float.fromhex(x) if isinstance(x, str) else float(x)


def hx(x):
    if isinstance(x, np.ndarray):
        x = x.tolist()
    if isinstance(x, (list, tuple)):
        return [hx(v) for v in x]
    return float(x).hex()


class LineCov:
    """line coverage of the helper functions in parameters.py (sys.settrace, only while enabled)"""

    def __init__(self):
        self.hits = {}
        self.fn = None

    def tracer(self, frame, event, arg):
        co = frame.f_code
        if co.co_filename != self.fn or co.co_name not in HELPERS:
            return None
        return self.local

    def local(self, frame, event, arg):
        if event == "line":
            k = (frame.f_code.co_name, frame.f_lineno)
            self.hits[k] = self.hits.get(k, 0) + 1
        return self.local

    def start(self):
        import src.optimizer.parameters as pm
        self.fn = pm.__file__
        sys.settrace(self.tracer)

    def stop(self):
        sys.settrace(None)

    def report(self):
        """per helper: executable lines (from the code objects) vs executed"""
        import src.optimizer.parameters as pm
        out = {}
        P = pm.Parameters
        for name in HELPERS:
            f = getattr(P, name, None)
            if f is None:
                continue
            code = f.__code__
            lines = set()

            def walk(c):
                for _, _, ln in c.co_lines():
                    if ln is not None:
                        lines.add(ln)
                for k in c.co_consts:
                    if hasattr(k, "co_lines") and k.co_name in HELPERS:
                        walk(k)
            walk(code)
            lines.discard(code.co_firstlineno)
            hit = {ln for (fn, ln) in self.hits if ln in lines}
            out[name] = {"executable_lines": len(lines), "executed_lines": len(hit),
                         "not_executed": sorted(ln - code.co_firstlineno for ln in lines - hit)}
        return out


class IR:
    pass


def mk_ir(case):
    from src.food_system.food import Food
    ir = IR()
    for a in ATTRS:
        v = np.array(unhex(case["series"][a]), dtype=float)
        z = np.zeros(len(v))
        setattr(ir, a + "_kcals_equivalent",
                Food(v, z, z.copy(), "kcals per person per day each month", "effective kcals per person per day each month",
                     "effective kcals per person per day each month"))
    ir.percent_people_fed = unhex(case["pf"])
    # fat / protein tracked flags of the round-1 results (every shipped simulation: both False)
    ir.include_protein = bool(case.get("inc_protein", False))
    ir.include_fat = bool(case.get("inc_fat", False))
    return ir


def run_case(p, case):
    from src.food_system.food import Food
    k = case["kind"]
    if k == "fill":
        arr = unhex(case["arr"])
        src_ = list(arr)
        out = p.fill_negatives_with_positives(arr if case.get("as_list") else np.array(arr, dtype=float))
        return {"out": hx(out), "input_unchanged": list(arr) == src_}
    if k == "redist":
        r1 = np.array(unhex(case["r1"]), dtype=float)
        r2 = np.array(unhex(case["r2"]), dtype=float)
        c1, c2 = r1.copy(), r2.copy()
        out = p.get_second_round_kcals_with_redistributed_meat(r1, r2, None, None)
        return {"out": None if out is None else hx(out),
                "input_unchanged": bool(np.array_equal(c1, r1) and np.array_equal(c2, r2))}
    if k == "bump":
        a = [np.array(unhex(case[n]), dtype=float) for n in ("b", "f", "inc", "maxb", "maxf", "avail")]
        cp = [x.copy() for x in a]
        with np.errstate(all="ignore"):
            nb, nf = p.increase_biofuels_then_feed(*a)
        return {"b": hx(nb), "f": hx(nf), "input_unchanged": all(np.array_equal(x, y) for x, y in zip(a, cp))}
    if k == "minneeds":
        Food.conversions.set_nutrition_requirements(kcals_daily=unhex(case["Kconv"]), fat_daily=47.0, protein_daily=51.0,
                                                    include_fat=False, include_protein=False, population=1e7)
        ir = mk_ir(case)
        T = unhex(case["T"])
        if case.get("T_int"):
            T = int(T)   # the scenario setters write plain ints (100, 10); 0 is a legal boundary value
        ci = {"MINIMUM_PERCENT_FED_BEFORE_NONHUMAN_CONSUMPTION_ALLOWED": T,
              "NUTRITION": {"KCALS_DAILY": unhex(case["K"])}, "NMONTHS": int(case["N"])}
        with np.errstate(all="ignore"):
            out = p.calculate_human_consumption_for_min_needs(ci, ir, None)
        keys = list(out.keys())
        return {"keys": keys, "out": {kk: hx(out[kk].kcals) for kk in keys},
                "units": sorted({out[kk].kcals_units for kk in keys}),
                "fat_zero": all(float(np.abs(np.asarray(out[kk].fat)).sum()) == 0.0 for kk in keys)}
    raise ValueError(k)


# ------------------------------------------------------------------ real runs

def capture_real(runs):
    import runutil
    import src.optimizer.parameters as pm
    from src.food_system.food import Food
    runutil.redirect_results()
    P = pm.Parameters
    orig = {n: getattr(P, n) for n in ("get_second_round_kcals_with_redistributed_meat",
                                       "calculate_human_consumption_for_min_needs", "increase_biofuels_then_feed",
                                       "compute_parameters_second_round", "compute_parameters_third_round")}
    cur = {}

    def w_redist(self, r1, r2, m1, m2):
        rec = {"r1": hx(np.array(r1, dtype=float)), "r2": hx(np.array(r2, dtype=float))}
        out = orig["get_second_round_kcals_with_redistributed_meat"](self, r1, r2, m1, m2)
        rec["out"] = None if out is None else hx(out)
        cur.setdefault("redist", []).append(rec)
        return out

    def w_min(self, ci, ir, extra):
        rec = {"K": hx(ci["NUTRITION"]["KCALS_DAILY"]),
               "T": hx(ci["MINIMUM_PERCENT_FED_BEFORE_NONHUMAN_CONSUMPTION_ALLOWED"]), "N": int(ci["NMONTHS"]),
               "pf": hx(ir.percent_people_fed), "Kconv": hx(Food.conversions.kcals_daily),
               "include": [bool(ir.include_fat), bool(ir.include_protein)],
               "series": {a: hx(np.array(getattr(ir, a + "_kcals_equivalent").kcals, dtype=float)) for a in ATTRS},
               "in_units": sorted({getattr(ir, a + "_kcals_equivalent").kcals_units for a in ATTRS})}
        out = orig["calculate_human_consumption_for_min_needs"](self, ci, ir, extra)
        rec["keys"] = list(out.keys())
        rec["out"] = {k: hx(out[k].kcals) for k in out}
        rec["units"] = sorted({out[k].kcals_units for k in out})
        # the same dictionary / round-1 series in billion kcals per month, converted exactly as the optimiser side does
        # (runutil.extract_lp_in), taken NOW, i.e. as the helper returned them
        rec["out_bil"] = {k: hx(np.array(out[k].in_units_bil_kcals_thou_tons_thou_tons_per_month().kcals, dtype=float))
                          for k in out}
        rec["series_bil"] = {a: hx(np.array(getattr(ir, a + "_kcals_equivalent")
                                            .in_units_bil_kcals_thou_tons_thou_tons_per_month().kcals, dtype=float))
                             for a in ATTRS}
        rec["bil_per_daily"] = hx(float(Food.conversions.population) * float(Food.conversions.days_in_month) / 1e9)
        cur["_min_obj"] = out
        cur.setdefault("minneeds", []).append(rec)
        return out

    def w_bump(self, b, f, inc, maxb, maxf, avail):
        rec = {n: hx(np.array(v, dtype=float)) for n, v in
               (("b", b), ("f", f), ("inc", inc), ("maxb", maxb), ("maxf", maxf), ("avail", avail))}
        nb, nf = orig["increase_biofuels_then_feed"](self, b, f, inc, maxb, maxf, avail)
        rec["nb"], rec["nf"] = hx(nb), hx(nf)
        cur.setdefault("bump", []).append(rec)
        return nb, nf

    def w_second(self, ci, co1, tc1, ir1):
        if cur.get("_threshold") is not None:
            # a run configured with another legal threshold (no shipped setter writes 0): set before round 2 reads it
            ci["MINIMUM_PERCENT_FED_BEFORE_NONHUMAN_CONSUMPTION_ALLOWED"] = cur["_threshold"]
        res = orig["compute_parameters_second_round"](self, ci, co1, tc1, ir1)
        h = {"skipped": res[1] is None}
        if res[1] is not None:
            tc2 = res[1]
            h["meat1"] = hx(np.array(tc1["each_month_meat_slaughtered"].kcals, dtype=float))
            h["meat2"] = hx(np.array(tc2["each_month_meat_slaughtered"].kcals, dtype=float))
            h["meat_units"] = [tc1["each_month_meat_slaughtered"].kcals_units, tc2["each_month_meat_slaughtered"].kcals_units]
            h["running2"] = hx(np.array(tc2["max_consumed_culled_kcals_each_month"], dtype=float))
            h["min_is_helper_output"] = res[4] is cur.get("_min_obj")
            h["min"] = {k: hx(res[4][k].kcals) for k in res[4]}
        cur["second"] = h
        return res

    def w_third(self, ci, co1, co2, tc1, tc2, ir1, ir2, fb, feed_demand, biofuels_demand, fmo1):
        try:   # the (clipped) round-2 biofuel total as it enters the third round, billion kcals per month
            cur["_b2"] = hx(np.array(ir2.biofuels_sum_kcals_equivalent
                                     .in_units_bil_kcals_thou_tons_thou_tons_per_month().kcals, dtype=float))
        except Exception:  # noqa
            cur["_b2"] = None
        res = orig["compute_parameters_third_round"](self, ci, co1, co2, tc1, tc2, ir1, ir2, fb, feed_demand,
                                                     biofuels_demand, fmo1)
        tc3 = res[1]
        h = {"feed": hx(np.array(tc3["feed"].kcals, dtype=float)),
             "biofuel": hx(np.array(tc3["biofuel"].kcals, dtype=float)),
             "nonhuman": hx(np.array(tc3["nonhuman_consumption"].kcals, dtype=float)),
             "units": [tc3["feed"].kcals_units, tc3["biofuel"].kcals_units],
             "feed_demand": hx(np.array(feed_demand.in_units_bil_kcals_thou_tons_thou_tons_per_month().kcals, dtype=float)),
             "biofuel_demand": hx(np.array(biofuels_demand.in_units_bil_kcals_thou_tons_thou_tons_per_month().kcals,
                                           dtype=float)),
             "meat1": hx(np.array(tc1["each_month_meat_slaughtered"].kcals, dtype=float)),
             "meat3": hx(np.array(tc3["each_month_meat_slaughtered"].kcals, dtype=float)),
             "population": hx(float(Food.conversions.population)), "days": hx(float(Food.conversions.days_in_month)),
             "biofuel_round2": cur.pop("_b2", None),
             "country": str(ci.get("COUNTRY_CODE", "?")), "had_round1": ir1 is not None}
        cur["third"] = h
        return res

    P.get_second_round_kcals_with_redistributed_meat = w_redist
    P.calculate_human_consumption_for_min_needs = w_min
    P.increase_biofuels_then_feed = w_bump
    P.compute_parameters_second_round = w_second
    P.compute_parameters_third_round = w_third
    out = []
    try:
        for r in runs:
            cur.clear()
            cur["_threshold"] = r.get("threshold")
            rec = {"country": r["country"], "option": r.get("option", {}), "threshold": r.get("threshold")}
            try:
                with quiet(), runutil.OptimizerCapture(want_rows=False) as ocap:
                    try:
                        needs, interp = runutil.run_country(r["country"], runutil.option(**r.get("option", {})),
                                                            title="c18_" + r["country"])
                    finally:
                        # what each optimiser round was actually handed for meat (round 1 no-feed, round 2
                        # feed-maximising, round 3 final), read from the optimiser's own constants
                        lp = []
                        for sv in ocap.solves:
                            d = sv.get("lp_in") or {}
                            lp.append({"ty": sv.get("ty"), "capture_error": sv.get("capture_error"),
                                       "add_meat": d.get("add_meat"),
                                       "meat_monthly": hx(d.get("meat_monthly", [])),
                                       "meat_running": hx(d.get("meat_running", [])),
                                       "meat_total": hx(d.get("meat_total", 0.0)),
                                       "pins": {k: hx(d.get("pin_" + t, [])) for k, t in PIN_TAGS.items()}})
                        rec["lp_meat"] = lp
                rec["needs_ratio"] = float(needs)
            except BaseException as e:  # noqa
                rec["err"] = classify(e) + ": " + str(e)[:200]
                rec["tb"] = traceback.format_exc()[-800:]
            finally:
                runutil.cleanup_cwd()
            cur.pop("_min_obj", None)
            cur.pop("_threshold", None)
            rec.update(copy.deepcopy(cur))
            out.append(rec)
    finally:
        for n, f in orig.items():
            setattr(P, n, f)
    return out


def run(payload):
    from src.optimizer.parameters import Parameters
    p = Parameters()
    cov = LineCov()
    res = []
    ntrace = int(payload.get("trace_first", 3000))
    cases = payload.get("cases", [])
    cov.start()
    for i, case in enumerate(cases):
        if i == ntrace:
            cov.stop()
        try:
            with quiet():
                res.append(run_case(p, case))
        except BaseException as e:  # noqa
            res.append({"err": classify(e), "msg": str(e)[:200]})
    cov.stop()
    out = {"results": res, "coverage": cov.report()}
    if payload.get("real"):
        out["real"] = capture_real(payload["real"])
    return out


if __name__ == "__main__":
    main_io(run)
