"""C03 implementation side: (a) feed / biofuel demand schedules called directly, (b) three-round runs with the
quantities the policy clauses talk about captured by wrapping (no source hooks).

payload: {"demand_cases": [{"n":..,"feed_kcals":..,"biofuel_kcals":..,"feed_months":..,"biofuel_months":..}],
          "runs": [{"iso3":..,"option":{..}}], "procs": n}"""
import multiprocessing as mp
import traceback

import numpy as np

import runutil as ru
from implutil import classify, main_io

SF_f, SF_b, SCP_f, SCP_b, CS_f, CS_b, CR_f, CR_b, SW_f, SW_b = 3, 4, 6, 7, 9, 10, 17, 18, 21, 22


def demand_case(c):
    from src.food_system.feed_and_biofuels import FeedAndBiofuels
    try:
        consts = {"NMONTHS": c["n"], "BIOFUEL_KCALS": c["biofuel_kcals"], "BIOFUEL_FAT": c.get("biofuel_fat", 0.0),
                  "BIOFUEL_PROTEIN": c.get("biofuel_protein", 0.0), "FEED_KCALS": c["feed_kcals"],
                  "FEED_FAT": c.get("feed_fat", 0.0), "FEED_PROTEIN": c.get("feed_protein", 0.0),
                  "DELAY": {"FEED_SHUTOFF_MONTHS": c["feed_months"], "BIOFUEL_SHUTOFF_MONTHS": c["biofuel_months"]}}
        with ru.quiet():
            fb = FeedAndBiofuels(consts)
            bio, feed = fb.get_biofuels_and_feed_from_delayed_shutoff(consts)
        return {"feed": [float(x) for x in np.asarray(feed.kcals)], "biofuel": [float(x) for x in np.asarray(bio.kcals)],
                "feed_units": feed.kcals_units, "biofuel_units": bio.kcals_units}
    except BaseException as e:  # noqa
        return {"error": classify(e), "detail": str(e)[:200]}


def sums(values, n, sk):
    def g(sid):
        v = values.get(sid) or values.get(str(sid)) or []
        return list(v) + [0.0] * (n - len(v))
    feed = [a + b + c * sk + d + e for a, b, c, d, e in zip(g(SF_f), g(CR_f), g(SW_f), g(CS_f), g(SCP_f))]
    bio = [a + b + c * sk + d + e for a, b, c, d, e in zip(g(SF_b), g(CR_b), g(SW_b), g(CS_b), g(SCP_b))]
    return feed, bio


def one_run(item):
    from src.optimizer.parameters import Parameters
    from src.scenarios.run_scenario import ScenarioRunner
    if "yaml" in item["option"]:
        item = dict(item, option=ru.presets()[item["option"]["yaml"]])
    rec = {"iso3": item["iso3"], "option": item["option"], "preset": item.get("preset")}
    try:
        import copy
        eff = ScenarioRunner().alter_scenario_if_known_to_fail(copy.deepcopy(item["option"]), item["iso3"])
        rec["effective_shutoff"] = eff.get("shutoff") if isinstance(eff, dict) else item["option"].get("shutoff")
    except BaseException:  # noqa
        rec["effective_shutoff"] = item["option"].get("shutoff")
    o_first = Parameters.compute_parameters_first_round
    o_r1 = ScenarioRunner.run_round_1
    o_third = Parameters.compute_parameters_third_round

    def first(self, constants_inputs, time_consts_inputs, scenario_loader):
        res = o_first(self, constants_inputs, time_consts_inputs, scenario_loader)
        rec["threshold"] = float(constants_inputs["MINIMUM_PERCENT_FED_BEFORE_NONHUMAN_CONSUMPTION_ALLOWED"])
        fd, bd = res[4], res[5]
        rec["feed_demand"] = [float(x) for x in np.asarray(fd.in_units_bil_kcals_thou_tons_thou_tons_per_month().kcals)]
        rec["biofuel_demand"] = [float(x) for x in np.asarray(bd.in_units_bil_kcals_thou_tons_thou_tons_per_month().kcals)]
        rec["feed_months"] = int(constants_inputs["DELAY"]["FEED_SHUTOFF_MONTHS"])
        rec["biofuel_months"] = int(constants_inputs["DELAY"]["BIOFUEL_SHUTOFF_MONTHS"])
        rec["need"] = float(res[0]["BILLION_KCALS_NEEDED"])
        return res

    def r1(self, *a, **k):
        res = o_r1(self, *a, **k)
        rec["pf1"] = float(res[1])
        return res

    def third(self, *a, **k):
        res = o_third(self, *a, **k)
        rec["charge3_feed"] = [float(x) for x in np.asarray(res[1]["feed"].kcals)]
        rec["charge3_biofuel"] = [float(x) for x in np.asarray(res[1]["biofuel"].kcals)]
        return res

    Parameters.compute_parameters_first_round = first
    Parameters.compute_parameters_third_round = third
    ScenarioRunner.run_round_1 = r1
    try:
        with ru.OptimizerCapture(want_rows=False) as cap, ru.quiet():
            if item["iso3"] == "WOR":     # the world aggregate: no country row, the dispatcher is called with country_data=None
                import copy as _copy
                sr = ScenarioRunner()
                c_, t_, loader_ = sr.set_depending_on_option(_copy.deepcopy(item["option"]))
                interp = sr.run_and_analyze_scenario(c_, t_, loader_, False, False, "_world", None, False, "world", "WOR", title="verif")
            else:
                ratio, interp = ru.run_country(item["iso3"], item["option"])
        rec["pf3"] = float(interp.percent_people_fed)
        rec["rounds"] = []
        for s in cap.solves:
            d = s["lp_in"]
            feed, bio = sums(s["values"], d["NM"], d["sw_kcals"])
            rec["rounds"].append({"ty": s["ty"], "feed": feed, "biofuel": bio, "opt": s["percent_fed_from_model"],
                                  "feed_charge": d["feed_charge"], "biofuel_charge": d["biofuel_charge"],
                                  "max_feed": d["max_feed"], "max_biofuel": d["max_biofuel"], "pop": d["pop"]})
    except BaseException as e:  # noqa
        rec["error"] = classify(e)
        rec["detail"] = str(e)[:300]
        rec["trace"] = traceback.format_exc()[-1200:]
    finally:
        Parameters.compute_parameters_first_round = o_first
        Parameters.compute_parameters_third_round = o_third
        ScenarioRunner.run_round_1 = o_r1
        ru.cleanup_cwd()
    return rec


def run(payload):
    ru.redirect_results()
    import src.scenarios.run_model_no_trade  # noqa
    ru.table()
    out = {"demand": [demand_case(c) for c in payload.get("demand_cases", [])]}
    runs = payload.get("runs", [])
    if runs:
        with mp.get_context("fork").Pool(int(payload.get("procs", 8))) as pool:
            out["runs"] = pool.map(one_run, runs, chunksize=1)
    else:
        out["runs"] = []
    return out


if __name__ == "__main__":
    main_io(run)
