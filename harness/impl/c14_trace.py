"""C14 instrumentation (implementation side): recording proxy for Food.conversions, shared-state snapshots of the
src.* modules, canonical digests of a run's result.  No source hooks: everything is installed from the runner."""
import hashlib
import sys
import types

import numpy as np

from src.food_system.unit_conversions import UnitConversions

UNDEF = "<undefined>"


class Recorder:
    """event log shared by every proxy of one process.  event = (run_tag, kind, cell_id, value_id)"""

    def __init__(self):
        self.events = []
        self.cells = {}     # name -> id
        self.values = {}    # repr -> id
        self.tag = 0        # current run tag (0 = outside any run)
        self.on = True

    def cid(self, name):
        return self.cells.setdefault(name, len(self.cells))

    def vid(self, v):
        try:
            r = v if v is UNDEF else (float(v).hex() if isinstance(v, (float, np.floating)) else repr(v))
        except Exception:
            r = "<unrepresentable %s>" % type(v).__name__
        return self.values.setdefault(r, len(self.values))

    def rec(self, kind, name, v):
        if self.on:
            self.events.append((self.tag, kind, self.cid(name), self.vid(v)))

    def take(self, tag):
        """events of one run tag, as [kind, cell, value] lists"""
        return [[k, c, v] for t, k, c, v in self.events if t == tag]


REC = Recorder()


class RecordingConversions(UnitConversions):
    """a UnitConversions whose every data attribute read / write is logged (methods run unchanged on it)"""

    def __getattribute__(self, name):
        if name.startswith("__"):
            return object.__getattribute__(self, name)
        try:
            v = object.__getattribute__(self, name)
        except AttributeError:
            REC.rec("R", name, UNDEF)
            raise
        if not callable(v):
            REC.rec("R", name, v)
        return v

    def __setattr__(self, name, value):
        REC.rec("W", name, value)
        object.__setattr__(self, name, value)

    def __delattr__(self, name):
        REC.rec("W", name, UNDEF)
        object.__delattr__(self, name)


def install_proxy():
    from src.food_system.food import Food
    Food.conversions = RecordingConversions()
    return Food.conversions


# ----------------------------------------------------------------------------- fingerprints / snapshots

def _h(b):
    return hashlib.sha256(b).hexdigest()[:16]


def fingerprint(v, depth=0, seen=None):
    """canonical, address-free description of a value (used for before/after comparison and for digests)"""
    if seen is None:
        seen = set()
    if hasattr(v, "cache_info") and callable(getattr(v, "cache_info", None)) and not isinstance(v, type):
        try:
            return "<cached %s %r>" % (getattr(v, "__qualname__", "?"), tuple(v.cache_info()))
        except Exception:
            pass
    if v is None or isinstance(v, (bool, int, str, bytes)):
        return repr(v)
    if isinstance(v, (float, np.floating)):
        return float(v).hex()
    if isinstance(v, np.integer):
        return repr(int(v))
    if isinstance(v, np.bool_):
        return repr(bool(v))
    if isinstance(v, np.ndarray):
        if v.dtype == object:
            return "nda[" + ",".join(fingerprint(x, depth + 1, seen) for x in v.ravel().tolist()) + "]"
        return "nd%s%s:%s" % (v.dtype.str, v.shape, _h(np.ascontiguousarray(v).tobytes()))
    if id(v) in seen or depth > 6:
        return "<%s...>" % type(v).__name__
    seen = seen | {id(v)}
    if isinstance(v, (list, tuple)):
        return type(v).__name__ + "[" + ",".join(fingerprint(x, depth + 1, seen) for x in v) + "]"
    if isinstance(v, (set, frozenset)):
        return "set{" + ",".join(sorted(fingerprint(x, depth + 1, seen) for x in v)) + "}"
    if isinstance(v, dict):
        items = sorted((fingerprint(k, depth + 1, seen), fingerprint(x, depth + 1, seen)) for k, x in v.items())
        return "dict{" + ",".join(k + ":" + x for k, x in items) + "}"
    if isinstance(v, types.ModuleType):
        return "<module %s>" % v.__name__
    if isinstance(v, (types.FunctionType, types.BuiltinFunctionType, types.MethodType, type)):
        return "<%s %s>" % (type(v).__name__, getattr(v, "__qualname__", "?"))
    tn = type(v).__module__ + "." + type(v).__name__
    if tn.startswith("pandas."):
        try:
            import pandas as pd
            return "<%s %s>" % (tn, _h(pd.util.hash_pandas_object(v, index=True).values.tobytes()))
        except Exception:
            return "<%s>" % tn
    try:
        d = object.__getattribute__(v, "__dict__")
    except AttributeError:
        return "<%s>" % tn
    if tn.startswith("src.") or tn.startswith("c14_trace."):
        return "<%s %s>" % (tn, fingerprint(dict(d), depth + 1, seen))
    return "<%s>" % tn


def _defaults(fn):
    out = {}
    fd = getattr(fn, "__dict__", None)
    if fd:
        out["attrs"] = fingerprint({k: v for k, v in fd.items() if k != "__wrapped__"})
    if fn.__defaults__:
        for i, d in enumerate(fn.__defaults__):
            out["default%d" % i] = fingerprint(d)
    if fn.__kwdefaults__:
        for k, d in fn.__kwdefaults__.items():
            out["kwdefault:" + k] = fingerprint(d)
    return out


EXTRA_ROOTS = {}     # name -> long-lived object of the caller (a reused ScenarioRunnerNoTrade): its attributes are cells too


def snapshot():
    """{cell name: fingerprint} over module globals, class attributes and function defaults of every loaded src.* module"""
    was = REC.on
    REC.on = False
    snap = {}
    try:
        for mname, mod in sorted(sys.modules.items()):
            if mod is None or not (mname == "src" or mname.startswith("src.")):
                continue
            for name, val in list(vars(mod).items()):
                if name.startswith("__"):
                    continue
                if isinstance(val, types.ModuleType):
                    continue
                if isinstance(val, type):
                    if getattr(val, "__module__", "") != mname:
                        continue
                    for an, av in list(vars(val).items()):
                        if an.startswith("__"):
                            continue
                        f = av.__func__ if isinstance(av, (staticmethod, classmethod)) else av
                        if isinstance(f, types.FunctionType):
                            for dn, dv in _defaults(f).items():
                                snap["%s:%s.%s(%s)" % (mname, name, an, dn)] = dv
                        elif isinstance(av, property):
                            continue
                        else:
                            snap["%s:%s.%s" % (mname, name, an)] = fingerprint(av)
                            snap["%s:%s.%s#id" % (mname, name, an)] = "id%d" % id(av)
                elif isinstance(val, types.FunctionType):
                    if getattr(val, "__module__", "") != mname:
                        continue
                    for dn, dv in _defaults(val).items():
                        snap["%s:%s(%s)" % (mname, name, dn)] = dv
                else:
                    if getattr(type(val), "__module__", "").split(".")[0] in ("typing",):
                        continue
                    snap["%s:%s" % (mname, name)] = fingerprint(val)
        for rname, obj in EXTRA_ROOTS.items():
            for an, av in list(vars(obj).items()):
                snap["instance:%s(%s).%s" % (rname, type(obj).__name__, an)] = fingerprint(av)
    finally:
        REC.on = was
    return snap


def snap_diff(a, b):
    out = []
    for k in sorted(set(a) | set(b)):
        if a.get(k) != b.get(k):
            out.append({"cell": k, "before": (a.get(k) or "<absent>")[:160], "after": (b.get(k) or "<absent>")[:160]})
    return out


# ----------------------------------------------------------------------------- result digests

def _food_fp(f):
    return "Food(" + fingerprint(np.asarray(f.kcals, dtype=float)) + "," + fingerprint(np.asarray(f.fat, dtype=float)) + "," + \
        fingerprint(np.asarray(f.protein, dtype=float)) + "," + repr([f.kcals_units, f.fat_units, f.protein_units]) + ")"


def result_parts(interp):
    """canonical strings per observable part of one Interpreter: headline, monthly series, herd trajectories, rest"""
    from src.food_system.food import Food
    was = REC.on
    REC.on = False
    try:
        head = float(interp.percent_people_fed).hex() + "|" + str(interp.constraining_nutrient)
        series, herd, rest = {}, {}, {}
        for k, v in vars(interp).items():
            if k in ("meat_dictionary", "animal_population_dictionary"):
                herd[k] = fingerprint({a: np.asarray(b, dtype=float) for a, b in v.items()})
            elif isinstance(v, Food):
                series[k] = _food_fp(v)
            elif isinstance(v, np.ndarray) or k == "time_months_middle":
                series[k] = fingerprint(np.asarray(v, dtype=float))
            elif k == "feed_and_biofuels":
                for a, b in vars(v).items():
                    if isinstance(b, Food):
                        series["feed_and_biofuels." + a] = _food_fp(b)
                    else:
                        rest["feed_and_biofuels." + a] = fingerprint(b)
            elif k == "constants":
                for a, b in v.items():
                    if a == "inputs":
                        for c, d in b.items():
                            rest["constants.inputs." + c] = _food_fp(d) if isinstance(d, Food) else fingerprint(d)
                    else:
                        rest["constants." + a] = _food_fp(b) if isinstance(b, Food) else fingerprint(b)
            else:
                rest[k] = fingerprint(v)
    finally:
        REC.on = was
    return {"headline": head, "series": series, "herd": herd, "rest": rest}


def digest(parts):
    def hs(d):
        return hashlib.sha256("\n".join(k + "=" + d[k] for k in sorted(d)).encode()).hexdigest()
    out = {"headline": hashlib.sha256(parts["headline"].encode()).hexdigest(), "series": hs(parts["series"]),
           "herd": hs(parts["herd"]), "rest": hs(parts["rest"])}
    out["all"] = hashlib.sha256((out["headline"] + out["series"] + out["herd"]).encode()).hexdigest()
    return out


def parts_diff(a, b, limit=8):
    """names of the observable parts on which two results differ"""
    out = []
    if a["headline"] != b["headline"]:
        out.append("headline %s vs %s" % (a["headline"], b["headline"]))
    for grp in ("series", "herd", "rest"):
        for k in sorted(set(a[grp]) | set(b[grp])):
            if a[grp].get(k) != b[grp].get(k):
                out.append(grp + "." + k)
    return out[:limit]
