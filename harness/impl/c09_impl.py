"""C09 / C08 (outdoor crops + greenhouses): run the real OutdoorCrops / Greenhouses code on constants dictionaries.

payload: {"cases": [{"consts": {...}, "via": "params" | "direct"}]}
result : {"results": [{"accepted": bool, "err": str|None, "inputs": {...}, "obs": {...}, "pw": [[x, x**e], ...]}]}
"""
import copy
import math
import numpy as np
from implutil import classify, main_io, quiet
from src.food_system.outdoor_crops import OutdoorCrops
from src.food_system.greenhouses import Greenhouses
from src.food_system.food import Food
from src.optimizer.parameters import Parameters


def fl(x):
    return [float(v) for v in np.asarray(x, dtype=float).ravel().tolist()]


def extract_inputs(c, start):
    """model inputs read from a constants dictionary (plain reads, no arithmetic)"""
    d = c.get("DELAY", {})
    rot = c.get("ROTATION_IMPROVEMENTS", {})
    return {
        "N": int(c["NMONTHS"]), "start": int(start), "base": float(c["BASELINE_CROP_KCALS"]),
        "seas": [float(x) for x in c["SEASONALITY"]],
        "ratios": [float(c["RATIO_CROPS_YEAR%d" % i]) for i in range(1, 11)],
        "code": str(c["COUNTRY_CODE"]), "rot": bool(c["OG_USE_BETTER_ROTATION"]),
        "exp": float(rot.get("POWER_LAW_IMPROVEMENT", 1.0)),
        "area": float(c["RATIO_INCREASED_CROP_AREA"]), "hd": int(c["INITIAL_HARVEST_DURATION_IN_MONTHS"]),
        "years": int(c.get("NUMBER_YEARS_TAKES_TO_REACH_INCREASED_AREA", 0)),
        "rotdelay": int(d.get("ROTATION_CHANGE_IN_MONTHS", 0)),
        "wd": float(c["WASTE_DISTRIBUTION"]["CROPS"]), "wr": float(c["WASTE_RETAIL"]),
        "add": bool(c["ADD_OUTDOOR_GROWING"]), "gadd": bool(c["ADD_GREENHOUSES"]),
        "gdelay": int(d.get("GREENHOUSE_MONTHS", 0)), "gmult": float(c.get("GREENHOUSE_AREA_MULTIPLIER", 0.0)),
        "ggain": float(c.get("GREENHOUSE_GAIN_PCT", 0.0)), "gglobal": float(c["INITIAL_GLOBAL_CROP_AREA"]),
        "gfrac": float(c["INITIAL_CROP_AREA_FRACTION"]),
        "fat_base": float(c["BASELINE_CROP_FAT"]), "protein_base": float(c["BASELINE_CROP_PROTEIN"]),
        "fat_ratio": float(rot.get("FAT_RATIO", 1.0)), "protein_ratio": float(rot.get("PROTEIN_RATIO", 1.0)),
    }


def observe(oc, gh, time_consts, area):
    obs = {}
    if hasattr(oc, "all_months_reductions"):
        obs["reds"] = fl(oc.all_months_reductions)
        obs["cycle"] = fl(oc.months_cycle)
        obs["grown"] = fl(oc.KCALS_GROWN)
        obs["norel"] = fl(oc.NO_RELOCATION_KCALS_GROWN)
    obs["area"] = fl(area)
    obs["frac"] = fl(gh.greenhouse_fraction_area)
    obs["ghk"] = fl(time_consts["greenhouse_crops"].kcals)
    obs["prod"] = fl(oc.production.kcals)
    obs["prod_dtype"] = str(np.asarray(oc.production.kcals).dtype)
    obs["prod_fat"] = fl(oc.production.fat)
    obs["prod_protein"] = fl(oc.production.protein)
    obs["ghk_fat"] = fl(time_consts["greenhouse_crops"].fat)
    obs["ghk_protein"] = fl(time_consts["greenhouse_crops"].protein)
    obs["ghk_units"] = time_consts["greenhouse_crops"].kcals_units
    return obs


def pw_table(oc):
    if not hasattr(oc, "all_months_reductions"):
        return []
    out = []
    seen = set()
    for r in oc.all_months_reductions:
        r = float(r)
        if r <= 0:
            r = round(r, 8)
        if r in seen or r > 1 or r < 0:
            continue
        seen.add(r)
        v = r ** oc.OG_KCAL_EXPONENT
        if isinstance(v, complex) or math.isnan(v) or math.isinf(v):
            continue
        out.append([r, float(v)])
    return out


def run_params(c):
    """exactly what Parameters.compute_parameters_first_round does for crops (start month forced to May)"""
    p = Parameters()
    tc = {}
    co, oc = p.init_outdoor_crops({}, c)
    captured = {}
    orig = Greenhouses.get_greenhouse_area

    def wrap(self, cc, ocs):
        a = orig(self, cc, ocs)
        captured["gh"] = self
        captured["area"] = a
        return a

    Greenhouses.get_greenhouse_area = wrap
    try:
        tc = p.init_greenhouse_params(tc, c, oc)
    finally:
        Greenhouses.get_greenhouse_area = orig
    return oc, captured["gh"], tc, captured["area"]


def run_direct(c):
    """the same sequence of calls with an arbitrary STARTING_MONTH_NUM (glue copied from Parameters)"""
    oc = OutdoorCrops(c)
    oc.calculate_rotation_ratios(c)
    if c["ADD_OUTDOOR_GROWING"] or c["ADD_GREENHOUSES"]:
        oc.calculate_monthly_production(c)
    gh = Greenhouses(c)
    area = gh.get_greenhouse_area(c, oc)
    if c["INITIAL_CROP_AREA_FRACTION"] == 0:
        k = np.zeros(c["NMONTHS"]); f = np.zeros(c["NMONTHS"]); pr = np.zeros(c["NMONTHS"])
    else:
        k, f, pr = gh.get_greenhouse_yield_per_ha(c, oc)
    tc = {"greenhouse_crops": Food(kcals=np.multiply(k, area), fat=np.multiply(f, area), protein=np.multiply(pr, area),
                                   kcals_units="billion kcals each month", fat_units="thousand tons each month",
                                   protein_units="thousand tons each month")}
    oc.set_crop_production_minus_greenhouse_area(c, gh.greenhouse_fraction_area)
    return oc, gh, tc, area


def run_case(case):
    c = copy.deepcopy(case["consts"])
    via = case.get("via", "params")
    res = {"accepted": False, "err": None, "obs": None, "pw": []}
    start = 5 if via == "params" else c["STARTING_MONTH_NUM"]
    try:
        res["inputs"] = extract_inputs(c, start)
    except BaseException as e:
        res["inputs"] = None
        res["err"] = "inputs:" + classify(e)
        return res
    try:
        with quiet(), np.errstate(all="ignore"):
            oc, gh, tc, area = run_params(c) if via == "params" else run_direct(c)
        res["accepted"] = True
        res["obs"] = observe(oc, gh, tc, area)
        res["pw"] = pw_table(oc)
    except BaseException as e:
        res["err"] = classify(e) + ":" + str(e)[:120]
    return res


def run(payload):
    Food.conversions.set_nutrition_requirements(kcals_daily=2100, fat_daily=47, protein_daily=51, include_fat=False,
                                                include_protein=False, population=7.8e9)
    return {"results": [run_case(c) for c in payload["cases"]]}


if __name__ == "__main__":
    main_io(run)
