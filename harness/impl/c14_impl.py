"""C14 implementation-side runner: executes a history of (country, scenario) runs and interleaved overwrites of
the global settings in THIS process; per run it reports the result digest, the Food.conversions event trace, the
before/after diff of all src.* module-level state and whether the caller's option dict was left unchanged.
mode "batch": the whole history; a fresh process per single run is obtained by invoking this script with a
one-step history."""
import copy
import os
import sys
import time
import traceback

os.environ.setdefault("MPLBACKEND", "Agg")
import numpy as np  # noqa: E402

from implutil import quiet, main_io  # noqa: E402
import c14_trace as T  # noqa: E402


def setup():
    import src.optimizer.interpret_results as ir
    import src.scenarios.run_scenario as rs
    from src.scenarios.run_model_no_trade import ScenarioRunnerNoTrade
    work = os.environ.get("VERIF_WORK", "/verif/work/C14")
    out = os.path.join(work, "results_%d" % os.getpid())
    os.makedirs(os.path.join(out, "results"), exist_ok=True)
    ir.repo_root = out
    rs.repo_root = out
    T.install_proxy()
    # one trace tag per (step, country): the first country of a step keeps the step's tag
    orig = ScenarioRunnerNoTrade.run_optimizer_for_country
    state = {"next": 1000, "first": True, "tags": {}}

    def wrapped(self, country_data, *a, **k):
        if state["first"]:
            state["first"] = False
        else:
            state["next"] += 1
            T.REC.tag = state["next"]
        state["tags"][str(country_data["country"])] = T.REC.tag
        return orig(self, country_data, *a, **k)

    ScenarioRunnerNoTrade.run_optimizer_for_country = wrapped
    return state


def do_run(step, state, want_trace, want_snap, live, opts=None, invoke=None):
    from src.scenarios.run_model_no_trade import ScenarioRunnerNoTrade
    # the caller's dictionary: ONE object per preset and process, reused by every step that names the preset
    # (as run_many_options / the yaml loop do); it is never repaired here, so a run that modifies it leaks
    if opts is None:
        opts = live[step["preset"]]
    opts_fp = T.fingerprint(opts)
    opts_before = copy.deepcopy(opts)
    countries = list(step["countries"])
    clist_fp = T.fingerprint(countries)
    if step.get("runner") and invoke is None and step["runner"] not in T.EXTRA_ROOTS:
        T.EXTRA_ROOTS[step["runner"]] = ScenarioRunnerNoTrade()
    before = T.snapshot() if want_snap else None
    state["first"] = True
    state["tags"] = {}
    out = {"id": step["id"], "kind": "run", "countries": countries}
    t0 = time.time()
    results = {}
    try:
        with quiet():
            if invoke is not None:
                r = invoke()
            else:
                if step.get("runner"):
                    # ONE runner object reused by every step of the history that names it (instance state is shared state)
                    if step["runner"] not in T.EXTRA_ROOTS:
                        T.EXTRA_ROOTS[step["runner"]] = ScenarioRunnerNoTrade()
                    runner = T.EXTRA_ROOTS[step["runner"]]
                else:
                    runner = ScenarioRunnerNoTrade()
                r = runner.run_model_no_trade(
                    title="c14", create_pptx_with_all_countries=False, show_country_figures=False,
                    show_map_figures=False, add_map_slide_to_pptx=False, scenario_option=opts, countries_list=countries,
                    return_results=True)
        results = r[3]
        out["ok"] = True
        out["net_pop"] = float(r[1]).hex()
        out["net_pop_fed"] = float(r[2]).hex()
    except BaseException as e:  # noqa: BLE001  (SystemExit from failed solves included)
        out["ok"] = False
        out["err"] = type(e).__name__ + ": " + str(e)[:200].replace("\n", " ")
        out["tb"] = traceback.format_exc()[-600:]
        if os.path.exists("model.json"):
            os.remove("model.json")
    out["secs"] = round(time.time() - t0, 2)
    out["options_unchanged"] = (T.fingerprint(opts) == opts_fp) and (T.fingerprint(countries) == clist_fp)
    if not out["options_unchanged"]:
        out["options_diff"] = {str(k): [repr(opts_before.get(k, "<absent>"))[:80], repr(opts.get(k, "<absent>"))[:80]]
                               for k in set(opts_before) | set(opts) if k not in opts or k not in opts_before
                               or T.fingerprint(opts_before[k]) != T.fingerprint(opts[k])}
    out["results"] = {}
    for cname, interp in results.items():
        parts = T.result_parts(interp)
        out["results"][cname] = {"digest": T.digest(parts), "headline": parts["headline"],
                                 "keys": {g: {k: T._h(v.encode()) for k, v in parts[g].items()} for g in ("series", "herd", "rest")},
                                 "tag": state["tags"].get(cname)}
    if want_snap:
        out["snapdiff"] = T.snap_diff(before, T.snapshot())
    return out, results


def do_yaml(group, state, want_trace, want_snap, live, newtag):
    """the steps of one group are executed by ONE call of run_scenarios_from_yaml (one simulation per step, all with the
    same country list), as `python run_scenarios_from_yaml.py ... file.yaml` would; the loop's calls of run_model_no_trade
    are intercepted only to ask for the results back (return_results=True) and to keep CSVs out of the repository"""
    import src.scenarios.run_scenarios_from_yaml as ry
    from src.scenarios.run_model_no_trade import ScenarioRunnerNoTrade
    countries = list(group[0]["countries"])
    sims = {}
    for st in group:
        d = {k: v for k, v in live[st["preset"]].items() if k != "NMONTHS"}
        d["title"] = "c14"
        if st.get("own_nmonths") is not None:
            d["NMONTHS"] = st["own_nmonths"]       # a simulation carrying its own NMONTHS key
        sims["sim_" + st["id"]] = d
    settings_nmonths = [st["nmonths"] for st in group if st.get("own_nmonths") is None][0] if \
        any(st.get("own_nmonths") is None for st in group) else group[0]["nmonths"]
    import yaml
    ypath = os.path.join(os.environ.get("VERIF_WORK", "/verif/work/C14"), "c14_%d_%s.yaml" % (os.getpid(), group[0]["yaml_group"]))
    with open(ypath, "w") as f:
        yaml.safe_dump({"settings": {"countries": countries if len(countries) > 1 else countries[0], "NMONTHS": settings_nmonths},
                        "simulations": sims}, f, sort_keys=False)
    config = ry.load_config_data(ypath)            # absolute path: read as is by the real loader
    sims = config["simulations"]
    config_fp = T.fingerprint({k: {a: b for a, b in v.items() if a != "NMONTHS"} for k, v in sims.items()})
    outs, todo = [], list(group)
    orig = ScenarioRunnerNoTrade.run_model_no_trade

    def patched(self_, **kw):
        st = todo.pop(0)
        T.REC.tag = newtag()
        kw2 = dict(kw, return_results=True, save_all_results=False)
        o, results = do_run(st, state, want_trace, want_snap, live, opts=kw["scenario_option"], invoke=lambda: orig(self_, **kw2))
        o["via"] = "yaml"
        outs.append((o, results))
        if not o["ok"]:
            raise RuntimeError("c14: run failed inside the yaml loop: " + o.get("err", ""))
        return [None, 0, 0, results]

    ScenarioRunnerNoTrade.run_model_no_trade = patched
    try:
        with quiet():
            ry.run_scenarios_from_yaml(config, False, False, False)
    except BaseException as e:  # noqa: BLE001
        for st in todo:
            outs.append(({"id": st["id"], "kind": "run", "countries": countries, "ok": False, "results": {}, "via": "yaml",
                          "err": "not reached: " + type(e).__name__, "options_unchanged": True, "secs": 0}, {}))
    finally:
        ScenarioRunnerNoTrade.run_model_no_trade = orig
    after_fp = T.fingerprint({k: {a: b for a, b in v.items() if a != "NMONTHS"} for k, v in config["simulations"].items()})
    if after_fp != config_fp and outs:
        outs[-1][0]["options_unchanged"] = False
        outs[-1][0]["options_diff"] = {"config_data": ["<as loaded>", "<modified beyond the NMONTHS key the loop adds>"]}
    return outs


def do_overwrite(step, kept):
    """calls that legitimately clobber the process-global settings between runs"""
    from src.food_system.food import Food
    from src.food_system.unit_conversions import UnitConversions
    from src.optimizer.interpret_results import Interpreter
    how = step["how"]
    out = {"id": step["id"], "kind": "overwrite", "how": how, "ok": True}
    try:
        with quiet():
            if how == "set_nutrition":
                a = step["args"]
                Food.conversions.set_nutrition_requirements(kcals_daily=a["kcals_daily"], fat_daily=a["fat_daily"],
                                                            protein_daily=a["protein_daily"], include_fat=a["include_fat"],
                                                            include_protein=a["include_protein"], population=a["population"])
            elif how == "unassigned":
                # what a fresh interpreter starts with: an object without any nutrition attribute
                Food.conversions = T.RecordingConversions()
            elif how == "new_unitconv":
                a = step["args"]
                c = T.RecordingConversions()
                UnitConversions.set_nutrition_requirements(c, a["kcals_daily"], a["fat_daily"], a["protein_daily"],
                                                           a["include_fat"], a["include_protein"], a["population"])
                Food.conversions = c
            elif how == "sum_many":
                if kept:
                    Interpreter.sum_many_results_together(dict(kept), step.get("cap", True))
                else:
                    out["skipped"] = "no earlier result"
            else:
                raise ValueError("unknown overwrite " + how)
    except BaseException as e:  # noqa: BLE001
        out["ok"] = False
        out["err"] = type(e).__name__ + ": " + str(e)[:160].replace("\n", " ")
    return out


def run(payload):
    t0 = time.time()
    state = setup()
    live = {k: copy.deepcopy(v) for k, v in payload["presets"].items()}
    want_trace = payload.get("trace", True)
    want_snap = payload.get("snapshot", True)
    steps_out = []
    kept = {}          # step id / country -> Interpreter (to detect retroactive modification of earlier results)
    last = {}
    counter = {"tag": 0}

    def newtag():
        counter["tag"] += 1
        return counter["tag"]

    steps = payload["steps"]
    i = 0
    while i < len(steps):
        step = steps[i]
        if step["kind"] == "run" and step.get("yaml_group") is not None:
            j = i
            while j < len(steps) and steps[j]["kind"] == "run" and steps[j].get("yaml_group") == step["yaml_group"]:
                j += 1
            for o, results in do_yaml(steps[i:j], state, want_trace, want_snap, live, newtag):
                for cname, interp in results.items():
                    kept[o["id"] + "/" + cname] = interp
                    last[cname] = interp
                steps_out.append(o)
            T.REC.tag = 0
            i = j
            continue
        tag = newtag()
        T.REC.tag = tag
        if step["kind"] == "run":
            o, results = do_run(step, state, want_trace, want_snap, live)
            for cname, interp in results.items():
                kept[step["id"] + "/" + cname] = interp
                last[cname] = interp
        else:
            o = do_overwrite(step, last)
            o["tag"] = tag
        T.REC.tag = 0
        steps_out.append(o)
        i += 1
    # earlier results must not have been modified by later steps
    for o in steps_out:
        if o["kind"] == "run":
            for cname, r in o["results"].items():
                r["late_digest"] = T.digest(T.result_parts(kept[o["id"] + "/" + cname]))["all"]
    out = {"steps": steps_out, "pid": os.getpid(), "secs": round(time.time() - t0, 2)}
    if want_trace:
        segs = []
        for t, k, c, v in T.REC.events:
            if not segs or segs[-1][0] != t:
                segs.append([t, []])
            segs[-1][1].append([k, c, v])
        out["segments"] = segs
        out["cells"] = sorted(T.REC.cells, key=T.REC.cells.get)
        out["values"] = sorted(T.REC.values, key=T.REC.values.get)
    import shutil
    shutil.rmtree(os.path.join(os.environ.get("VERIF_WORK", "/verif/work/C14"), "results_%d" % os.getpid()), ignore_errors=True)
    return out


def run_artifacts(payload):
    """web-interface mode (return_results and save_all_results both true): ONE call of run_model_no_trade for the given
    countries in this fresh process; returns every csv file written (text) and the digests of the in-memory results.
    All three module-level `repo_root`s are pointed at a private directory (with a `data` symlink to the repository's)."""
    import hashlib
    import shutil
    import src.optimizer.interpret_results as ir
    import src.scenarios.run_scenario as rs
    import src.scenarios.run_model_no_trade as rm
    work = os.environ.get("VERIF_WORK", "/verif/work/C14")
    root = os.path.join(work, "art_%d" % os.getpid())
    os.makedirs(os.path.join(root, "results"))
    os.symlink(os.path.join(os.getcwd(), "data"), os.path.join(root, "data"))
    ir.repo_root = rs.repo_root = rm.repo_root = root
    opts = copy.deepcopy(payload["presets"][payload["preset"]])
    out = {"kind": "artifacts", "countries": payload["countries"], "preset": payload["preset"]}
    try:
        with quiet():
            r = rm.ScenarioRunnerNoTrade().run_model_no_trade(
                title=payload.get("title", "c14art"), create_pptx_with_all_countries=False, show_country_figures=False,
                show_map_figures=False, add_map_slide_to_pptx=False, scenario_option=opts, countries_list=list(payload["countries"]),
                figure_save_postfix="_c14", return_results=True, save_all_results=True)
        out["ok"] = True
        out["order"] = list(r[3].keys())
        out["results"] = {}
        for cname, interp in r[3].items():
            parts = T.result_parts(interp)
            out["results"][cname] = {"digest": T.digest(parts), "headline": parts["headline"],
                                     "keys": {g: {k: T._h(v.encode()) for k, v in parts[g].items()} for g in ("series", "herd", "rest")}}
    except BaseException as e:  # noqa: BLE001
        out["ok"] = False
        out["err"] = type(e).__name__ + ": " + str(e)[:200].replace("\n", " ")
        out["tb"] = traceback.format_exc()[-600:]
        if os.path.exists("model.json"):
            os.remove("model.json")
    files = {}
    rdir = os.path.join(root, "results")
    for fn in sorted(os.listdir(rdir)):
        fp = os.path.join(rdir, fn)
        if os.path.isfile(fp) and fn.endswith(".csv"):
            b = open(fp, "rb").read()
            files[fn] = {"sha256": hashlib.sha256(b).hexdigest(), "text": b.decode("utf-8", "replace")}
    out["files"] = files
    shutil.rmtree(root, ignore_errors=True)
    return out


def dispatch(payload):
    if payload.get("mode") == "artifacts":
        return run_artifacts(payload)
    return run(payload)


if __name__ == "__main__":
    main_io(dispatch)
