"""C18 direct audit: every clause of the property evaluated on the implementation itself (no model) for generated
inputs, the corpus, and the captured hand-offs of real runs.  Failures carry a stable key and the exact input."""
import random
import sys

import numpy as np

sys.path.insert(0, "/verif/harness")
from implutil import classify, main_io, quiet  # noqa: E402
from c18_impl import run_case, unhex, hx, ATTRS, OUT_KEYS  # noqa: E402

K_MIN = "calculate_human_consumption_for_min_needs"
K_FILL = "fill_negatives_with_positives"
K_RET = "get_second_round_kcals_with_redistributed_meat"
K_BUMP = "increase_biofuels_then_feed"
AVAIL_OF = {"fish": ["fish"], "meat": ["meat"], "dairy": ["milk"], "greenhouse": ["greenhouse"],
            "outdoor_crops": ["immediate_outdoor_crops", "new_stored_outdoor_crops"], "stored_food": ["stored_food"],
            "methane_scp": ["scp"], "cellulosic_sugar": ["cell_sugar"], "seaweed": ["seaweed"]}


def tol_of(case, scale):
    if case.get("dyadic") and (case["kind"] != "bump" or case.get("small")):
        return lambda x: 1e-12 * max(1.0, abs(x))
    if case.get("dyadic"):
        return lambda x: 1e-12 * max(1.0, abs(x), scale)
    return lambda x: 1e-9 * max(1.0, abs(x), scale)


def fail(out, key, what, case, observed=None, real=None):
    d = {"key": key, "what": what, "case": case}
    if observed is not None:
        d["observed"] = observed
    if real:
        d["real"] = real
    out.append(d)


def plain(case):
    """case with floats (hex strings decoded)"""
    c = dict(case)
    for k in ("arr", "r1", "r2", "b", "f", "inc", "maxb", "maxf", "avail", "K", "T", "pf", "Kconv"):
        if k in c:
            c[k] = unhex(c[k])
    if "series" in c:
        c["series"] = {a: unhex(v) for a, v in c["series"].items()}
    return c


def hexcase(c):
    d = dict(c)
    for k in ("arr", "r1", "r2", "b", "f", "inc", "maxb", "maxf", "avail", "K", "T", "pf", "Kconv"):
        if k in d:
            d[k] = hx(d[k])
    if "series" in d:
        d["series"] = {a: hx(v) for a, v in d["series"].items()}
    return d


# ------------------------------------------------------------------ clause checkers (pure data: input + observed)

def check_fill(c, out, fails, sfx=""):
    arr = c["arr"]
    scale = max([abs(v) for v in arr] + [0.0])
    tol = tol_of(c, scale)
    s_in, s_out = float(np.sum(arr)), float(np.sum(out))
    n = 0
    if abs(s_in - s_out) > tol(s_in) * max(1, len(arr)) ** 0.5:
        fail(fails, f"C18:fill-sum@{K_FILL}{sfx}", f"sum changed from {s_in!r} to {s_out!r}", hexcase(c), hx(out))
    n += 1
    if s_in >= 0:
        n += 1
        m = min(out)
        if m < -tol(scale) * len(arr):
            fail(fails, f"C18:fill-nonneg@{K_FILL}{sfx}", f"sum {s_in!r} >= 0 but an entry is {m!r}", hexcase(c), hx(out))
    return n


def check_redist(c, out, fails, sfx=""):
    r1, r2 = c["r1"], c["r2"]
    if len(r1) != len(r2):
        return 0
    scale = max([abs(v) for v in r1 + r2] + [0.0])
    tol = tol_of(c, scale)
    s1, s2 = float(np.sum(r1)), float(np.sum(r2))
    near_tie = (not c.get("dyadic")) and abs(s1 - s2) <= 1e-9 * max(1.0, abs(s1)) * len(r1)
    if out is None:
        if s1 <= s2 and not near_tie:
            fail(fails, f"C18:retime-branch@{K_RET}{sfx}", f"round-2 total {s2!r} >= round-1 total {s1!r} but round 2 "
                 "was abandoned (None)", hexcase(c))
        return 1
    if s1 > s2 and not near_tie:
        fail(fails, f"C18:retime-branch@{K_RET}{sfx}", f"round-2 total {s2!r} < round-1 total {s1!r} but a series was "
             "returned", hexcase(c), hx(out))
        return 1
    so = float(np.sum(out))
    if abs(so - s2) > tol(s2) * max(1, len(r1)) ** 0.5:
        fail(fails, f"C18:retime-total@{K_RET}{sfx}", f"total changed from {s2!r} to {so!r}", hexcase(c), hx(out))
    for m, (a, o) in enumerate(zip(r1, out)):
        if o < a - tol(scale) * 4:
            fail(fails, f"C18:retime-below-round1@{K_RET}{sfx}", f"month {m}: re-timed {o!r} < round-1 {a!r}", hexcase(c), hx(out))
            break
        if a >= 0 and o < -tol(scale) * 4:
            fail(fails, f"C18:retime-negative@{K_RET}{sfx}", f"month {m}: re-timed meat {o!r} < 0", hexcase(c), hx(out))
            break
    return 4


def in_domain(b, f, inc, mb, mf, t=0.0):
    return b <= mb + t and f <= mf + t and inc >= -t and b >= -t and f >= -t


def check_bump(c, nb, nf, fails, stats, sfx=""):
    n = 0
    cols = [c[x] for x in ("b", "f", "inc", "maxb", "maxf", "avail")]
    scale = max([abs(v) for col in cols for v in col] + [0.0])
    tol = tol_of(c, scale)
    for m, (b, f, inc, mb, mf, av) in enumerate(zip(*cols)):
        n += 2
        if nb[m] < b or nf[m] < f:
            fail(fails, f"C18:bump-lowers@{K_BUMP}{sfx}", f"month {m}: biofuel {b!r}->{nb[m]!r}, feed {f!r}->{nf[m]!r}",
                 hexcase(c), {"b": hx(nb), "f": hx(nf)})
            break
        # the ceilings are required for ARBITRARY inputs (quantities already above their demand, negative increase,
        # negative availability): out-of-domain months are audited like all others, only counted separately
        dom = in_domain(b, f, inc, mb, mf, tol(scale) if sfx else 0.0)
        over_b = nb[m] > max(b, mb) + tol(max(b, mb))
        over_f = nf[m] > max(f, mf) + tol(max(f, mf))
        if not dom:
            stats["out_of_domain_months"] += 1
            if over_b or over_f:
                stats["out_of_domain_exceedances"] += 1
                if stats.get("out_of_domain_example") is None:
                    stats["out_of_domain_example"] = {"b": b, "f": f, "inc": inc, "maxb": mb, "maxf": mf, "avail": av,
                                                      "new_b": nb[m], "new_f": nf[m]}
        n += 2
        if over_b:
            fail(fails, f"C18:bump-biofuel-above-demand@{K_BUMP}{sfx}",
                 f"month {m}: biofuel raised to {nb[m]!r} above its demand {mb!r} (was {b!r}; feed {f!r}, feed demand {mf!r}, "
                 f"increase {inc!r}, available {av!r})", hexcase(c),
                 {"b": hx(nb), "f": hx(nf)})
            break
        if over_f:
            fail(fails, f"C18:bump-feed-above-demand@{K_BUMP}{sfx}",
                 f"month {m}: feed raised to {nf[m]!r} above its demand {mf!r} (was {f!r}; excess {nf[m] - mf!r})",
                 hexcase(c), {"b": hx(nb), "f": hx(nf)})
            break
        if nb[m] > b + max(inc, 0.0) + tol(b + max(inc, 0.0)) or nf[m] > f + max(inc, 0.0) + tol(f + max(inc, 0.0)):
            fail(fails, f"C18:bump-beyond-requested-increase@{K_BUMP}{sfx}",
                 f"month {m}: biofuel {b!r}->{nb[m]!r} or feed {f!r}->{nf[m]!r} rose by more than the requested increase {inc!r}",
                 hexcase(c), {"b": hx(nb), "f": hx(nf)})
            break
    return n


def check_minneeds(c, keys, out, fails, doc_order, stats, sfx=""):
    n = c["N"]
    ser = c["series"]
    scale = max([abs(v) for a in ATTRS for v in ser[a][:n]] + [0.0])
    tol = tol_of(c, scale)
    if c.get("dyadic"):
        tol = lambda x: 1e-11 * max(1.0, abs(x))  # noqa: E731  (the ceiling K*pf/100 is not dyadic)
    cap = c["K"] * min(c["pf"], c["T"]) / 100.0
    nchk = 1
    if keys != doc_order:
        fail(fails, f"C18:min-needs-keys@{K_MIN}{sfx}", f"dictionary keys {keys} differ from the documented order", hexcase(c))
        return nchk
    for m in range(n):
        avail = [sum(ser[a][m] for a in AVAIL_OF[k]) for k in doc_order]
        got = [out[k][m] for k in doc_order]
        tot_a, tot = sum(avail), sum(got)
        want = min(cap, tot_a)
        nchk += 3
        if abs(tot - want) > tol(want) * 4:
            fail(fails, f"C18:min-needs-total@{K_MIN}{sfx}", f"month {m}: hand-off adds up to {tot!r}, expected "
                 f"min(ceiling {cap!r}, eaten in round 1 {tot_a!r})", hexcase(c), {k: hx(out[k]) for k in doc_order})
            return nchk
        if tot_a < cap * (1 - 1e-6):
            stats["months_below_ceiling"] += 1
            if sfx:
                # a real run: percent_people_fed is the worst month of round 1, so every month reaches the ceiling
                fail(fails, f"C18:min-needs-total-below-ceiling@{K_MIN}{sfx}", f"month {m}: round 1 ate {tot_a!r} in total, "
                     f"less than the ceiling {cap!r} = KCALS_DAILY * min(percent fed, threshold) / 100", hexcase(c))
                return nchk
        else:
            stats["months_at_ceiling"] += 1
        for k, a, g in zip(doc_order, avail, got):
            if g < -tol(scale) or g > a + tol(a) * 4:
                fail(fails, f"C18:min-needs-bound@{K_MIN}{sfx}", f"month {m}, {k}: hand-off {g!r} outside [0, {a!r}]",
                     hexcase(c), {kk: hx(out[kk]) for kk in doc_order})
                return nchk
        partial = False
        for k, a, g in zip(doc_order, avail, got):
            if partial and g > tol(scale) * 4:
                fail(fails, f"C18:min-needs-priority@{K_MIN}{sfx}", f"month {m}: {k} gets {g!r} although an earlier food "
                     "was not fully taken", hexcase(c), {kk: hx(out[kk]) for kk in doc_order})
                return nchk
            if g < a - tol(a) * 4:
                partial = True
    return nchk


# ------------------------------------------------------------------ drivers

def audit_case(p, c, fails, stats, doc_order):
    """run one generated / corpus case on the implementation and check its clauses; -> number of clause evaluations"""
    k = c["kind"]
    try:
        with quiet():
            r = run_case(p, hexcase(c))
    except BaseException as e:  # noqa
        malformed = (c.get("mode") == "malformed") or (k == "redist" and len(c["r1"]) != len(c["r2"]))
        if not malformed:
            fail(fails, f"C18:raised@{k}", f"helper raised {classify(e)}: {str(e)[:200]} on a well-formed input", hexcase(c))
        return 1
    if r.get("input_unchanged") is False:
        fail(fails, f"C18:operand-modified@{k}", "the helper modified its input array", hexcase(c))
    if k == "fill":
        return check_fill(c, unhex(r["out"]), fails)
    if k == "redist":
        return check_redist(c, None if r["out"] is None else unhex(r["out"]), fails)
    if k == "bump":
        return check_bump(c, unhex(r["b"]), unhex(r["f"]), fails, stats)
    if k == "minneeds":
        if c.get("mode") == "malformed":
            return 1
        return check_minneeds(c, r["keys"], {kk: unhex(v) for kk, v in r["out"].items()}, fails, doc_order, stats)
    return 0


def same(a, b):
    return len(a) == len(b) and all(x == y for x, y in zip(a, b))


def audit_lp_meat(r, tag, fails, pre):
    """what the round-2 (and round-3) OPTIMISER is handed for meat must be the re-timed supply of the same run:
    monthly series == output of the re-timing helper, cumulative cap == its running total, and both at or above
    what the no-feed round was handed, month by month"""
    lp = [x for x in r.get("lp_meat", []) if not x.get("capture_error")]
    rd = (r.get("redist") or [None])[-1]
    if rd is not None and rd["out"] is not None:
        moved = sum(1 for a, b in zip(unhex(rd["r2"]), unhex(rd["out"])) if a != b)
        pre["retiming_moved_meat_runs"] += 1 if moved else 0
        pre["retiming_months_changed"] += moved
    if len(lp) < 3 or rd is None or rd["out"] is None or [x["ty"] for x in lp[:3]] != ["to_humans", "to_animals", "to_humans"]:
        pre["lp_meat_not_comparable"] += 1
        return 0
    l1, l2, l3 = lp[0], lp[1], lp[2]
    if not (l1["add_meat"] and l2["add_meat"]):
        pre["lp_meat_not_comparable"] += 1
        return 0
    pre["lp_meat_compared"] += 1
    out = np.array(unhex(rd["out"]))
    mon2, run2 = np.array(unhex(l2["meat_monthly"])), np.array(unhex(l2["meat_running"]))
    mon1, run1 = np.array(unhex(l1["meat_monthly"])), np.array(unhex(l1["meat_running"]))
    cs = np.cumsum(out)
    scale = max(1.0, float(abs(cs[-1])))
    key = "C18:retimed-meat-not-handed-to-round2@compute_parameters_second_round"
    n = 5
    if len(mon2) != len(out) or float(np.max(np.abs(mon2 - out))) > 1e-12 * scale:
        fail(fails, key + ":monthly", "the monthly meat series the round-2 optimiser receives is not the re-timed series "
             f"(max difference {float(np.max(np.abs(mon2 - out))) if len(mon2) == len(out) else 'length'!r})", tag, real=tag)
    if len(run2) != len(out) or float(np.max(np.abs(run2 - cs))) > 1e-9 * scale:
        m = int(np.argmax(np.abs(run2 - cs))) if len(run2) == len(out) else -1
        fail(fails, key, "the cumulative meat cap the round-2 optimiser is bounded by is not the running total of the "
             f"re-timed monthly series returned by the re-timing helper in the same run (month {m}: cap "
             f"{float(run2[m])!r}, running total {float(cs[m])!r})", tag, real=tag)
    tot2 = unhex(l2["meat_total"])
    if abs(tot2 - float(cs[-1])) > 1e-9 * scale:
        fail(fails, key + ":total", f"total meat handed to round 2 {tot2!r} differs from the re-timed total {float(cs[-1])!r}",
             tag, real=tag)
    key2 = "C18:round2-meat-below-no-feed-level@compute_parameters_second_round"
    if len(run1) == len(run2):
        d = run2 - run1
        if float(np.min(d)) < -1e-9 * scale:
            m = int(np.argmin(d))
            fail(fails, key2, f"month {m}: cumulative meat handed to round 2 {float(run2[m])!r} is below the no-feed "
                 f"level {float(run1[m])!r}", tag, real=tag)
        d = mon2 - mon1
        if float(np.min(d)) < -1e-9 * scale:
            m = int(np.argmin(d))
            fail(fails, key2 + ":monthly", f"month {m}: meat handed to round 2 {float(mon2[m])!r} is below the no-feed "
                 f"level {float(mon1[m])!r}", tag, real=tag)
    if l3["add_meat"]:
        n += 1
        mon3, run3 = np.array(unhex(l3["meat_monthly"])), np.array(unhex(l3["meat_running"]))
        if len(mon3) != len(run3) or float(np.max(np.abs(np.cumsum(mon3) - run3))) > 1e-9 * max(1.0, float(abs(run3[-1]))):
            fail(fails, "C18:round3-meat-cap-inconsistent@compute_parameters_third_round",
                 "the cumulative meat cap handed to round 3 is not the running total of its monthly series", tag, real=tag)
    return n


def audit_increase(c, th, r, tag, fails, pre):
    """the `increase` argument of the real call = max0((meat3 - meat1)/2 * k - const) / k (exact fractions),
    meat1 / meat3 as handed to the round-1 / round-3 optimisers; b = the clipped round-2 biofuel total"""
    from fractions import Fraction as Fr
    key = "C18:topup-increase-differs-from-meat-gain@compute_parameters_third_round"
    m1, m3 = unhex(th["meat1"]), unhex(th["meat3"])
    lp = [x for x in r.get("lp_meat", []) if not x.get("capture_error")]
    if len(lp) >= 3 and lp[0].get("add_meat") and lp[2].get("add_meat"):
        h1, h3 = unhex(lp[0]["meat_monthly"]), unhex(lp[2]["meat_monthly"])
        if h1 != m1 or h3 != m3:
            fail(fails, key + ":meat-series", "monthly meat of round 1 / round 3 handed to the optimisers differs from the "
                 "series the top-up was computed from", tag, real=tag)
    k = Fr(10 ** 9) / Fr(unhex(th["days"])) / Fr(unhex(th["population"]))
    const = Fr(100 if th.get("country") == "NZL" else 20)
    pre["topup_calls"] += 1
    pre["topup_positive_months"] += sum(1 for v in c["inc"] if v > 0)
    if len(m1) != len(c["inc"]) or len(m3) != len(c["inc"]):
        fail(fails, key, "lengths of the meat series and of the requested increase differ", tag, real=tag)
        return 1
    for m, (a, b, got) in enumerate(zip(m1, m3, c["inc"])):
        x = (Fr(b) - Fr(a)) / 2 * k - const
        want = (x if x > 0 else Fr(0)) / k
        if abs(Fr(got) - want) > Fr(1, 10 ** 9) * abs(want) + Fr(1, 10 ** 12):
            fail(fails, key, f"month {m}: increase handed to increase_biofuels_then_feed is {got!r} billion kcals, the meat "
                 f"gain of the final round gives {float(want)!r} (meat3 {b!r}, meat1 {a!r}, population "
                 f"{unhex(th['population'])!r}, const {int(const)})", tag, real=tag)
            break
    if th.get("biofuel_round2") is not None and not same(th["biofuel_round2"], hx(c["b"])):
        fail(fails, "C18:handoff-identity@compute_parameters_third_round:biofuel-in",
             "the biofuel series entering the top-up is not the (clipped) round-2 biofuel total", tag, real=tag)
    return len(m1) + 1


PIN_KEYS = ["meat", "outdoor_crops", "stored_food", "methane_scp", "cellulosic_sugar", "seaweed"]


def audit_pins(r, tag, fails, pre, doc_order):
    """what the round-2 OPTIMISER receives as minimum human consumption (its pins, billion kcals per month) must be
    what the min-needs helper returned in the same run, food by food and month by month; and the clauses of the
    property (monthly total, bounds, priority) must hold on what is RECEIVED (fish, dairy and greenhouse are not
    optimiser variables: for them the helper's own figures are what reaches the optimiser as constants)"""
    lp = [x for x in r.get("lp_meat", []) if not x.get("capture_error")]
    mn = (r.get("minneeds") or [None])[-1]
    l2 = next((x for x in lp if x.get("ty") == "to_animals"), None)
    if mn is None or l2 is None or "out_bil" not in mn or not l2.get("pins"):
        pre["pins_not_comparable"] += 1
        return 0
    pre["pins_compared"] += 1
    key = "C18:min-needs-not-handed-to-round2@run_round_2"
    nm = mn["N"]
    helper = {k: np.array(unhex(v)) for k, v in mn["out_bil"].items()}
    avail_s = {a: np.array(unhex(v)) for a, v in mn["series_bil"].items()}
    scale = max([1.0] + [float(np.max(np.abs(v))) for v in helper.values() if len(v)])
    recv = {}
    n = 0
    for k in doc_order:
        if k in PIN_KEYS:
            got = np.array(unhex(l2["pins"][k]))
            n += 1
            if len(got) != len(helper[k]) or float(np.max(np.abs(got - helper[k]))) > 1e-9 * scale:
                m = int(np.argmax(np.abs(got - helper[k]))) if len(got) == len(helper[k]) else -1
                fail(fails, key, f"{k}, month {m}: the round-2 optimiser is handed a minimum of {float(got[m])!r} billion kcals, "
                     f"the min-needs helper returned {float(helper[k][m])!r}", tag, real=tag)
            recv[k] = got
        else:
            recv[k] = helper[k]
    if any(len(recv[k]) < nm for k in doc_order):
        return n
    f = unhex(mn["bil_per_daily"])
    cap = unhex(mn["K"]) * min(unhex(mn["pf"]), unhex(mn["T"])) / 100.0 * f
    for m in range(nm):
        avail = [sum(float(avail_s[a][m]) for a in AVAIL_OF[k]) for k in doc_order]
        got = [float(recv[k][m]) for k in doc_order]
        want = min(cap, sum(avail))
        n += 3
        if abs(sum(got) - want) > 1e-9 * max(1.0, scale, abs(want)):
            fail(fails, key + ":total", f"month {m}: what round 2 receives adds up to {sum(got)!r} billion kcals, expected "
                 f"min(ceiling {cap!r}, eaten in round 1 {sum(avail)!r})", tag, real=tag)
            break
        bad = [k for k, a, g in zip(doc_order, avail, got) if g < -1e-9 * scale or g > a + 1e-9 * max(1.0, scale)]
        if bad:
            fail(fails, key + ":bound", f"month {m}: received minimum of {bad[0]} outside [0, eaten in round 1]", tag, real=tag)
            break
        partial = None
        for k, a, g in zip(doc_order, avail, got):
            if partial and g > 1e-9 * max(1.0, scale):
                fail(fails, key + ":priority", f"month {m}: {k} is mandated ({g!r}) although the earlier food {partial} is "
                     "not fully mandated", tag, real=tag)
                return n
            if g < a - 1e-9 * max(1.0, scale) and partial is None:
                partial = k
    return n


def audit_real(real, fails, stats, doc_order):
    n = 0
    handoffs = 0
    pre = {"runs": 0, "bump_precondition_holds": 0, "inc_min": None, "round2_skipped": 0, "errors": 0,
           "retiming_moved_meat_runs": 0, "retiming_months_changed": 0, "lp_meat_compared": 0, "lp_meat_not_comparable": 0,
           "pins_compared": 0, "pins_not_comparable": 0, "topup_calls": 0, "topup_positive_months": 0}
    for r in real:
        tag = {"country": r["country"], "option": r.get("option", {}), "threshold": r.get("threshold")}
        pre["runs"] += 1
        if r.get("err"):
            pre["errors"] += 1
            continue
        for rec in r.get("redist", []):
            c = {"kind": "redist", "r1": unhex(rec["r1"]), "r2": unhex(rec["r2"]), "mode": "real", "real": tag}
            n += check_redist(c, None if rec["out"] is None else unhex(rec["out"]), fails, ":real")
            handoffs += 1
        for rec in r.get("minneeds", []):
            c = {"kind": "minneeds", "K": unhex(rec["K"]), "T": unhex(rec["T"]), "pf": unhex(rec["pf"]),
                 "Kconv": unhex(rec["Kconv"]), "N": rec["N"], "series": {a: unhex(rec["series"][a]) for a in ATTRS},
                 "mode": "real", "real": tag}
            n += check_minneeds(c, rec["keys"], {k: unhex(v) for k, v in rec["out"].items()}, fails, doc_order, stats, ":real")
            handoffs += 1
        sec = r.get("second") or {}
        if sec.get("skipped"):
            pre["round2_skipped"] += 1
        elif sec:
            n += 3
            handoffs += 1
            mn = r["minneeds"][-1]
            if not sec["min_is_helper_output"] or any(not same(sec["min"][k], mn["out"][k]) for k in mn["out"]):
                fail(fails, "C18:handoff-identity@compute_parameters_second_round:min",
                     "the minimum consumption returned to round 2 is not what the helper computed", tag)
            rd = r["redist"][-1]
            if rd["out"] is None or not same(sec["meat2"], rd["out"]):
                fail(fails, "C18:handoff-identity@compute_parameters_second_round:meat",
                     "round-2 monthly meat is not the re-timed series", tag)
            m2 = unhex(sec["meat2"])
            run2 = unhex(sec["running2"])
            cs = np.cumsum(m2)
            if len(run2) != len(m2) or np.max(np.abs(cs - np.array(run2))) > 1e-9 * max(1.0, float(cs[-1])):
                fail(fails, "C18:handoff-running-total@compute_parameters_second_round",
                     "cumulative meat cap of round 2 is not the running sum of the re-timed monthly meat", tag)
        n += audit_lp_meat(r, tag, fails, pre)
        n += audit_pins(r, tag, fails, pre, doc_order)
        th = r.get("third")
        for rec in r.get("bump", []):
            c = {k: unhex(rec[k]) for k in ("b", "f", "inc", "maxb", "maxf", "avail")}
            c.update({"kind": "bump", "mode": "real", "real": tag})
            scale = max(abs(v) for k in ("b", "f", "inc", "maxb", "maxf", "avail") for v in c[k])
            ok = all(in_domain(b, f, i, mb, mf, 1e-9 * max(1.0, scale)) for b, f, i, mb, mf in
                     zip(c["b"], c["f"], c["inc"], c["maxb"], c["maxf"]))
            pre["bump_precondition_holds"] += 1 if ok else 0
            mi = min(c["inc"])
            pre["inc_min"] = mi if pre["inc_min"] is None else min(mi, pre["inc_min"])
            n += check_bump(c, unhex(rec["nb"]), unhex(rec["nf"]), fails, stats, ":real")
            handoffs += 1
            if th and th.get("had_round1"):
                n += audit_increase(c, th, r, tag, fails, pre)
            if th:
                n += 3
                if not (same(th["feed"], rec["nf"]) and same(th["biofuel"], rec["nb"])):
                    fail(fails, "C18:handoff-identity@compute_parameters_third_round",
                         "feed/biofuel charged in round 3 are not the adjusted series", tag)
                if not (same(th["feed_demand"], rec["maxf"]) and same(th["biofuel_demand"], rec["maxb"])):
                    fail(fails, "C18:handoff-ceiling@compute_parameters_third_round",
                         "the ceilings given to increase_biofuels_then_feed are not the demand schedules", tag)
                nh = np.array(unhex(th["nonhuman"]))
                if np.max(np.abs(nh - (np.array(unhex(th["feed"])) + np.array(unhex(th["biofuel"]))))) > 1e-9 * max(1.0, scale):
                    fail(fails, "C18:handoff-nonhuman@compute_parameters_third_round",
                         "non-human consumption of round 3 is not feed + biofuel", tag)
    pre["handoffs"] = handoffs
    return n, pre


def run(payload):
    sys.path.insert(0, "/verif/harness")
    from props import c18 as gen
    from src.optimizer.parameters import Parameters
    p = Parameters()
    doc_order = payload["doc_order"]
    fails = []
    stats = {"out_of_domain_months": 0, "out_of_domain_exceedances": 0, "out_of_domain_example": None,
             "months_below_ceiling": 0, "months_at_ceiling": 0}
    if "replay" in payload:
        rep = payload["replay"]
        if isinstance(rep.get("case"), dict) and "kind" in rep["case"]:
            audit_case(p, plain(rep["case"]), fails, stats, doc_order)
        elif rep.get("real") or (isinstance(rep.get("case"), dict) and "country" in rep["case"]):
            import c18_impl
            tag = rep.get("real") or rep["case"]
            real = c18_impl.capture_real([{"country": tag["country"], "option": tag.get("option", {}),
                                            "threshold": tag.get("threshold")}])
            audit_real(real, fails, stats, doc_order)
        return {"failures": fails, "stats": stats}
    rng = random.Random(payload["seed"])
    n = payload["n"]
    evaluated = 0
    kinds = {"fill": 0, "redist": 0, "bump": 0, "minneeds": 0, "corpus": 0}
    nontrivial = 0
    for c in payload.get("corpus", []):
        evaluated += audit_case(p, plain(c), fails, stats, doc_order)
        kinds["corpus"] += 1
        nontrivial += 1
    for c in gen.boundary_minneeds(rng):
        kinds["minneeds"] += 1
        evaluated += audit_case(p, c, fails, stats, doc_order)
        nontrivial += 1
    for i in range(n):
        dyadic = rng.random() < 0.7
        r = i % 10
        if r < 3:
            c = gen.gen_fill(rng, dyadic)
        elif r < 5:
            c = gen.gen_redist(rng, dyadic)
        elif r < 9:
            c = gen.gen_bump(rng, dyadic, small=rng.random() < 0.6)
        else:
            c = gen.gen_minneeds(rng, dyadic)
        kinds[c["kind"]] += 1
        k = audit_case(p, c, fails, stats, doc_order)
        evaluated += k
        nontrivial += 1 if k > 1 else 0
        if len(fails) > 50:
            break
    rstats = {k: (None if k == "out_of_domain_example" else 0) for k in stats}
    nreal, pre = audit_real(payload.get("real", []), fails, rstats, doc_order)
    pre["stats"] = rstats
    evaluated += nreal
    return {"failures": fails[:30], "evaluated": evaluated, "cases": kinds, "distinct_nontrivial": nontrivial,
            "real_handoffs": pre.get("handoffs", 0), "real": pre, "stats": stats,
            "tolerances": "dyadic inputs: 1e-12 relative (1e-11 for the min-needs ceiling); floats: 1e-9 * max(1, scale)"}


if __name__ == "__main__":
    main_io(run)
