"""C05 implementation-side runner (executed by /venv/bin/python, cwd=/repo).

payload keys (all optional):
  direct : cases for MeatAndDairy / Parameters.calculate_meat_from_feed_results /
           calculate_non_meat_and_dairy_from_feed_results on fabricated herds
  feed   : cases for AnimalPopulation.feed_animals (one month of supplies)
  bump   : cases for Parameters.increase_biofuels_then_feed
  runs   : [{"iso3":..., "option":{...}}]  real three-round runs; CalculateFeedAndMeat.__init__,
           Parameters.init_meat_and_dairy_and_feed_from_breeding, compute_parameters_second/third_round,
           increase_biofuels_then_feed, Optimizer.__init__ and the two optimize_* methods are wrapped from here
           (no source hooks); every capture is audited by c05_audit.audit_capture in the same process
  nproc  : fork-pool size for runs
"""
import copy
import os
import sys
import traceback
import types

import numpy as np

from implutil import classify, main_io, quiet


def fl(x):
    return [float(v) for v in np.asarray(x, dtype=float).ravel().tolist()]


# ------------------------------------------------------------------ fabricated-herd cases

def mad_constants(c):
    n = int(c["NMONTHS"])
    d = {"ADD_MILK": bool(c["ADD_MILK"]), "ADD_MEAT": True, "NMONTHS": n,
         "HUMAN_INEDIBLE_FEED_BASELINE_MONTHLY": 4.0, "TONS_MILK_ANNUAL": 1200.0,
         "TONS_CHICKEN_AND_PORK_ANNUAL": 2400.0, "TONS_BEEF_ANNUAL": 3600.0, "INITIAL_MILK_CATTLE": 10.0,
         "INIT_SMALL_ANIMALS": 1000.0, "INIT_MEDIUM_ANIMALS": 100.0, "INIT_LARGE_ANIMALS_WITH_MILK_COWS": 50.0,
         "WASTE_DISTRIBUTION": {"MEAT": float(c["dist_meat"]), "MILK": float(c["dist_milk"])},
         "WASTE_RETAIL": float(c["retail"]),
         "KG_MEAT_PER_CHICKEN": float(c["kg_chicken"]), "KG_MEAT_PER_PIG": float(c["kg_pig"]),
         "MILK_YIELD_KG_PER_MILK_BEARING_ANIMAL_PER_YEAR": float(c["milk_yield"])}
    for i in range(1, n // 12 + 1):
        d["RATIO_GRASSES_YEAR" + str(i)] = 1.0
    if c.get("kg_large") is not None:
        d["kg_meat_per_large_animal"] = float(c["kg_large"])
    return d


def fake_herd(animals):
    from src.food_system.animal_populations import CalculateFeedAndMeat
    obj = object.__new__(CalculateFeedAndMeat)
    obj.all_animals = [types.SimpleNamespace(animal_type=a["type"], animal_size=a["size"],
                                             slaughter=list(a["slaughter"]), population=list(a["population"]))
                       for a in animals]
    return obj


def run_direct(cases):
    from src.food_system.meat_and_dairy import MeatAndDairy
    from src.optimizer.parameters import Parameters
    from src.food_system.food import Food
    Food.conversions.set_nutrition_requirements(kcals_daily=2100.0, fat_daily=47.0, protein_daily=51.0,
                                                include_fat=False, include_protein=False, population=1.0e7)
    out = []
    for c in cases:
        res = {}
        try:
            with quiet():
                ci = mad_constants(c)
                mad = MeatAndDairy(ci)
                mad.initialize_this_country_animal_kcals(ci)
                herd = fake_herd(c["herd"])
                p = Parameters()
                classes = herd.get_meat_produced()
                co, tc = p.calculate_meat_from_feed_results(ci, {}, {}, mad, herd)
                dairy = herd.get_total_milk_bearing_animals()
                co, tc = p.calculate_non_meat_and_dairy_from_feed_results(ci, co, tc, dairy, mad)
            res["yields"] = [float(mad.kcals_per_head_meat_dict[k]) for k in
                             ("KCALS_PER_CHICKEN", "KCALS_PER_PIG", "KCALS_PER_SMALL_ANIMAL",
                              "KCALS_PER_MEDIUM_ANIMAL", "KCALS_PER_LARGE_ANIMAL")]
            res["classes"] = [fl(x) for x in classes]
            res["dairy"] = fl(dairy)
            res["monthly"] = fl(tc["each_month_meat_slaughtered"].kcals)
            res["running"] = fl(tc["max_consumed_culled_kcals_each_month"])
            res["summed"] = float(co["meat_summed_consumption"])
            res["milk"] = fl(tc["milk_kcals"])
            # the single-month method on its own (first month), as the anchor names it
            k0 = [x[0] if len(x) else 0.0 for x in res["classes"]]
            res["month0"] = float(mad.calculate_meat_after_distribution_waste(ci, *k0)[0])
        except BaseException as e:
            res = {"err": classify(e), "msg": str(e)[:200]}
        out.append(res)
    return out


def run_feed(cases):
    from src.food_system.animal_populations import AnimalSpecies, AnimalPopulation
    from src.food_system.food import Food
    out = []
    for c in cases:
        try:
            animals, rum = [], []
            for i, e in enumerate(c["eaters"]):
                a = AnimalSpecies("t%d" % i, "s%d" % i)
                a.livestock_unit = float(e["lu"])
                a.LSU_factor = float(e["lsu_factor"])
                a.current_population = float(e["pop"])
                a.population_fed = 0
                a.digestion_efficiency = {"grass": float(e["eg"]), "feed": float(e["ef"])}
                animals.append(a)
                if e["ruminant"]:
                    rum.append(a)
            reqs = [float(a.net_energy_required_per_species()) for a in animals]
            with quiet():
                feed_left, grass_left = AnimalPopulation.feed_animals(
                    animals, rum, Food(float(c["feed"]), 0, 0), Food(float(c["grass"]), 0, 0))
            out.append({"reqs": reqs, "feed_left": float(feed_left.kcals), "grass_left": float(grass_left.kcals)})
        except BaseException as e:
            out.append({"err": classify(e), "msg": str(e)[:200]})
    return out


def run_bump(cases):
    from src.optimizer.parameters import Parameters
    p = Parameters()
    out = []
    for c in cases:
        try:
            with np.errstate(all="ignore"):
                b, f = p.increase_biofuels_then_feed(
                    np.array(c["biofuel"], dtype=float), np.array(c["feed"], dtype=float),
                    np.array(c["increase"], dtype=float), np.array(c["max_biofuel"], dtype=float),
                    np.array(c["max_feed"], dtype=float), np.array(c["total_crops"], dtype=float))
            out.append({"biofuel": fl(b), "feed": fl(f)})
        except BaseException as e:
            out.append({"err": classify(e), "msg": str(e)[:200]})
    return out


# ------------------------------------------------------------------ real runs

_TABLE = None


def table():
    global _TABLE
    if _TABLE is None:
        import pandas as pd
        _TABLE = pd.read_csv(os.path.join("data", "no_food_trade", "computer_readable_combined.csv"))
    return _TABLE


def redirect_results():
    work = os.environ.get("VERIF_WORK")
    if not work:
        return
    os.makedirs(os.path.join(work, "results"), exist_ok=True)
    import src.optimizer.interpret_results as ir
    import src.scenarios.run_scenario as rs
    ir.repo_root = work
    rs.repo_root = work


def herd_json(h):
    return {"animals": [{"type": str(a.animal_type), "size": str(a.animal_size), "slaughter": fl(a.slaughter),
                         "population": fl(a.population)} for a in h.all_animals],
            "avail_feed": fl(h._verif_avail_feed), "avail_grass": fl(h._verif_avail_grass),
            "feed_used": fl(h.feed_used.kcals), "grass_used": fl(h.grass_used.kcals)}


class Capture:
    """wraps the observation points; self.events is the ordered log of one run"""

    def __init__(self):
        self.herds = []      # CalculateFeedAndMeat objects in construction order
        self.events = []
        self.orig = []

    def patch(self, owner, name, new):
        self.orig.append((owner, name, getattr(owner, name)))
        setattr(owner, name, new)

    def __enter__(self):
        import src.food_system.animal_populations as ap
        from src.optimizer.optimizer import Optimizer
        from src.optimizer.parameters import Parameters
        cap = self
        o_init = ap.CalculateFeedAndMeat.__init__

        def herd_init(self_, country_code, available_feed, available_grass, scenario, kcals_per_head_meat_dict,
                      constants_inputs=None):
            self_._verif_avail_feed = fl(available_feed.kcals)
            self_._verif_avail_grass = fl(available_grass.kcals)
            o_init(self_, country_code, available_feed, available_grass, scenario, kcals_per_head_meat_dict,
                   constants_inputs=constants_inputs)
            self_._verif_yields = dict(kcals_per_head_meat_dict)
            cap.herds.append(self_)
            cap.events.append({"ev": "herd", "herd": len(cap.herds) - 1})
        self.patch(ap.CalculateFeedAndMeat, "__init__", herd_init)

        o_imd = Parameters.init_meat_and_dairy_and_feed_from_breeding

        def imd(self_, constants_inputs, feed_meat_object, *a, **k):
            idx = [i for i, h in enumerate(cap.herds) if h is feed_meat_object]
            cap.events.append({"ev": "imd", "herd": idx[0] if idx else -1})
            return o_imd(self_, constants_inputs, feed_meat_object, *a, **k)
        self.patch(Parameters, "init_meat_and_dairy_and_feed_from_breeding", imd)

        o_r2 = Parameters.compute_parameters_second_round

        def r2(self_, *a, **k):
            res = o_r2(self_, *a, **k)
            cap.events.append({"ev": "round2_params", "aborted": all(x is None for x in res)})
            return res
        self.patch(Parameters, "compute_parameters_second_round", r2)

        o_bump = Parameters.increase_biofuels_then_feed

        def bump(self_, biofuel, feed, increase, max_biofuel, max_feed, total_crops_available):
            rec = {"ev": "bump", "biofuel": fl(biofuel), "feed": fl(feed), "increase": fl(increase),
                   "max_biofuel": fl(max_biofuel), "max_feed": fl(max_feed), "total_crops": fl(total_crops_available)}
            res = o_bump(self_, biofuel, feed, increase, max_biofuel, max_feed, total_crops_available)
            rec["out_biofuel"], rec["out_feed"] = fl(res[0]), fl(res[1])
            cap.events.append(rec)
            return res
        self.patch(Parameters, "increase_biofuels_then_feed", bump)

        o_r3 = Parameters.compute_parameters_third_round

        def r3(self_, constants_inputs, constants_out_round1, constants_out_round2, time_consts_round1,
               time_consts_round2, interpreted_results_round1, interpreted_results_round2, feed_and_biofuels_class,
               feed_demand, biofuels_demand, feed_meat_object_round1):
            rec = {"ev": "round3_params", "tc2_present": time_consts_round2 is not None,
                   "ir1_present": interpreted_results_round1 is not None,
                   "demand_zero": bool(feed_demand.all_equals_zero() and biofuels_demand.all_equals_zero()),
                   "any_resource": bool(constants_inputs["ADD_STORED_FOOD"] or constants_inputs["ADD_OUTDOOR_GROWING"]
                                        or constants_inputs["ADD_SEAWEED"] or constants_inputs["ADD_CELLULOSIC_SUGAR"]
                                        or constants_inputs["ADD_METHANE_SCP"]),
                   "feed_demand": fl(feed_demand.in_units_bil_kcals_thou_tons_thou_tons_per_month().kcals)}
            if time_consts_round2 is not None:
                rec["feed2_billion"] = fl(
                    interpreted_results_round2.feed_sum_kcals_equivalent
                    .in_units_bil_kcals_thou_tons_thou_tons_per_month().kcals)
            cap.events.append(rec)
            res = o_r3(self_, constants_inputs, constants_out_round1, constants_out_round2, time_consts_round1,
                       time_consts_round2, interpreted_results_round1, interpreted_results_round2,
                       feed_and_biofuels_class, feed_demand, biofuels_demand, feed_meat_object_round1)
            rec["charge"] = fl(res[1]["feed"].kcals)
            rec["biofuel_charge"] = fl(res[1]["biofuel"].kcals)
            return res
        self.patch(Parameters, "compute_parameters_third_round", r3)

        o_oinit = Optimizer.__init__

        def oinit(self_, consts, tc):
            inp = consts["inputs"]
            rec = {"ev": "opt", "ty": "?",
                   "monthly": fl(tc["each_month_meat_slaughtered"].kcals),
                   "monthly_units": str(tc["each_month_meat_slaughtered"].kcals_units),
                   "running": fl(tc["max_consumed_culled_kcals_each_month"]),
                   "summed": float(consts["meat_summed_consumption"]),
                   "milk": fl(tc["milk_kcals"]), "feed": fl(tc["feed"].kcals),
                   "nmonths": int(consts["NMONTHS"]),
                   "kg_chicken": float(inp["KG_MEAT_PER_CHICKEN"]), "kg_pig": float(inp["KG_MEAT_PER_PIG"]),
                   "kg_large": (float(inp["kg_meat_per_large_animal"]) if "kg_meat_per_large_animal" in inp else None),
                   "dist_meat": float(inp["WASTE_DISTRIBUTION"]["MEAT"]),
                   "dist_milk": float(inp["WASTE_DISTRIBUTION"]["MILK"]), "retail": float(inp["WASTE_RETAIL"]),
                   "add_milk": bool(inp["ADD_MILK"]), "add_meat": bool(inp["ADD_MEAT"]),
                   "milk_yield": float(inp["MILK_YIELD_KG_PER_MILK_BEARING_ANIMAL_PER_YEAR"]),
                   "breeding": str(inp.get("BREEDING_STRATEGY"))}
            self_._verif_rec = rec
            cap.events.append(rec)
            o_oinit(self_, consts, tc)
        self.patch(Optimizer, "__init__", oinit)

        def tag(name, ty):
            orig = getattr(Optimizer, name)

            def f(self_, *a, **k):
                if hasattr(self_, "_verif_rec"):
                    self_._verif_rec["ty"] = ty
                return orig(self_, *a, **k)
            self.patch(Optimizer, name, f)
        tag("optimize_to_humans", "to_humans")
        tag("optimize_feed_to_animals", "to_animals")
        return self

    def __exit__(self, *a):
        for owner, name, orig in reversed(self.orig):
            setattr(owner, name, orig)
        return False

    def result(self):
        return {"herds": [herd_json(h) for h in self.herds], "events": self.events}


def country_data_of(iso3, opt):
    from src.scenarios.run_model_no_trade import ScenarioRunnerNoTrade
    country_data = None
    for _, row in table().iterrows():   # exactly as run_model_no_trade does (python floats, not np.float64 cells)
        if row["iso3"] == iso3:
            country_data = row
            break
    if country_data is None:
        raise KeyError(iso3)
    r = ScenarioRunnerNoTrade()
    country_data = r.apply_custom_parameters(country_data, opt)
    r.verify_country_data(country_data)
    return r, country_data


def plain_run(job):
    opt = copy.deepcopy(job["option"])
    r, country_data = country_data_of(job["iso3"], opt)
    try:
        r.run_optimizer_for_country(country_data, opt, False, False, False,
                                    title="c05p_%s_%d" % (job["iso3"], os.getpid()))
    finally:
        try:
            os.remove("model.json")
        except OSError:
            pass


def one_run(job):
    """job = {"iso3", "option"} -> {"capture" | "err", "audit": [...]}"""
    import c05_audit
    from src.scenarios.run_model_no_trade import ScenarioRunnerNoTrade
    opt = copy.deepcopy(job["option"])
    out = {"iso3": job["iso3"], "option": job["option"]}
    try:
        # the run's per-head / per-animal yields as the country table ROW and the scenario OPTION give them
        # (read here from the csv and the option dict, not from anything MeatAndDairy or the option layer stored)
        trow = table()[table()["iso3"] == job["iso3"]].iloc[0]

        def row_or_option(key):
            return float(job["option"][key]) if key in job["option"] else float(trow[key])
        row = {"kg_chicken": row_or_option("kg_meat_per_chicken"), "kg_pig": row_or_option("kg_meat_per_pig"),
               "milk_yield": row_or_option("milk_yield_kg_per_milk_bearing_animal_per_year"),
               "kg_large": (float(job["option"]["kg_meat_per_large_animal"])
                            if "kg_meat_per_large_animal" in job["option"] else None)}
        r, country_data = country_data_of(job["iso3"], opt)
        for pj in job.get("prelude", []):
            # earlier runs executed in THIS process, uncaptured: anything they leave behind (module-level state)
            # must not influence the run under audit
            try:
                with quiet():
                    plain_run(pj)
            except BaseException:
                pass
        with Capture() as cap:
            try:
                with quiet():
                    needs, _d, _i = r.run_optimizer_for_country(country_data, opt, False, False, False,
                                                                 title="c05_%s_%d" % (job["iso3"], os.getpid()))
                out["percent_fed"] = float(needs) * 100
            except BaseException as e:  # a run that dies half way still offered something to the rounds it reached
                out["run_err"] = classify(e) + ": " + str(e)[:200]
            out["capture"] = cap.result()
            out["capture"]["row"] = row
        out["audit"] = c05_audit.audit_capture(out["capture"], complete="run_err" not in out)
    except BaseException as e:
        out["err"] = classify(e) + ": " + str(e)[:300] + " | " + traceback.format_exc()[-600:]
    finally:
        try:
            os.remove("model.json")
        except OSError:
            pass
    return out


def run_runs(jobs, nproc):
    """the parent process never simulates anything itself: every job runs in a forked worker.
    Jobs with a "prelude" (earlier runs executed first in the same worker process) are additionally executed ALONE in
    a fresh process (maxtasksperchild=1); the two captures must agree (c05_audit.compare_with_solo)."""
    redirect_results()
    # warm imports before forking
    import src.scenarios.run_model_no_trade  # noqa: F401
    import c05_audit
    table()
    import multiprocessing as mp
    ctx = mp.get_context("fork")
    solo_idx = [i for i, j in enumerate(jobs) if j.get("prelude")]
    solo_jobs = [{"iso3": jobs[i]["iso3"], "option": jobs[i]["option"]} for i in solo_idx]
    with ctx.Pool(max(1, min(nproc, len(jobs)))) as pool:
        res = pool.map(one_run, jobs, chunksize=1)
    if solo_jobs:
        with ctx.Pool(max(1, min(nproc, len(solo_jobs))), maxtasksperchild=1) as pool:
            solos = pool.map(one_run, solo_jobs, chunksize=1)
        for i, solo in zip(solo_idx, solos):
            r = res[i]
            if "capture" in r and "capture" in solo:
                extra = c05_audit.compare_with_solo(r["capture"], solo["capture"])
                r["audit"]["failures"] = extra + r["audit"]["failures"]
                r["audit"]["stats"]["compared_with_solo"] = True
            else:
                r.setdefault("audit", {"failures": [], "stats": {}})["stats"]["compared_with_solo"] = False
    for j, r in zip(jobs, res):
        if j.get("audit_only"):
            r.pop("capture", None)
    return res


def run(payload):
    res = {}
    if "direct" in payload:
        res["direct"] = run_direct(payload["direct"])
    if "feed" in payload:
        res["feed"] = run_feed(payload["feed"])
    if "bump" in payload:
        res["bump"] = run_bump(payload["bump"])
    if "runs" in payload:
        res["runs"] = run_runs(payload["runs"], int(payload.get("nproc", 1)))
    return res


if __name__ == "__main__":
    main_io(run)
