"""C05 direct audit (no Coq model involved): the property evaluated on what the implementation did.

audit_capture(capture) recomputes, with exact Fractions and formulas written from the property text, the meat and milk
energy that the captured herd simulations imply and compares them with what each Optimizer was handed; it also checks
feed charged >= feed eaten (final round), grass/feed used <= available (every herd), zero charge -> herd ate nothing.
audit_direct(case, res) does the meat/milk part for a fabricated herd.

Standalone (replay):  c05_audit.py in.json out.json  with {"replay": {...}}."""
from fractions import Fraction as F

REL = F(1, 10 ** 9)

# per-kg energy and carcass weights, as the property's "per-head yields" (documented in meat_and_dairy.py)
KCAL_PER_KG = {"small": F(1525), "medium": F(3590), "large": F(2750)}
KG = {"small": F("2.36"), "medium": F("24.6"), "large": F("269.7")}
MILK_KCAL_PER_KG = F(610)


def per_head(animal_type, size, kg_chicken, kg_pig, kg_large):
    """billion kcals per slaughtered head; None when the species has no yield class"""
    if animal_type == "chicken":
        return F(kg_chicken) * KCAL_PER_KG["small"] / 10 ** 9
    if animal_type == "pig":
        return F(kg_pig) * KCAL_PER_KG["medium"] / 10 ** 9
    if size == "large":
        kg = F(kg_large) if kg_large is not None else KG["large"]
        return kg * KCAL_PER_KG["large"] / 10 ** 9
    if size in ("small", "medium"):
        return KG[size] * KCAL_PER_KG[size] / 10 ** 9
    return None


def herd_meat(animals, p):
    """exact monthly meat energy after distribution waste implied by the herd lists"""
    n = len(animals[0]["slaughter"])
    keep = 1 - F(p["dist_meat"]) / 100
    monthly = [F(0)] * n
    noclass = []
    for a in animals:
        y = per_head(a["type"], a["size"], p["kg_chicken"], p["kg_pig"], p.get("kg_large"))
        if y is None:
            if any(v != 0 for v in a["slaughter"]):
                noclass.append(a["type"])
            continue
        for m in range(n):
            monthly[m] += F(a["slaughter"][m]) * y * keep
    return monthly, noclass


def herd_milk(animals, p):
    n = len(animals[0]["population"])
    if not p["add_milk"]:
        return [F(0)] * n
    keep = (1 - F(p["dist_milk"]) / 100) * (1 - F(p["retail"]) / 100)
    out = [F(0)] * n
    for a in animals:
        if "milk" in a["type"]:
            for m in range(n):
                kg_month = F(a["population"][m]) * F(p["milk_yield"]) / 12
                out[m] += kg_month * MILK_KCAL_PER_KG / 10 ** 9 * keep
    return out


def near(obs, exact, scale=F(0)):
    return abs(F(obs) - exact) <= REL * max(abs(exact), scale * F(1, 1000), F(1, 10 ** 6))


def cum(xs):
    out, s = [], F(0)
    for x in xs:
        s += x
        out.append(s)
    return out


def cmp_series(fails, kind, rnd, obs, exact, extra=None):
    if len(obs) != len(exact):
        fails.append({"kind": kind, "round": rnd, "what": f"length {len(obs)} offered, herd has {len(exact)} months"})
        return
    scale = max([abs(x) for x in exact] + [F(0)])
    for m, (o, e) in enumerate(zip(obs, exact)):
        if not near(o, e, scale):
            d = {"kind": kind, "round": rnd, "month": m, "offered": float(o), "required": float(e),
                 "what": f"{kind}: round {rnd} month {m}: optimiser was given {float(o)!r}, herd lists imply {float(e)!r}"}
            if extra:
                d.update(extra)
            fails.append(d)
            return


def audit_meat_milk(fails, rnd, ty, opt, animals, stats):
    p = opt
    monthly, noclass = herd_meat(animals, p)
    if noclass:
        fails.append({"kind": "species-without-yield", "round": rnd, "what": f"slaughtered {noclass} carry no per-head yield"})
    total = sum(monthly, F(0))
    milk = herd_milk(animals, p)
    offered_total = sum((F(x) for x in opt["monthly"]), F(0))
    if ty == "to_animals":
        # slaughter is deliberately re-timed: totals only
        if not near(offered_total, total, total):
            fails.append({"kind": "meat-total-round2", "round": rnd, "offered": float(offered_total), "required": float(total),
                          "what": f"feed-maximising round: monthly meat sums to {float(offered_total)!r}, herd total {float(total)!r}"})
        if not near(sum((F(x) for x in opt["milk"]), F(0)), sum(milk, F(0))):
            fails.append({"kind": "milk-total-round2", "round": rnd,
                          "what": "feed-maximising round: milk total differs from the herd's"})
        stats["retimed_months"] = stats.get("retimed_months", 0) + sum(
            1 for o, e in zip(opt["monthly"], monthly) if not near(o, e, total))
    else:
        cmp_series(fails, "meat-monthly", rnd, opt["monthly"], monthly)
        cmp_series(fails, "milk-monthly", rnd, opt["milk"], milk)
    # in every round: running = cumulative sum of what is offered monthly, summed = herd total
    cmp_series(fails, "meat-running", rnd, opt["running"], cum([F(x) for x in opt["monthly"]]))
    if not near(opt["summed"], total, total):
        fails.append({"kind": "meat-summed", "round": rnd, "offered": opt["summed"], "required": float(total),
                      "what": f"meat_summed_consumption {opt['summed']!r} but the herd's total is {float(total)!r}"})
    if opt["running"] and not near(opt["running"][-1], total, total):
        fails.append({"kind": "meat-running-last", "round": rnd,
                      "what": f"last running total {opt['running'][-1]!r} differs from the herd total {float(total)!r}"})
    stats["meat_nonzero_rounds"] = stats.get("meat_nonzero_rounds", 0) + (1 if total != 0 else 0)
    stats["milk_nonzero_rounds"] = stats.get("milk_nonzero_rounds", 0) + (1 if any(x != 0 for x in milk) else 0)


def audit_herd_supplies(fails, hi, h):
    for m, (u, a) in enumerate(zip(h["grass_used"], h["avail_grass"])):
        if u > a:
            fails.append({"kind": "grass-overeaten", "herd": hi, "month": m, "what": f"herd {hi} month {m}: grass eaten {u!r} > available {a!r}"})
            break
    for m, (u, a) in enumerate(zip(h["feed_used"], h["avail_feed"])):
        if u > a:
            fails.append({"kind": "feed-overeaten", "herd": hi, "month": m, "what": f"herd {hi} month {m}: feed eaten {u!r} > available {a!r}"})
            break
    if len(h["grass_used"]) != len(h["avail_grass"]) or len(h["feed_used"]) != len(h["avail_feed"]):
        fails.append({"kind": "supply-length", "herd": hi, "what": "used/available series differ in length"})


def audit_capture(cap, complete=True):
    fails, stats = [], {}
    herds, events = cap["herds"], cap["events"]
    for hi, h in enumerate(herds):
        audit_herd_supplies(fails, hi, h)
    cur = None          # herd index written into time_consts by the latest init_meat_and_dairy_and_feed_from_breeding
    rnd = 0
    aborted = False
    r3 = None
    opts = []
    for ev in events:
        if ev["ev"] == "imd":
            cur = ev["herd"]
        elif ev["ev"] == "round2_params":
            aborted = ev["aborted"]
        elif ev["ev"] == "round3_params":
            r3 = ev
            r3["herd"] = None
        elif ev["ev"] == "opt":
            rnd += 1
            if cur is None or cur < 0:
                fails.append({"kind": "no-herd", "round": rnd, "what": "optimiser built before any herd simulation"})
                continue
            h = herds[cur]
            opts.append((rnd, ev, cur))
            p = dict(ev)
            if cap.get("row"):
                # yields of the country row / scenario option, NOT what the code stored in its constants
                p.update(cap["row"])
            audit_meat_milk(fails, rnd, ev["ty"], p, h["animals"], stats)
            if ev["ty"] == "to_humans" and all(x == 0 for x in ev["feed"]):
                stats["zero_charge_rounds"] = stats.get("zero_charge_rounds", 0) + 1
                if any(x != 0 for x in h["feed_used"]):
                    fails.append({"kind": "zero-charge-herd-fed", "round": rnd,
                                  "what": f"round {rnd} charges no feed but its herds ate {sum(h['feed_used'])!r} billion kcals"})
                if any(x != 0 for x in h["avail_feed"]):
                    stats["zero_charge_but_feed_offered_to_herd"] = stats.get("zero_charge_but_feed_offered_to_herd", 0) + 1
    # the final round
    if r3 is not None and opts:
        last_rnd, last_opt, last_h = opts[-1]
        # the herd the final round used is the one of the last imd event (cur)
        h = herds[cur]
        charge = r3.get("charge")
        if charge is not None:
            for m, (c, e) in enumerate(zip(charge, h["feed_used"])):
                if c < e:
                    fails.append({"kind": "feed-undercharged", "month": m, "charged": c, "eaten": e,
                                  "what": f"final round month {m}: feed charged {c!r} < feed eaten by the herds {e!r}"})
                    break
            if len(charge) != len(h["feed_used"]):
                fails.append({"kind": "feed-length", "what": "charge and eaten series differ in length"})
            if last_opt["ty"] == "to_humans" and last_opt["feed"] != charge:
                fails.append({"kind": "charge-not-offered", "what": "time_consts_round3['feed'] differs from the optimiser's"})
            stats["bumped_months"] = sum(1 for c, e in zip(charge, h["feed_used"]) if c > e)
            stats["fed_months_round3"] = sum(1 for e in h["feed_used"] if e > 0)
        # decision tree
        expect_present = r3["any_resource"] and not r3["demand_zero"] and not aborted
        if r3["tc2_present"] != expect_present:
            fails.append({"kind": "round-tree", "what": f"round-2 constants present={r3['tc2_present']} but resources={r3['any_resource']} "
                                                         f"zero-demand={r3['demand_zero']} round-2-aborted={aborted}"})
        if not r3["tc2_present"]:
            stats["skip_branch"] = "no-round-1" if not r3["ir1_present"] else "round-2-aborted"
            if cur != 0:
                fails.append({"kind": "round-tree-herd", "what": "skip branch did not reuse the zero-feed herd of round 1"})
            if any(x != 0 for x in h["avail_feed"]):
                fails.append({"kind": "skip-branch-herd-fed", "what": "skip branch: the reused herd was run on non-zero feed"})
            if charge is not None and any(x != 0 for x in charge):
                fails.append({"kind": "skip-branch-charge", "what": f"skip branch charges feed {sum(charge)!r} although no feed round was run"})
        else:
            stats["skip_branch"] = "none"
            f2 = r3.get("feed2_billion")
            if f2 is not None:
                for m, (a, x) in enumerate(zip(h["avail_feed"], f2)):
                    if abs(a - x * 0.999999999) > 1e-12 * max(1.0, abs(x)):
                        fails.append({"kind": "round3-herd-feed", "month": m,
                                      "what": f"final-round herd month {m} was run on feed {a!r}, round 2 allocated {x!r}"})
                        break
    stats["rounds"] = rnd
    stats["herds"] = len(herds)
    if complete and rnd not in (1, 2, 3):
        fails.append({"kind": "round-count", "what": f"{rnd} optimiser rounds"})
    return {"failures": fails, "stats": stats}


def compare_with_solo(cap, solo):
    """cap: a run executed after other runs in the same process; solo: the same run alone in a fresh process.
    Every herd simulation and everything offered to the optimisers must be the same: the herds of a round are the
    simulation of THAT round's inputs."""
    fails = []

    def same(a, b):
        return len(a) == len(b) and all(abs(x - y) <= 1e-9 * max(1.0, abs(x), abs(y)) for x, y in zip(a, b))

    def first_diff(a, b):
        for m, (x, y) in enumerate(zip(a, b)):
            if abs(x - y) > 1e-9 * max(1.0, abs(x), abs(y)):
                return m, x, y
        return -1, len(a), len(b)
    if len(cap["herds"]) != len(solo["herds"]):
        fails.append({"kind": "herd-stale", "what": f"{len(cap['herds'])} herd simulations after earlier runs, "
                                                    f"{len(solo['herds'])} when run alone"})
        return fails
    for hi, (h, g) in enumerate(zip(cap["herds"], solo["herds"])):
        for key in ("avail_feed", "avail_grass"):
            if not same(h[key], g[key]):
                # the INPUTS differ: the run itself is not reproducible (not this property's business) - stop here
                return fails
        for key in ("grass_used", "feed_used"):
            if not same(h[key], g[key]):
                m, x, y = first_diff(h[key], g[key])
                fails.append({"kind": "herd-stale", "herd": hi, "month": m,
                              "what": f"herd {hi} {key} month {m}: {x!r} after earlier runs in the process, {y!r} when the "
                                      f"same run is executed alone (same feed and grass offered): the herds are not the "
                                      f"simulation of this run's inputs"})
                return fails
        if [a["type"] for a in h["animals"]] != [a["type"] for a in g["animals"]]:
            fails.append({"kind": "herd-stale", "herd": hi, "what": f"herd {hi}: species order differs from the solo run"})
            return fails
        for a, b in zip(h["animals"], g["animals"]):
            for key in ("slaughter", "population"):
                if not same(a[key], b[key]):
                    m, x, y = first_diff(a[key], b[key])
                    fails.append({"kind": "herd-stale", "herd": hi, "month": m,
                                  "what": f"herd {hi} {a['type']} {key} month {m}: {x!r} after earlier runs, {y!r} alone"})
                    return fails
    oa = [e for e in cap["events"] if e["ev"] == "opt"]
    ob = [e for e in solo["events"] if e["ev"] == "opt"]
    for k, (x, y) in enumerate(zip(oa, ob)):
        for key in ("monthly", "milk", "running"):
            if not same(x[key], y[key]):
                m, u, v = first_diff(x[key], y[key])
                fails.append({"kind": "offer-stale", "round": k + 1, "month": m,
                              "what": f"round {k + 1} {key} month {m}: optimiser given {u!r} after earlier runs, {v!r} alone"})
                return fails
    return fails


def audit_direct(case, res):
    """fabricated herd: meat/milk formulas evaluated exactly vs what the implementation produced"""
    fails = []
    if "err" in res:
        return fails
    p = {"kg_chicken": case["kg_chicken"], "kg_pig": case["kg_pig"], "kg_large": case.get("kg_large"),
         "dist_meat": case["dist_meat"], "dist_milk": case["dist_milk"], "retail": case["retail"],
         "add_milk": case["ADD_MILK"], "milk_yield": case["milk_yield"]}
    animals = case["herd"]
    # the real code lets the LAST chicken / pig entry win; the audit follows the property text (every head counts),
    # so duplicated chicken/pig entries are outside the audited domain
    types_ = [a["type"] for a in animals]
    if types_.count("chicken") > 1 or types_.count("pig") > 1:
        return fails
    monthly, noclass = herd_meat(animals, p)
    cmp_series(fails, "meat-monthly", 0, res["monthly"], monthly)
    cmp_series(fails, "meat-running", 0, res["running"], cum(monthly))
    total = sum(monthly, F(0))
    if not near(res["summed"], total, total):
        fails.append({"kind": "meat-summed", "round": 0, "what": f"meat_summed_consumption {res['summed']!r} vs exact {float(total)!r}"})
    cmp_series(fails, "milk-monthly", 0, res["milk"], herd_milk(animals, p))
    if monthly and not near(res["month0"], monthly[0], total):
        fails.append({"kind": "meat-month0", "round": 0, "what": "calculate_meat_after_distribution_waste(month 0) differs"})
    return fails


def replay_main(payload):
    import c05_impl
    rep = payload["replay"]
    if "iso3" in rep:
        job = {"iso3": rep["iso3"], "option": rep["option"], "audit_only": True}
        if rep.get("prelude"):
            job["prelude"] = rep["prelude"]
        r = c05_impl.run_runs([job], 2)[0]
        fl_ = r.get("audit", {}).get("failures", [])
        if "err" in r:
            fl_ = fl_ + [{"kind": "run-crashed", "what": r["err"]}]
        return {"failures": fl_, "stats": r.get("audit", {}).get("stats")}
    if "direct_case" in rep:
        res = c05_impl.run_direct([rep["direct_case"]])[0]
        return {"failures": audit_direct(rep["direct_case"], res), "observed": res}
    if "feed_case" in rep:
        return {"failures": [], "observed": c05_impl.run_feed([rep["feed_case"]])[0]}
    if "bump_case" in rep:
        return {"failures": [], "observed": c05_impl.run_bump([rep["bump_case"]])[0]}
    return {"failures": [], "note": "nothing to re-execute"}


if __name__ == "__main__":
    from implutil import main_io
    main_io(replay_main)
