"""Implementation-side helpers (run under /venv/bin/python, cwd=/repo)."""
import json
import math
import os
import sys
import io
import contextlib

import numpy as np


def classify(exc):
    if isinstance(exc, AssertionError):
        return "AssertRejected"
    if isinstance(exc, (TypeError, AttributeError)):
        return "TypeRejected"
    if isinstance(exc, (ValueError, KeyError, IndexError, ZeroDivisionError)):
        return "ValueRejected"
    if isinstance(exc, SystemExit):
        return "Exit"
    return "Other:" + type(exc).__name__


def tolist(x):
    if isinstance(x, np.ndarray):
        return [float(v) for v in x.tolist()]
    if isinstance(x, (list, tuple)):
        return [float(v) for v in x]
    return float(x)


def food_json(f):
    monthly = f.is_list_monthly()
    return {"monthly": bool(monthly), "kcals": tolist(f.kcals), "fat": tolist(f.fat), "protein": tolist(f.protein),
            "ku": f.kcals_units, "fu": f.fat_units, "pu": f.protein_units, "units": list(f.units)}


def finite(x):
    if isinstance(x, list):
        return all(finite(v) for v in x)
    return not (math.isnan(x) or math.isinf(x))


@contextlib.contextmanager
def quiet():
    so = sys.stdout
    sys.stdout = io.StringIO()
    try:
        yield
    finally:
        sys.stdout = so


def main_io(fn):
    inp, outp = sys.argv[1], sys.argv[2]
    payload = json.load(open(inp))
    res = fn(payload)
    with open(outp, "w") as f:
        json.dump(res, f)
