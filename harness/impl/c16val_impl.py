"""C16 (c) correspondence: call the REAL Validator methods of src/optimizer/validate_results.py on generated inputs and
report what each call did ("pass", "AssertRejected", ...; for the print-only check whether anything was printed).
Stub interpreter objects carry real Food objects; the constraint check gets a real (unsolved) PuLP model whose variables
have been given values.  JSON in -> JSON out; floats travel as float.hex() strings."""
import contextlib
import io
import sys
import types

import numpy as np
from implutil import classify, main_io

PCT = ("percent people fed each month",) * 3
BK = ("billion kcals each month", "thousand tons each month", "thousand tons each month")


def unhex(x):
    if isinstance(x, list):
        return [unhex(v) for v in x]
    return float.fromhex(x) if isinstance(x, str) else float(x)


@contextlib.contextmanager
def captured():
    so, buf = sys.stdout, io.StringIO()
    sys.stdout = buf
    try:
        yield buf
    finally:
        sys.stdout = so


def food(kcals, units, fat=None, protein=None):
    from src.food_system.food import Food
    k = np.array(kcals, dtype=float)
    f = np.zeros(len(k)) if fat is None else np.array(fat, dtype=float)
    p = np.zeros(len(k)) if protein is None else np.array(protein, dtype=float)
    return Food(kcals=k, fat=f, protein=p, kcals_units=units[0], fat_units=units[1], protein_units=units[2])


def settings(s, include_fat=False, include_protein=False):
    from src.food_system.food import Food
    Food.conversions.set_nutrition_requirements(kcals_daily=unhex(s["kcals_daily"]), fat_daily=unhex(s["fat_daily"]),
                                                protein_daily=unhex(s["protein_daily"]), include_fat=include_fat,
                                                include_protein=include_protein, population=unhex(s["population"]))


DEFAULT_SETTINGS = {"kcals_daily": 2100.0, "fat_daily": 47.0, "protein_daily": 51.0, "population": 1.0e7}


def run_case(c, V):
    fn = c["fn"]
    v = V()
    if fn == "sum_nutrients":
        stub = types.SimpleNamespace(percent_people_fed=unhex(c["headline"]))
        return lambda: v.ensure_optimizer_returns_same_as_sum_nutrients(unhex(c["from_model"]), stub, False, False, c["code"])
    if fn == "round3_vs_round1":
        return lambda: V.assert_round3_percent_fed_not_lower_than_round1(unhex(c["minimum"]), unhex(c["round1"]),
                                                                         unhex(c["round3"]))
    if fn == "meat_dairy":
        a = [np.array(unhex(c[k]), dtype=float) for k in ("meat1", "meat2", "milk1", "milk2")]
        return lambda: V.assert_meat_dairy_doesnt_decrease_round_2(*a)
    if fn == "ge_zero":
        settings(DEFAULT_SETTINGS)
        stub = types.SimpleNamespace()
        for attr in ("cell_sugar", "scp", "greenhouse", "fish", "meat", "milk", "new_stored_outdoor_crops"):
            setattr(stub, attr, food(unhex(c[attr]), PCT))
        setattr(stub, "immediate_outdoor_crops", food(unhex(c["immediate_outdoor_crops"]), PCT))
        return lambda: v.ensure_all_greater_than_or_equal_to_zero(stub)
    if fn == "zero_kcals":
        settings(DEFAULT_SETTINGS, include_fat=bool(c["include_fat"]), include_protein=bool(c["include_protein"]))
        stub = types.SimpleNamespace()
        for attr, (k, f, p) in zip(("cell_sugar", "scp", "greenhouse", "fish", "meat", "milk", "immediate_outdoor_crops",
                                    "new_stored_outdoor_crops"), c["foods"]):
            setattr(stub, attr, food(unhex(k), PCT, unhex(f), unhex(p)))
        return lambda: v.ensure_zero_kcals_have_zero_fat_and_protein(stub)
    if fn in ("feed_below_demand", "biofuels_below_demand"):
        settings(c["settings"])
        suffix = "_feed" if fn == "feed_below_demand" else "_biofuels"
        stub = types.SimpleNamespace(include_fat=bool(c["include_fat"]), include_protein=bool(c["include_protein"]))
        for attr, ser in zip(("cell_sugar", "scp", "seaweed", "outdoor_crops", "stored_food"), c["series"]):
            setattr(stub, attr + suffix, food(unhex(ser), PCT))
        dem = food(unhex(c["demand"]), BK)
        if fn == "feed_below_demand":
            return lambda: V.assert_feed_used_below_feed_demand(dem, stub, 1)
        return lambda: V.assert_biofuels_used_below_biofuels_demand(dem, stub, 1)
    if fn == "check_constraints":
        import pulp
        model = pulp.LpProblem("c16val", pulp.LpMaximize)
        vs = {}
        for name, val in c["vars"]:
            x = pulp.LpVariable(name, lowBound=0)
            x.varValue = unhex(val)
            vs[name] = x
        for k, row in enumerate(c["rows"]):
            e = pulp.lpSum([unhex(cf) * vs[name] for cf, name in row["lhs"]])
            rhs = unhex(row["rhs"])
            con = {"Le": e <= rhs, "Ge": e >= rhs, "Eq": e == rhs}[row["sense"]]
            model += con, row["name"]
        return lambda: v.check_constraints_satisfied(model, list(c["maximize_constraints"]), model.variables())
    raise KeyError(fn)


def main(payload):
    from src.optimizer.validate_results import Validator
    out = []
    for c in payload["cases"]:
        r = {}
        try:
            f = run_case(c, Validator)
            with captured() as buf:
                f()
            r["outcome"] = "pass"
            r["printed"] = len(buf.getvalue().strip()) > 0
        except BaseException as e:  # noqa
            r["outcome"] = classify(e)
            r["msg"] = repr(e)[:200]
        out.append(r)
    import inspect
    return {"results": out, "validator_file": inspect.getsourcefile(Validator)}


if __name__ == "__main__":
    main_io(main)
