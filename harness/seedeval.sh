#!/bin/bash
# harness/seedeval.sh <worktree> <PROP> [more PROPs to run as well]: verify both seeds of a worktree and run the quick check(s) against them
wt=$1; shift
for k in 1 2; do
  echo "== $wt seed $k"
  python3-vt /verif/harness/seedverify.py $wt $k 2>&1 | python3 -c "import json,sys; t=sys.stdin.read(); i=t.find('{'); d=json.loads(t[i:]); print({k:d[k] for k in ('demo_clean','apply','demo_patched','fast_tests')})"
  python3-vt /verif/harness/seedrun.py $wt/seed_out/$k/patch.diff "$@" 2>&1 | grep -v conda | cut -c1-280
done
