"""python3-vt harness/seedverify.py <worktree> <k> : confirm a seeded change in its scratch worktree:
demo exits 0 on clean HEAD, 1 with the patch; the fast existing tests pass with the patch. Prints a JSON summary."""
import json, os, subprocess, sys
wt, k = sys.argv[1], sys.argv[2]
sd = os.path.join(wt, "seed_out", k)
env = dict(os.environ, PYTHONPATH=wt, MPLBACKEND="Agg", PYTHONHASHSEED="0")
def sh(cmd, **kw):
    return subprocess.run(cmd, cwd=wt, env=env, capture_output=True, text=True, **kw)
sh(["git", "checkout", "--", "."])
out = {}
r = sh(["/venv/bin/python", os.path.join("seed_out", k, "demo.py")]); out["demo_clean"] = r.returncode
a = sh(["git", "apply", os.path.join("seed_out", k, "patch.diff")]); out["apply"] = a.returncode
r = sh(["/venv/bin/python", os.path.join("seed_out", k, "demo.py")]); out["demo_patched"] = r.returncode; out["demo_tail"] = (r.stdout + r.stderr)[-400:]
t = sh(["/venv/bin/python", "-m", "pytest", "-q", "-p", "no:cacheprovider", "tests", "--ignore=tests/test_argentina_parameters.py",
        "--ignore=tests/test_individual_scenarios.py", "-q", "--deselect", "tests/test_seaweed.py", "--deselect", "tests/test_greenhouses.py"])
out["fast_tests"] = t.returncode; out["fast_tests_tail"] = t.stdout.strip().splitlines()[-1:] 
if "--scen" in sys.argv:
    s = sh(["/venv/bin/python", "-m", "pytest", "-q", "-p", "no:cacheprovider", "tests/test_individual_scenarios.py", "-q"])
    out["scenario_test"] = s.returncode
sh(["git", "checkout", "--", "."])
print(json.dumps(out, indent=1))
