"""Coq terms for LP instances (Model/LP.v lp_in), observed rows and reported values."""
from lib import fq, fql, cbool, cnat

SERIES = ["crops_prod", "milk", "greenhouse", "fish", "scp_prod", "cs_prod", "built_area", "growth", "feed_charge",
          "biofuel_charge", "meat_monthly", "meat_running", "max_feed", "max_biofuel", "pin_cr", "pin_sf", "pin_meat",
          "pin_scp", "pin_cs", "pin_sw"]
SCALARS = ["pop", "kcals_monthly_pp", "need", "w_sf", "w_cr", "w_meat", "w_scp", "w_cs", "w_sw", "sf0", "meat_total",
           "sw_kcals", "sw_init", "sw_init_area", "sw_min_density", "sw_max_density", "sw_harvest_loss",
           "cap_sw_h", "cap_sw_f", "cap_sw_b", "cap_scp_h", "cap_scp_f", "cap_scp_b", "cap_cs_h", "cap_cs_f", "cap_cs_b"]
BOOLS = ["add_sw", "add_cr", "add_sf", "add_meat", "add_scp", "add_cs", "store_years", "relocated"]

IMPORTS = "From Allfed Require Import Model.LP Model.LPCheck."


def coq_ty(ty):
    return "ToHumans" if ty == "to_humans" else "ToAnimals"


def coq_lp_in(d):
    parts = [f"NM := {cnat(d['NM'])}", f"harvest_delay := {cnat(d['harvest_delay'])}"]
    parts += [f"{k} := {cbool(d[k])}" for k in BOOLS]
    parts += [f"{k} := {fq(d[k])}" for k in SCALARS]
    parts += [f"{k} := {fql(d[k])}" for k in SERIES]
    return "{| " + ";\n   ".join(parts) + " |}"


def coq_rows(rows):
    out = []
    for sense, rhs, terms in rows:
        ts = "; ".join(f"({int(s)}%nat, {int(m)}%nat, {fq(c)})" for s, m, c in terms if c != 0)
        out.append(f"(({int(sense)})%Z, {fq(rhs)}, [{ts}])")
    return "[" + ";\n ".join(out) + "]"


def coq_vals(values):
    return "[" + ";\n ".join(f"({int(k)}%nat, {fql(v)})" for k, v in sorted((int(k), v) for k, v in values.items())) + "]"


def scale_of(d):
    """largest input magnitude of the instance (absolute floor of the rhs comparison)"""
    m = 1.0
    for k in SCALARS:
        m = max(m, abs(d[k]))
    for k in SERIES:
        for x in d[k]:
            m = max(m, abs(x))
    return m


def instance_defs(name, rec):
    """Definitions for one captured/synthetic instance: <name>_in, <name>_rows, <name>_vals"""
    d = rec["lp_in"]
    s = f"Definition {name}_in : lp_in := {coq_lp_in(d)}.\n"
    if "rows" in rec:
        s += f"Definition {name}_rows : list orow := {coq_rows(rec['rows'])}.\n"
    if "values" in rec:
        s += f"Definition {name}_vals : vals := {coq_vals(rec['values'])}.\n"
    return s
